module verifcheck

go 1.26.8

require (
	golang.org/x/sync v0.23.0
	golang.org/x/tools v0.50.0
)

require golang.org/x/mod v0.41.0 // indirect
