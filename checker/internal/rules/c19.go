package rules

import (
	"fmt"
	"os"
	"go/token"
	"go/types"
	"strings"

	"golang.org/x/tools/go/ssa"

	"verifcheck/internal/core"
)

func init() {
	register(&Rule{ID: "C19", Patterns: []string{"./agent/consul"}, Run: runC19})
}

// sideOf: does the value derive from the local or the remote input of a diff function?
func sideOf(v ssa.Value) string {
	local, remote := false, false
	for _, leaf := range core.Leaves(v, core.SliceOpts{ThroughCalls: true}) {
		switch x := leaf.(type) {
		case *ssa.Parameter:
			n := strings.ToLower(x.Name())
			if strings.HasPrefix(n, "local") {
				local = true
			}
			if strings.HasPrefix(n, "remote") {
				remote = true
			}
		case *ssa.Call:
			mn := core.MethodNameOf(&x.Call)
			if strings.HasPrefix(mn, "Local") {
				local = true
			}
			if strings.HasPrefix(mn, "Remote") {
				remote = true
			}
		}
	}
	switch {
	case local && remote:
		return "both"
	case local:
		return "local"
	case remote:
		return "remote"
	}
	return "none"
}

// appendRole: where does the slice built by this append end up? Followed only
// through phis (loop-carried slice variables) to the store into a result field
// or to the return position.
func appendRole(call *ssa.Call) string {
	role := ""
	seen := map[ssa.Value]bool{}
	var visit func(v ssa.Value)
	visit = func(v ssa.Value) {
		if seen[v] || v.Referrers() == nil || role != "" {
			return
		}
		seen[v] = true
		for _, u := range *v.Referrers() {
			switch x := u.(type) {
			case *ssa.Phi:
				visit(x)
			case *ssa.MakeInterface:
				visit(x)
			case *ssa.ChangeType:
				visit(x)
			case *ssa.Store:
				if x.Val != v {
					continue
				}
				if fa, ok := x.Addr.(*ssa.FieldAddr); ok {
					n := core.FieldObj(fa).Name()
					switch {
					case strings.Contains(n, "Delet"):
						role = "delete"
					case strings.Contains(n, "Upsert") || strings.Contains(n, "Updat"):
						role = "upsert"
					}
				}
			case *ssa.Return:
				for i, res := range x.Results {
					if res == v && x.Parent().Signature.Results().Len() == 2 {
						if i == 0 {
							role = "delete"
						} else {
							role = "upsert"
						}
					}
				}
			case *ssa.Call:
				// the next append in the chain (append(x, …) where x is this slice)
				if bi, ok := x.Call.Value.(*ssa.Builtin); ok && bi.Name() == "append" && len(x.Call.Args) > 0 && x.Call.Args[0] == v {
					visit(x)
				}
			}
		}
	}
	visit(call)
	return role
}

func loopHeaders(f *ssa.Function) map[*ssa.BasicBlock]bool {
	h := map[*ssa.BasicBlock]bool{}
	for _, b := range f.Blocks {
		for _, s := range b.Succs {
			if s.Dominates(b) {
				h[s] = true
			}
		}
	}
	return h
}

// innermostLoop: the loop header that dominates b, can be reached again from b, and is deepest.
func innermostLoop(f *ssa.Function, hdrs map[*ssa.BasicBlock]bool, b *ssa.BasicBlock) *ssa.BasicBlock {
	var best *ssa.BasicBlock
	for h := range hdrs {
		if !h.Dominates(b) {
			continue
		}
		// b must be inside the loop: h reachable from b
		reach := false
		w := &core.Walk{Visit: func(in ssa.Instruction) {
			if in.Block() == h {
				reach = true
			}
		}}
		if len(b.Instrs) > 0 {
			w.FromInstr(b.Instrs[len(b.Instrs)-1])
		}
		if !reach && b != h {
			continue
		}
		if best == nil || best.Dominates(h) {
			best = h
		}
	}
	return best
}

func runC19(c *Ctx) {
	p, r := c.P, c.R
	r.Clauses = []string{
		"C19.1 in every merge-walk that computes a replication round, what is scheduled for deletion comes from the local input and what is scheduled for upsert from the remote input",
		"C19.3 both tails of the walk are drained: each result list is appended to in the merge loop and in a tail loop of its own",
		"C19.2 within a round the deletions are applied before the upserts",
		"C19.7 a sorted merge walk sorts both of its inputs itself, with its own comparator, before walking them",
		"C19.4 nothing is applied when nothing differs: the apply steps lie below len(deletions) > 0 / len(updates) > 0",
		"C19.5 the remote index is returned (advanced) only on paths where no apply step reported an error",
		"C19.6 cursor discipline: a cursor of the walk advances only past an element that was matched, scheduled, or skipped for having an empty ID of its own",
	}
	r.NotDecided = []string{"that the skip conditions on index and hash are sufficient", "equality of the resulting sets for all inputs", "C19.2 (sort key = merge key) is not built"}

	var walks []*ssa.Function
	for _, f := range p.SrcFuncs("agent/consul") {
		if f.Parent() != nil {
			continue
		}
		// a merge-walk: appends with both roles, from both sides
		roles := map[string]int{}
		for _, b := range f.Blocks {
			for _, in := range b.Instrs {
				if call, ok := in.(*ssa.Call); ok {
					if bi, ok := call.Call.Value.(*ssa.Builtin); ok && bi.Name() == "append" {
						if ro := appendRole(call); ro != "" {
							roles[ro]++
						}
					}
				}
			}
		}
		if os.Getenv("VERIF_DEBUG") != "" && strings.Contains(strings.ToLower(f.Name()), "diff") {
			fmt.Printf("debug C19: %s roles=%v\n", f.Name(), roles)
		}
		if roles["delete"] > 0 && roles["upsert"] > 0 && strings.Contains(strings.ToLower(f.Name()), "diff") {
			// a sorted merge-walk has a merge loop and two tail loops; map-based diffs (diffIntentions) are not walks
			walks = append(walks, f)
		}
	}
	for _, f := range walks {
		checkMergeWalk(c, f)
	}
	r.Floor("C19.1", 3)
	r.Floor("C19.3", 3)
	r.Floor("C19.6", 3)

	checkReplicationRounds(c)
}

func checkMergeWalk(c *Ctx, f *ssa.Function) {
	p, r := c.P, c.R
	name := core.FuncName(f)
	hdrs := loopHeaders(f)
	type app struct {
		call *ssa.Call
		role string
		side string
		elem ssa.Value
		loop *ssa.BasicBlock
	}
	var apps []app
	for _, b := range f.Blocks {
		for _, in := range b.Instrs {
			call, ok := in.(*ssa.Call)
			if !ok {
				continue
			}
			bi, ok := call.Call.Value.(*ssa.Builtin)
			if !ok || bi.Name() != "append" {
				continue
			}
			role := appendRole(call)
			if role == "" {
				continue
			}
			elems := core.UnpackVariadic(call.Call.Args[1])
			if len(elems) != 1 {
				continue
			}
			apps = append(apps, app{call, role, sideOf(elems[0]), elems[0], innermostLoop(f, hdrs, b)})
		}
	}
	// C19.1
	bad := ""
	for _, a := range apps {
		want := "local"
		if a.role == "upsert" {
			want = "remote"
		}
		if a.side != want {
			bad = fmt.Sprintf("the %s list receives an element derived from the %s input at %s", a.role, a.side, p.Pos(a.call.Pos()))
		}
	}
	if bad != "" {
		r.Violate("C19.1", name, p.FuncPos(f), bad+": objects that exist only locally are re-written (or primary objects deleted) — the secondary does not converge to the primary")
	} else {
		r.Hold("C19.1", name, p.FuncPos(f), fmt.Sprintf("%d appends: deletions from local, upserts from remote", len(apps)))
	}
	if !hasTwoCursorLoop(f) {
		// a map-based diff, not a sorted merge-walk: only the provenance clause applies
		return
	}
	// C19.3
	loopsOf := map[string]map[*ssa.BasicBlock]bool{"delete": {}, "upsert": {}}
	for _, a := range apps {
		if a.loop != nil {
			loopsOf[a.role][a.loop] = true
		}
	}
	if len(loopsOf["delete"]) >= 2 && len(loopsOf["upsert"]) >= 2 {
		r.Hold("C19.3", name, p.FuncPos(f), "each result list is fed in the merge loop and in its own tail loop")
	} else {
		r.Violate("C19.3", name, p.FuncPos(f), fmt.Sprintf("deletions are appended in %d loop(s), upserts in %d: a tail of one input is not drained, so trailing local-only objects are never deleted or trailing primary objects never created", len(loopsOf["delete"]), len(loopsOf["upsert"])))
	}
	// C19.6 cursor discipline
	checkCursors(c, f)
	// C19.7 both inputs of the walk are sorted (by this function) before the walk starts
	checkBothSidesSorted(c, f)
}

// C19.7
func checkBothSidesSorted(c *Ctx, f *ssa.Function) {
	p, r := c.P, c.R
	name := core.FuncName(f)
	// the slices the walk indexes inside its loops
	hdrsAll := loopHeaders(f)
	var walked []ssa.Value
	seenW := map[ssa.Value]bool{}
	for _, b := range f.Blocks {
		if innermostLoop(f, hdrsAll, b) == nil {
			continue
		}
		for _, in := range b.Instrs {
			var x ssa.Value
			switch v := in.(type) {
			case *ssa.IndexAddr:
				x = v.X
			case *ssa.Index:
				x = v.X
			}
			if x == nil {
				continue
			}
			// a window of a list (ranging over local[i:]) walks the list itself
			for {
				sl, ok := x.(*ssa.Slice)
				if !ok {
					break
				}
				x = sl.X
			}
			if _, isSlice := x.Type().Underlying().(*types.Slice); !isSlice {
				continue
			}
			if !seenW[x] {
				seenW[x] = true
				walked = append(walked, x)
			}
		}
	}
	isSortCall := func(in ssa.Instruction) (args []ssa.Value, ok bool) {
		ci, isCall := in.(ssa.CallInstruction)
		if !isCall {
			return nil, false
		}
		n := core.MethodNameOf(ci.Common())
		if g := ci.Common().StaticCallee(); g != nil {
			n = g.Name()
		}
		if !strings.Contains(strings.ToLower(n), "sort") && core.CalleePkgPath(ci.Common()) != "sort" {
			return nil, false
		}
		return ci.Common().Args, true
	}
	if len(walked) >= 2 {
		label := func(v ssa.Value) string {
			if prm, ok := v.(*ssa.Parameter); ok {
				return prm.Name()
			}
			if v.Name() != "" {
				return shortExpr(v)
			}
			return "a slice"
		}
		mf := &core.MustFlow{F: f, Gen: func(in ssa.Instruction) []string {
			args, ok := isSortCall(in)
			if !ok {
				return nil
			}
			var out []string
			for _, a := range args {
				if mi, ok := a.(*ssa.MakeInterface); ok {
					a = mi.X
				}
				for i, w := range walked {
					if a == w {
						out = append(out, fmt.Sprint(i))
					}
				}
			}
			return out
		}}
		mf.Run()
		sorted := map[int]bool{}
		for h := range hdrsAll {
			if st, ok := mf.At(h.Instrs[0]); ok {
				for i := range walked {
					if st[fmt.Sprint(i)] {
						sorted[i] = true
					}
				}
			}
		}
		var missing []string
		for i, w := range walked {
			if !sorted[i] {
				missing = append(missing, label(w))
			}
		}
		if len(missing) == 0 {
			r.Hold("C19.7", name, p.FuncPos(f), fmt.Sprintf("all %d walked inputs are sorted here before the walk", len(walked)))
		} else {
			r.Violate("C19.7", name, p.FuncPos(f), "the merge walk compares the two inputs position by position but "+strings.Join(missing, ", ")+" is not sorted by this function first: the walk relies on the caller's order (the state store orders config entries case-insensitively, the comparator does not), so entries present on both sides are paired wrongly and come out as a deletion plus an upsert — an already equal secondary keeps writing")
		}
		return
	}
	// replicator-object form: one call sorts both sides (SortState) before the walk
	var sortCall ssa.Instruction
	for _, b := range f.Blocks {
		for _, in := range b.Instrs {
			if ci, ok := in.(ssa.CallInstruction); ok && strings.Contains(core.MethodNameOf(ci.Common()), "Sort") {
				sortCall = in
			}
		}
	}
	if sortCall == nil {
		r.Violate("C19.7", name, p.FuncPos(f), "the merge walk does not sort its inputs")
		return
	}
	okAll := true
	for h := range loopHeaders(f) {
		if !sortCall.Block().Dominates(h) {
			okAll = false
		}
	}
	// the replicator's sort really covers both sides
	if ci, ok := sortCall.(ssa.CallInstruction); ok && ci.Common().IsInvoke() && ci.Common().Method.Name() == "SortState" {
		for _, g := range p.SrcFuncs("agent/consul") {
			if g.Name() != "SortState" || g.Signature.Recv() == nil {
				continue
			}
			sides := map[string]bool{}
			for _, b := range g.Blocks {
				for _, in := range b.Instrs {
					if c2, ok := in.(ssa.CallInstruction); ok && (strings.Contains(core.MethodNameOf(c2.Common()), "Sort") || core.CalleePkgPath(c2.Common()) == "sort") {
						for _, a := range c2.Common().Args {
							if mi, ok := a.(*ssa.MakeInterface); ok {
								a = mi.X
							}
							if lf := core.AccessOf(a).LastField(); lf != "" {
								sides[lf] = true
							}
						}
					}
				}
			}
			if sides["local"] && sides["remote"] {
				r.Hold("C19.7", core.FuncName(g), p.FuncPos(g), "sorts the local and the remote list")
			} else {
				r.Violate("C19.7", core.FuncName(g), p.FuncPos(g), fmt.Sprintf("SortState does not sort both lists (sorted: %v): the merge walk pairs items wrongly", sides))
			}
		}
	}
	if okAll {
		r.Hold("C19.7", name, p.FuncPos(f), "the replicator sorts both sides before the walk")
	} else {
		r.Violate("C19.7", name, p.FuncPos(f), "the sort does not precede the walk on every path")
	}
}

// hasTwoCursorLoop: some loop header carries two integer cursors, each advanced by one somewhere.
func hasTwoCursorLoop(f *ssa.Function) bool {
	for h := range loopHeaders(f) {
		n := 0
		for _, in := range h.Instrs {
			phi, ok := in.(*ssa.Phi)
			if !ok {
				break
			}
			if !isUint(phi.Type()) || phi.Referrers() == nil {
				continue
			}
			for _, rr := range *phi.Referrers() {
				if bo, ok := rr.(*ssa.BinOp); ok && bo.Op == token.ADD && bo.X == ssa.Value(phi) {
					if k, ok := core.ConstInt(bo.Y); ok && k == 1 {
						n++
						break
					}
				}
			}
		}
		if n >= 2 {
			return true
		}
	}
	return false
}

// cursor accesses: (index value, element identity values) per side.
func checkCursors(c *Ctx, f *ssa.Function) {
	p, r := c.P, c.R
	name := core.FuncName(f)
	type access struct {
		instr ssa.Instruction
		idx   ssa.Value
		side  string
		ids   map[ssa.Value]bool // values identifying the element (the id, or the element itself)
	}
	var accs []access
	for _, b := range f.Blocks {
		for _, in := range b.Instrs {
			switch x := in.(type) {
			case *ssa.Call:
				mn := core.MethodNameOf(&x.Call)
				if (mn == "LocalMeta" || mn == "RemoteMeta") && len(core.CallArgs(&x.Call)) == 1 {
					a := access{instr: in, idx: core.CallArgs(&x.Call)[0], ids: map[ssa.Value]bool{}}
					a.side = "local"
					if mn == "RemoteMeta" {
						a.side = "remote"
					}
					if x.Referrers() != nil {
						for _, rr := range *x.Referrers() {
							if ex, ok := rr.(*ssa.Extract); ok && ex.Index == 0 {
								a.ids[ex] = true
							}
						}
					}
					accs = append(accs, a)
				}
			case *ssa.IndexAddr:
				side := sideOf(x.X)
				if side != "local" && side != "remote" {
					continue
				}
				if _, isSlice := x.X.Type().Underlying().(*types.Slice); !isSlice {
					continue
				}
				a := access{instr: in, idx: x.Index, side: side, ids: map[ssa.Value]bool{x: true}}
				if x.Referrers() != nil {
					for _, rr := range *x.Referrers() {
						if ld, ok := rr.(*ssa.UnOp); ok && ld.Op == token.MUL {
							a.ids[ld] = true
						}
					}
				}
				accs = append(accs, a)
			}
		}
	}
	// increments of a cursor: BinOp ADD(idx, 1)
	incsOf := func(idx ssa.Value) []ssa.Instruction {
		var out []ssa.Instruction
		if idx.Referrers() == nil {
			return nil
		}
		for _, rr := range *idx.Referrers() {
			if bo, ok := rr.(*ssa.BinOp); ok && bo.Op == token.ADD && bo.X == idx {
				if k, ok := core.ConstInt(bo.Y); ok && k == 1 {
					out = append(out, bo)
				}
			}
		}
		return out
	}
	derivesFromIDs := func(v ssa.Value, ids map[ssa.Value]bool) bool {
		seen := map[ssa.Value]bool{}
		var visit func(v ssa.Value, d int) bool
		visit = func(v ssa.Value, d int) bool {
			if v == nil || seen[v] || d > 12 {
				return false
			}
			seen[v] = true
			if ids[v] {
				return true
			}
			switch x := v.(type) {
			case *ssa.UnOp:
				return visit(x.X, d+1)
			case *ssa.FieldAddr:
				return visit(x.X, d+1)
			case *ssa.Field:
				return visit(x.X, d+1)
			case *ssa.Extract:
				return visit(x.Tuple, d+1)
			case *ssa.Convert:
				return visit(x.X, d+1)
			case *ssa.ChangeType:
				return visit(x.X, d+1)
			case *ssa.MakeInterface:
				return visit(x.X, d+1)
			case *ssa.TypeAssert:
				return visit(x.X, d+1)
			case *ssa.Phi:
				for _, e := range x.Edges {
					if visit(e, d+1) {
						return true
					}
				}
			case *ssa.Call:
				if x.Call.IsInvoke() && visit(x.Call.Value, d+1) {
					return true
				}
				for _, a := range x.Call.Args {
					if visit(a, d+1) {
						return true
					}
				}
			}
			return false
		}
		return visit(v, 0)
	}
	// group the accesses by (side, cursor): all reads of local[localIdx] denote the same element
	type gkey struct {
		side string
		idx  ssa.Value
	}
	groups := map[gkey]*access{}
	var order []gkey
	for _, a := range accs {
		k := gkey{a.side, a.idx}
		g, ok := groups[k]
		if !ok {
			cp := a
			cp.ids = map[ssa.Value]bool{}
			groups[k] = &cp
			g = &cp
			order = append(order, k)
			// start at the cursor's definition when it is a loop phi
			if phi, ok := a.idx.(*ssa.Phi); ok {
				g.instr = phi
			}
		}
		for v := range a.ids {
			g.ids[v] = true
		}
	}
	accs = accs[:0]
	for _, k := range order {
		accs = append(accs, *groups[k])
	}
	n := 0
	bad := ""
	for _, a := range accs {
		incs := incsOf(a.idx)
		if len(incs) == 0 {
			continue
		}
		// accepted edges: own id == "" ; own element equal to the other side's (== comparison or an Equal*-style call taking both)
		cut := map[core.Edge]bool{}
		for _, b := range f.Blocks {
			for _, in := range b.Instrs {
				switch x := in.(type) {
				case *ssa.BinOp:
					if x.Op != token.EQL && x.Op != token.NEQ {
						continue
					}
					te, fe := core.CondEdges(x)
					eq := te
					if x.Op == token.NEQ {
						eq = fe
					}
					xs, ys := derivesFromIDs(x.X, a.ids), derivesFromIDs(x.Y, a.ids)
					emptyCmp := false
					if s, ok := core.ConstString(x.Y); ok && s == "" && xs {
						emptyCmp = true
					}
					if s, ok := core.ConstString(x.X); ok && s == "" && ys {
						emptyCmp = true
					}
					otherSide := (xs && sideOf(x.Y) != a.side && sideOf(x.Y) != "none") || (ys && sideOf(x.X) != a.side && sideOf(x.X) != "none")
					if emptyCmp || otherSide {
						for _, e := range eq {
							cut[e] = true
						}
					}
				case *ssa.Call:
					// EqualID(local[i], remote[j]) style
					if strings.HasPrefix(core.MethodNameOf(&x.Call), "Equal") && len(x.Call.Args) == 2 {
						hit := false
						for _, arg := range x.Call.Args {
							if derivesFromIDs(arg, a.ids) {
								hit = true
							}
						}
						if hit {
							te, _ := core.CondEdges(x)
							for _, e := range te {
								cut[e] = true
							}
						}
					}
				}
			}
		}
		isSchedule := func(in ssa.Instruction) bool {
			call, ok := in.(*ssa.Call)
			if !ok {
				return false
			}
			bi, ok := call.Call.Value.(*ssa.Builtin)
			if !ok || bi.Name() != "append" || appendRole(call) == "" {
				return false
			}
			elems := core.UnpackVariadic(call.Call.Args[1])
			return len(elems) == 1 && derivesFromIDs(elems[0], a.ids)
		}
		for _, inc := range incs {
			n++
			hit := false
			w := &core.Walk{
				Cut:   func(b *ssa.BasicBlock, si int) bool { return cut[core.Edge{From: b, Succ: si}] },
				Stop:  func(in ssa.Instruction) bool { return isSchedule(in) },
				Visit: func(in ssa.Instruction) { hit = hit || in == inc },
			}
			w.FromInstr(a.instr)
			if hit {
				bad = fmt.Sprintf("the %s cursor is advanced at %s past an element that was neither matched with the other side, scheduled, nor skipped for an empty ID of its own", a.side, p.Pos(inc.Pos()))
			}
		}
	}
	if n == 0 {
		r.Undecide("C19.6", name, p.FuncPos(f), "no cursor increments found")
		return
	}
	if bad != "" {
		r.Violate("C19.6", name, p.FuncPos(f), bad+": the two sorted inputs get misaligned and in-sync objects are deleted or new ones never created")
	} else {
		r.Hold("C19.6", name, p.FuncPos(f), fmt.Sprintf("%d cursor advances, each past a matched, scheduled or own-empty element", n))
	}
}

func sameAccessAgain(in ssa.Instruction, orig ssa.Instruction) bool {
	// a later access of the same kind through the same cursor means a new iteration
	switch x := in.(type) {
	case *ssa.Call:
		if o, ok := orig.(*ssa.Call); ok {
			return core.MethodNameOf(&x.Call) == core.MethodNameOf(&o.Call) && core.MethodNameOf(&x.Call) != "" && (core.MethodNameOf(&x.Call) == "LocalMeta" || core.MethodNameOf(&x.Call) == "RemoteMeta")
		}
	}
	return false
}

// C19.4 / C19.5
func checkReplicationRounds(c *Ctx) {
	p, r := c.P, c.R
	applyNames := map[string]bool{"deleteLocalACLType": true, "updateLocalACLType": true, "reconcileLocalConfig": true, "PerformDeletions": true, "PerformUpdates": true}
	for _, f := range p.SrcFuncs("agent/consul") {
		if f.Parent() != nil {
			continue
		}
		var applies []*ssa.Call
		for _, b := range f.Blocks {
			for _, in := range b.Instrs {
				if call, ok := in.(*ssa.Call); ok && applyNames[core.MethodNameOf(&call.Call)] {
					applies = append(applies, call)
				}
			}
		}
		// the round function itself (returns the index to resume from) or a helper of it that
		// carries the apply phase and reports failure through its error
		if len(applies) == 0 || core.ErrResultIndex(f) < 0 {
			continue
		}
		name := core.FuncName(f)
		// len(x) > 0 edges
		var lenEdges []core.Edge
		for _, b := range f.Blocks {
			for _, in := range b.Instrs {
				cmp, ok := in.(*ssa.BinOp)
				if !ok {
					continue
				}
				isLen := func(v ssa.Value) bool {
					call, ok := v.(*ssa.Call)
					if !ok {
						return false
					}
					bi, ok := call.Call.Value.(*ssa.Builtin)
					return ok && bi.Name() == "len"
				}
				k, isK := core.ConstInt(cmp.Y)
				fieldLen := core.AccessOf(cmp.X).LastField()
				lenLike := isLen(cmp.X) || strings.HasPrefix(fieldLen, "Num")
				if lenLike && isK && k == 0 {
					te, fe := core.CondEdges(cmp)
					switch cmp.Op {
					case token.GTR, token.NEQ:
						lenEdges = append(lenEdges, te...)
					case token.EQL:
						lenEdges = append(lenEdges, fe...)
					}
				}
			}
		}
		// C19.2: deletions are applied before upserts (an upsert may address the row a deletion
		// removes: names are unique per type, config entries are keyed case-insensitively)
		kindOf := func(ap *ssa.Call) string {
			switch core.MethodNameOf(&ap.Call) {
			case "deleteLocalACLType", "PerformDeletions":
				return "delete"
			case "updateLocalACLType", "PerformUpdates":
				return "upsert"
			}
			for _, a := range ap.Call.Args {
				if s, ok := core.ConstString(a); ok {
					switch s {
					case "delete":
						return "delete"
					case "upsert":
						return "upsert"
					}
				}
			}
			return ""
		}
		var dels, ups []*ssa.Call
		for _, ap := range applies {
			switch kindOf(ap) {
			case "delete":
				dels = append(dels, ap)
			case "upsert":
				ups = append(ups, ap)
			}
		}
		if len(dels) > 0 && len(ups) > 0 {
			bad := ""
			for _, u := range ups {
				w := &core.Walk{Visit: func(in ssa.Instruction) {
					for _, d := range dels {
						if in == ssa.Instruction(d) {
							bad = p.Pos(d.Pos())
						}
					}
				}}
				w.FromInstr(u)
			}
			if bad != "" {
				r.Violate("C19.2", name, p.FuncPos(f), "the deletions of a round are applied (at "+bad+") after its upserts: when an upsert addresses the row a deletion names (an object re-created under the same unique name, a config entry renamed only in letter case) the object ends up deleted and the round still reports success")
			} else {
				r.Hold("C19.2", name, p.FuncPos(f), "deletions are applied before upserts")
			}
		} else if len(applies) > 0 {
			r.Undecide("C19.2", name, p.FuncPos(f), fmt.Sprintf("apply steps could not be classified (deletes=%d upserts=%d)", len(dels), len(ups)))
		}
		for i, ap := range applies {
			construct := fmt.Sprintf("%s/%s#%d", name, core.MethodNameOf(&ap.Call), i+1)
			if len(lenEdges) > 0 && core.CutMakesUnreachable(f, nil, lenEdges, ap) {
				r.Hold("C19.4", construct, p.Pos(ap.Pos()), "applied only below a non-empty difference")
			} else {
				r.Violate("C19.4", construct, p.Pos(ap.Pos()), "the apply step runs even when the computed difference is empty: a secondary that already equals the primary produces writes")
			}
			// C19.5
			if bad := failureMeansIndexZero(p, f, ap, 2); bad != "" {
				r.Violate("C19.5", construct, p.Pos(ap.Pos()), bad+": the next round skips the objects that were not applied (their ModifyIndex is at or below the advanced index)")
			} else {
				r.Hold("C19.5", construct, p.Pos(ap.Pos()), "a failed apply step returns index 0")
			}
		}
	}
	r.Floor("C19.2", 3)
	r.Floor("C19.4", 4)
	r.Floor("C19.5", 4)
}


// failureMeansIndexZero: with the error of call known non-nil, f — when it is the round function
// (first result: the index) — can only return index 0; when f is a helper that reports through its
// error, it can only return a failure, and the same then holds for its callers in the package.
func failureMeansIndexZero(p *core.Program, f *ssa.Function, call *ssa.Call, depth int) string {
	var errV ssa.Value
	if core.IsErrorType(call.Type()) {
		errV = call
	} else if call.Referrers() != nil {
		for _, rr := range *call.Referrers() {
			if ex, ok := rr.(*ssa.Extract); ok && core.IsErrorType(ex.Type()) {
				errV = ex
			}
		}
	}
	if errV == nil {
		return "the error of the apply step is dropped"
	}
	isRound := f.Signature.Results().Len() >= 2 && isUint(f.Signature.Results().At(0).Type())
	if len(nilCmps(errV)) == 0 {
		// `return helper(...)`-style forwarding of the error is fine for a helper
		forwarded := false
		if !isRound {
			for _, rt := range core.Returns(f) {
				if v := core.ResolveResult(rt, core.ErrResultIndex(f)); v == errV {
					forwarded = true
				}
			}
		}
		if !forwarded {
			return "the error of the apply step is never tested"
		}
	}
	for _, cmp := range nilCmps(errV) {
		te, fe := core.CondEdges(cmp)
		nonNil := te
		if cmp.Op == token.EQL {
			nonNil = fe
		}
		for _, e := range nonNil {
			nf := core.NewNilFlow(e.From, e.Succ, map[ssa.Value]core.Tri{errV: core.False})
			for _, rt := range core.Returns(f) {
				if !nf.Reached(rt.Block()) {
					continue
				}
				if isRound {
					if k, ok := core.ConstInt(core.ResolveResult(rt, 0)); !ok || k != 0 {
						return "after this apply step failed the function can still return the remote index at " + p.Pos(rt.Pos())
					}
				} else if nf.ReturnKind(rt) != core.RetFailure {
					return "after this apply step failed its helper can still report success at " + p.Pos(rt.Pos())
				}
			}
		}
	}
	if isRound {
		return ""
	}
	if depth <= 0 {
		return "the apply step's failure is reported by a helper whose callers could not be followed"
	}
	sites := callersOf(p, f, "agent/consul")
	if len(sites) == 0 {
		return "the helper carrying the apply step has no caller"
	}
	for _, cs := range sites {
		c2, ok := cs.(*ssa.Call)
		if !ok {
			return "the helper carrying the apply step is called in a go/defer statement"
		}
		if bad := failureMeansIndexZero(p, cs.Parent(), c2, depth-1); bad != "" {
			return bad
		}
	}
	return ""
}
