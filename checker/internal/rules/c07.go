package rules

import (
	"sort"
	"fmt"
	"go/token"
	"go/types"
	"strings"

	"golang.org/x/tools/go/ssa"

	"verifcheck/internal/core"
)

func init() {
	register(&Rule{ID: "C07", Patterns: []string{"./agent/consul/state", "./agent/consul/fsm"}, Run: runC07})
}

const (
	tblServices     = "services"
	tblCoordinates  = "coordinates"
	tblMeshTopology = "mesh-topology"
	tblKindSvcNames = "kind-service-names"
	tblSvcVIPs      = "service-virtual-ips"
	tblFreeVIPs     = "free-virtual-ips"
	tblGatewaySvcs  = "gateway-services"
	tblUsage        = "usage"
)

// insertsOf: instructions in f that put obj into table: a direct Insert, or a
// call passing obj to a function that inserts that parameter.
func insertsOf(p *core.Program, f *ssa.Function, table string) []kvInsert {
	var out []kvInsert
	for _, b := range f.Blocks {
		for _, in := range b.Instrs {
			if op := core.AsMemdbOp(in); op != nil {
				if op.Op == "Insert" && op.TableKnown && op.Table == table {
					obj := op.Obj
					if mi, ok := obj.(*ssa.MakeInterface); ok {
						obj = mi.X
					}
					out = append(out, kvInsert{in, obj})
				}
				continue
			}
			if ci, ok := in.(ssa.CallInstruction); ok {
				h := ci.Common().StaticCallee()
				if h == nil || h.Pkg == nil || !core.IsConsul(h.Pkg.Pkg.Path()) {
					continue
				}
				for ai, a := range ci.Common().Args {
					if _, isPtr := a.Type().Underlying().(*types.Pointer); !isPtr {
						continue
					}
					if insertsParamInto(p, h, ai, table, 3) {
						out = append(out, kvInsert{in, a})
					}
				}
			}
		}
	}
	return out
}

// emptyStringEdges: edges on which the string value satisfying pred is "".
func emptyStringEdges(f *ssa.Function, pred func(ssa.Value) bool) (empty, nonEmpty map[core.Edge]bool) {
	empty, nonEmpty = map[core.Edge]bool{}, map[core.Edge]bool{}
	for _, b := range f.Blocks {
		for _, in := range b.Instrs {
			cmp, ok := in.(*ssa.BinOp)
			if !ok || (cmp.Op != token.EQL && cmp.Op != token.NEQ) {
				continue
			}
			var other ssa.Value
			if s, ok := core.ConstString(cmp.Y); ok && s == "" {
				other = cmp.X
			} else if s, ok := core.ConstString(cmp.X); ok && s == "" {
				other = cmp.Y
			}
			if other == nil || !pred(other) {
				continue
			}
			te, fe := core.CondEdges(cmp)
			e, ne := te, fe
			if cmp.Op == token.NEQ {
				e, ne = fe, te
			}
			for _, x := range e {
				empty[x] = true
			}
			for _, x := range ne {
				nonEmpty[x] = true
			}
		}
	}
	return
}

func isPeerValue(v ssa.Value) bool {
	if prm, ok := v.(*ssa.Parameter); ok && strings.Contains(strings.ToLower(prm.Name()), "peer") {
		return true
	}
	return core.AccessOf(v).LastField() == "PeerName"
}

func runC07(c *Ctx) {
	p, r := c.P, c.R
	r.Clauses = []string{
		"C07.1 a services row is inserted only below a successful nodes lookup; a checks row only below a successful nodes lookup and, when it names a service, a successful services lookup",
		"C07.2 the node-row deleter looks up and deletes the node's services, checks and coordinates on every successful path; the service-row deleter does so for the service's checks and reaches the mesh-topology, kind-service-names, gateway and virtual-IP cleanups",
		"C07.3 on every successful local-peer path to a services insert the service name is recorded in kind-service-names; connect proxies / native services pass through the mesh-topology maintainer",
		"C07.3.kind-cleanup every local connect-proxy / connect-native deregistration looks up the remaining connect instances of its connect name and removes the connect-enabled kind name when none remain",
		"C07.7 the key under which a proxy instance is recorded in a mesh-topology row's Refs is built from the node name and the service ID",
		"C07.4 the only writer of table usage is reached solely from txn.Commit",
		"C07.5 virtual-IP bookkeeping is paired: a freed address is removed from the free list on the path that assigns it, the counter is re-inserted when it is advanced, and releasing an assignment puts the address on the free list",
		"C07.6 read-modify-write of an aggregated row inserts an object derived from the row it read (mesh-topology Refs)",
	}
	r.NotDecided = []string{"equality of each derived view with a from-scratch recomputation", "uniqueness of assigned virtual IPs over histories"}

	fns := p.SrcFuncs(statePkg)
	r.Clauses = append(r.Clauses, "C07.8 the config-entry kinds that give a service a virtual IP when written are exactly the kinds that keep the virtual IP when the last instance goes (two sibling tables of the same relation)")
	checkVIPKindAgreement(c)
	r.Floor("C07.8", 1)

	// ---- C07.1
	for _, f := range fns {
		if f.Parent() != nil || isRestoreMethod(f) {
			continue
		}
		for _, tbl := range []string{tblServices, tblChecks} {
			for _, ins := range insertsOf(p, f, tbl) {
				if op := core.AsMemdbOp(ins.instr); op != nil {
					// the raw insert helper (catalogInsertService/Check): judged at its callers
					if _, isParam := ins.obj.(*ssa.Parameter); isParam {
						continue
					}
				} else {
					// judge only the function that hands the object to the raw insert helper;
					// functions further up go through it
					ci := ins.instr.(ssa.CallInstruction)
					direct := false
					for ai, a := range ci.Common().Args {
						if a == ins.obj && insertsParamInto(p, ci.Common().StaticCallee(), ai, tbl, 0) {
							direct = true
						}
					}
					if !direct {
						continue
					}
				}
				// rewriting an existing row of the same table (read-modify-write) keeps its parent
				rewrite := false
				for _, leaf := range core.Leaves(ins.obj, core.SliceOpts{ThroughCalls: true}) {
					if li, ok := leaf.(ssa.Instruction); ok {
						if op := core.AsMemdbOp(li); op != nil && op.IsRead() && op.TableKnown && op.Table == tbl {
							rewrite = true
						}
						if call, ok := li.(*ssa.Call); ok && core.AsMemdbOp(li) == nil {
							if g := call.Call.StaticCallee(); g != nil && g.Pkg != nil && core.IsConsul(g.Pkg.Pkg.Path()) && !mayWrite(p, g) && readsTable(p, g, tbl, "", 0) {
								rewrite = true
							}
						}
					}
					if ex, ok := leaf.(*ssa.Extract); ok {
						if li, ok := ex.Tuple.(ssa.Instruction); ok {
							if op := core.AsMemdbOp(li); op != nil && op.IsRead() && op.TableKnown && op.Table == tbl {
								rewrite = true
							}
						}
					}
				}
				if rewrite {
					r.Hold("C07.1", core.FuncName(f)+"/rewrite:"+tbl, p.Pos(ins.instr.Pos()), "re-inserts a copy of an existing "+tbl+" row (its parents were checked when it was created)")
					continue
				}
				// pass-through functions (object is a parameter and the function does not look the node up) are judged at callers
				nodeRows := rowReads(f, tblNodes)
				name := core.FuncName(f) + "/insert:" + tbl
				pos := p.Pos(ins.instr.Pos())
				if len(nodeRows) == 0 {
					if _, isParam := ins.obj.(*ssa.Parameter); isParam && len(callersOf(p, f, statePkg)) > 0 {
						continue
					}
					r.Violate("C07.1", name, pos, "a "+tbl+" row is inserted by a function that never looks the node up: a row can exist whose node is absent")
					continue
				}
				if rowNilAt(aliasesOf(f, nodeRows), ins.instr.Block()) != core.False {
					r.Violate("C07.1", name, pos, "the "+tbl+" insert is reachable on a path where the nodes lookup did not succeed: a "+tbl+" row can be stored for a node that does not exist")
					continue
				}
				if tbl == tblChecks {
					svcRows := rowReads(f, tblServices)
					_, nonEmpty := emptyStringEdges(f, func(v ssa.Value) bool { return core.AccessOf(v).LastField() == "ServiceID" })
					_ = nonEmpty
					// with the "ServiceID is empty" edges and the "service row exists" edges removed, the insert must be unreachable
					empty, _ := emptyStringEdges(f, func(v ssa.Value) bool { return core.AccessOf(v).LastField() == "ServiceID" })
					var edges []core.Edge
					for e := range empty {
						edges = append(edges, e)
					}
					for al := range aliasesOf(f, svcRows) {
						for _, cmp := range nilCmps(al) {
							te, fe := core.CondEdges(cmp)
							if cmp.Op == token.EQL {
								edges = append(edges, fe...)
							} else {
								edges = append(edges, te...)
							}
						}
					}
					if len(svcRows) == 0 || !core.CutMakesUnreachable(f, nil, edges, ins.instr) {
						r.Violate("C07.1", name, pos, "a check naming a service can be inserted on a path where the service lookup did not succeed: a service-scoped check without its service instance")
						continue
					}
				}
				r.Hold("C07.1", name, pos, "insert only below successful parent lookups")
			}
		}
	}
	r.Floor("C07.1", 2)

	// ---- C07.2 cascades
	sites, _ := stateWriteSites(p)
	cascade := func(rule, construct string, f *ssa.Function, start ssa.Instruction, lookupTable string, consumerTable string) {
		isLookup := func(in ssa.Instruction) bool {
			if op := core.AsMemdbOp(in); op != nil {
				return op.IsRead() && op.Op == "Get" && op.TableKnown && op.Table == lookupTable
			}
			ci, ok := in.(ssa.CallInstruction)
			if !ok {
				return false
			}
			g := ci.Common().StaticCallee()
			return g != nil && g.Pkg != nil && core.IsConsul(g.Pkg.Pkg.Path()) && !mayWrite(p, g) && readsTable(p, g, lookupTable, "", 0)
		}
		isConsumer := func(in ssa.Instruction) bool {
			if op := core.AsMemdbOp(in); op != nil {
				return op.Op == "Delete" && op.TableKnown && op.Table == consumerTable
			}
			ci, ok := in.(ssa.CallInstruction)
			if !ok {
				return false
			}
			g := ci.Common().StaticCallee()
			return g != nil && deletesFrom(p, g, consumerTable, 0)
		}
		peerNE := map[core.Edge]bool{}
		_, ne := emptyStringEdges(f, isPeerValue)
		if lookupTable == tblCoordinates {
			peerNE = ne // coordinates exist for the local peer only
		}
		// the lookup may come before the row delete (collect first, delete later) or after it
		mfAll := &core.MustFlow{F: f, Gen: func(in ssa.Instruction) []string {
			if isLookup(in) {
				return []string{"lookup"}
			}
			return nil
		}, Cut: func(b *ssa.BasicBlock, si int) bool { return peerNE[core.Edge{From: b, Succ: si}] }}
		mfAll.Run()
		bad := ""
		any := false
		reachAfter := map[*ssa.BasicBlock]bool{}
		w := &core.Walk{}
		w.FromInstr(start)
		for _, b := range f.Blocks {
			if w.Reached(b) || b == start.Block() {
				reachAfter[b] = true
			}
		}
		for _, rt := range core.Returns(f) {
			if core.ClassifyReturn(rt) == core.RetFailure || !reachAfter[rt.Block()] {
				continue
			}
			set, reach := mfAll.At(rt)
			if !reach {
				continue
			}
			any = true
			if !set["lookup"] {
				bad = "a successful path through the row delete reaches the return at " + p.Pos(rt.Pos()) + " without looking up the dependent " + lookupTable + " rows"
			}
		}
		if !any && bad == "" {
			bad = "no successful return after the row delete"
		}
		fed := false
		for _, b := range f.Blocks {
			for _, in := range b.Instrs {
				if !isConsumer(in) {
					continue
				}
				var vals []ssa.Value
				if op := core.AsMemdbOp(in); op != nil {
					vals = []ssa.Value{op.Obj}
				} else {
					vals = in.(ssa.CallInstruction).Common().Args
				}
				for _, a := range vals {
					if a == nil {
						continue
					}
					for _, leaf := range core.Leaves(a, core.SliceOpts{ThroughCalls: true}) {
						if li, ok := leaf.(ssa.Instruction); ok && isLookup(li) {
							fed = true
						}
						if ex, ok := leaf.(*ssa.Extract); ok {
							if li, ok := ex.Tuple.(ssa.Instruction); ok && isLookup(li) {
								fed = true
							}
						}
					}
				}
			}
		}
		if bad == "" && !fed {
			bad = "no delete of " + consumerTable + " rows is fed by the lookup of the dependent rows"
		}
		if bad != "" {
			r.Violate(rule, construct, p.Pos(start.Pos()), bad)
		} else {
			r.Hold(rule, construct, p.Pos(start.Pos()), "dependent "+lookupTable+" rows are looked up on every successful path and deleted")
		}
	}
	reachesCleanup := func(rule, construct string, f *ssa.Function, start ssa.Instruction, table, what string) {
		found := false
		w := &core.Walk{Visit: func(in ssa.Instruction) {
			if op := core.AsMemdbOp(in); op != nil {
				if op.IsWrite() && op.TableKnown && op.Table == table {
					found = true
				}
				return
			}
			if ci, ok := in.(ssa.CallInstruction); ok {
				if g := ci.Common().StaticCallee(); g != nil && (deletesFrom(p, g, table, 0) || insertsInto(p, g, table, 0)) {
					found = true
				}
			}
		}}
		w.FromInstr(start)
		if found {
			r.Hold(rule, construct, p.Pos(start.Pos()), what+" reached after the row delete")
		} else {
			r.Violate(rule, construct, p.Pos(start.Pos()), "after deleting the row nothing maintains table "+table+": "+what+" is skipped, the derived view keeps a stale entry")
		}
	}
	for _, s := range sites {
		if isRestoreMethod(s.fn) || s.op.Op != "Delete" {
			continue
		}
		fname := core.FuncName(s.fn)
		switch s.op.Table {
		case tblNodes:
			cascade("C07.2.node", fname+"/services", s.fn, s.op.Instr, tblServices, tblServices)
			cascade("C07.2.node", fname+"/checks", s.fn, s.op.Instr, tblChecks, tblChecks)
			cascade("C07.2.node", fname+"/coordinates", s.fn, s.op.Instr, tblCoordinates, tblCoordinates)
		case tblServices:
			cascade("C07.2.service", fname+"/checks", s.fn, s.op.Instr, tblChecks, tblChecks)
			{
				// unconditional: on every successful path after the row delete
				mf := &core.MustFlow{F: s.fn, Start: s.op.Instr, Gen: func(in ssa.Instruction) []string {
					if ci, ok := in.(ssa.CallInstruction); ok {
						if g := ci.Common().StaticCallee(); g != nil && deletesFrom(p, g, tblMeshTopology, 0) {
							return []string{"topology"}
						}
					}
					return nil
				}}
				mf.Run()
				bad := ""
				for _, rt := range core.Returns(s.fn) {
					if core.ClassifyReturn(rt) == core.RetFailure {
						continue
					}
					if set, reach := mf.At(rt); reach && !set["topology"] {
						bad = p.Pos(rt.Pos())
					}
				}
				if bad != "" {
					r.Violate("C07.2.service", fname+"/mesh-topology", p.Pos(s.op.Instr.Pos()), "a service instance can be deleted (return at "+bad+") without the mesh-topology cleanup: upstream/downstream edges of a deregistered proxy stay in the topology view")
				} else {
					r.Hold("C07.2.service", fname+"/mesh-topology", p.Pos(s.op.Instr.Pos()), "mesh-topology cleanup on every successful path after the row delete")
				}
			}
			reachesCleanup("C07.2.service", fname+"/kind-service-names", s.fn, s.op.Instr, tblKindSvcNames, "kind-service-names cleanup")
			reachesCleanup("C07.2.service", fname+"/virtual-ip", s.fn, s.op.Instr, tblSvcVIPs, "virtual-IP release")
			reachesCleanup("C07.2.service", fname+"/gateway-services", s.fn, s.op.Instr, tblGatewaySvcs, "gateway wildcard cleanup")
		}
	}
	r.Floor("C07.2.node", 3)
	r.Floor("C07.2.service", 5)

	// ---- C07.3 derived maintenance on the registration path
	for _, f := range fns {
		if f.Parent() != nil || isRestoreMethod(f) {
			continue
		}
		for _, ins := range insertsOf(p, f, tblServices) {
			if op := core.AsMemdbOp(ins.instr); op != nil {
				continue // raw insert helper
			}
			if len(rowReads(f, tblNodes)) == 0 {
				continue
			}
			name := core.FuncName(f)
			pos := p.Pos(ins.instr.Pos())
			_, peerNE := emptyStringEdges(f, isPeerValue)
			mf := &core.MustFlow{F: f,
				Gen: func(in ssa.Instruction) []string {
					ci, ok := in.(ssa.CallInstruction)
					if !ok {
						return nil
					}
					g := ci.Common().StaticCallee()
					if g == nil {
						return nil
					}
					var out []string
					if insertsInto(p, g, tblKindSvcNames, 0) {
						out = append(out, "ksn")
					}
					if insertsInto(p, g, tblMeshTopology, 0) {
						out = append(out, "topology")
					}
					return out
				},
				Cut: func(b *ssa.BasicBlock, si int) bool { return peerNE[core.Edge{From: b, Succ: si}] }}
			mf.Run()
			set, reach := mf.At(ins.instr)
			if !reach {
				continue
			}
			if set["ksn"] {
				r.Hold("C07.3.kind-names", name, pos, "every local-peer path to the services insert records the name in kind-service-names")
			} else {
				r.Violate("C07.3.kind-names", name, pos, "a local-peer path reaches the services insert without recording the service name in kind-service-names: ServiceNamesOfKind omits a registered service")
			}
			// connect: with the "not a proxy and not native" edges removed, the topology maintainer is on every path
			notConnect := map[core.Edge]bool{}
			for _, b := range f.Blocks {
				for _, in := range b.Instrs {
					ld, ok := in.(*ssa.UnOp)
					if !ok || ld.Op != token.MUL || core.AccessOf(ld).LastField() != "Native" {
						continue
					}
					_, fe := core.CondEdges(ld)
					for _, e := range fe {
						notConnect[e] = true
					}
				}
			}
			if len(notConnect) > 0 {
				mf2 := &core.MustFlow{F: f, Gen: mf.Gen, Cut: func(b *ssa.BasicBlock, si int) bool { return notConnect[core.Edge{From: b, Succ: si}] }}
				mf2.Run()
				if s2, ok := mf2.At(ins.instr); ok && s2["topology"] {
					r.Hold("C07.3.topology", name, pos, "connect proxies / native services pass through the mesh-topology maintainer before the insert")
				} else {
					r.Violate("C07.3.topology", name, pos, "a connect proxy or connect-native service can be inserted without updating the upstream/downstream topology")
				}
			}
		}
	}
	r.Floor("C07.3.kind-names", 1)
	r.Floor("C07.3.topology", 1)

	// ---- C07.3.kind-cleanup: the deregistration side. Whenever a local connect proxy / native
	// instance is removed, the remaining connect instances of its connect name are queried, and
	// when none remain the connect-enabled kind name is removed. (Whether another instance of the
	// deleted service's own name remains is a different question: proxies of several names can
	// serve one destination.)
	for _, f := range p.SrcFuncs(statePkg) {
		if f.Parent() != nil {
			continue
		}
		var cleanup, query []ssa.Instruction
		delSvc := false
		var delInstr ssa.Instruction
		for _, b := range f.Blocks {
			for _, in := range b.Instrs {
				if op := core.AsMemdbOp(in); op != nil && op.Op == "Delete" && op.TableKnown && op.Table == tblServices {
					delSvc = true
					delInstr = in
				}
				if ci, ok := in.(ssa.CallInstruction); ok {
					if g := ci.Common().StaticCallee(); g != nil {
						switch {
						case g.Name() == "cleanupKindServiceName":
							cleanup = append(cleanup, in)
						case readsTable(p, g, tblServices, "connect", 2) && !mayWrite(p, g) && g.Signature.Results().Len() == 2 && core.ShortType(g.Signature.Results().At(0).Type()) == "bool":
							query = append(query, in)
						}
					}
				}
			}
		}
		if !delSvc || len(cleanup) == 0 {
			continue
		}
		name := core.FuncName(f)
		_, peerNE := emptyStringEdges(f, isPeerValue)
		cut := map[core.Edge]bool{}
		for e := range peerNE {
			cut[e] = true
		}
		nNative := 0
		for _, b := range f.Blocks {
			for _, in := range b.Instrs {
				ld, ok := in.(*ssa.UnOp)
				if !ok || ld.Op != token.MUL || core.AccessOf(ld).LastField() != "Native" {
					continue
				}
				_, fe := core.CondEdges(ld)
				for _, e := range fe {
					cut[e] = true
					nNative++
				}
			}
		}
		if len(query) == 0 || nNative == 0 {
			r.Violate("C07.3.kind-cleanup", name, p.FuncPos(f), fmt.Sprintf("the service deleter removes connect-enabled kind names without asking whether connect instances remain (query=%d, connect test=%d)", len(query), nNative))
			continue
		}
		mf := &core.MustFlow{F: f, Start: delInstr, Cut: func(b *ssa.BasicBlock, si int) bool { return cut[core.Edge{From: b, Succ: si}] },
			Gen: func(in ssa.Instruction) []string {
				for _, q := range query {
					if in == q {
						return []string{"asked"}
					}
				}
				return nil
			}}
		mf.Run()
		bad := ""
		for _, rt := range core.Returns(f) {
			if core.ClassifyReturn(rt) == core.RetFailure {
				continue
			}
			if s, ok := mf.At(rt); ok && !s["asked"] {
				bad = p.Pos(rt.Pos())
			}
		}
		// below "no connect instance remains", the kind name is removed on every successful path
		bad2 := ""
		for _, q := range query {
			var okV ssa.Value
			if v, isV := q.(ssa.Value); isV && v.Referrers() != nil {
				for _, rr := range *v.Referrers() {
					if ex, ok := rr.(*ssa.Extract); ok && ex.Index == 0 {
						okV = ex
					}
				}
			}
			if okV == nil {
				bad2 = "result of the query is not used"
				continue
			}
			_, fe := core.CondEdges(okV)
			if len(fe) == 0 {
				bad2 = "result of the query does not decide a branch"
			}
			for _, e := range fe {
				mf2 := &core.MustFlow{F: f, Start: e.From.Instrs[len(e.From.Instrs)-1],
					Cut: func(b *ssa.BasicBlock, si int) bool { return b == e.From && si != e.Succ },
					Gen: func(in ssa.Instruction) []string {
						for _, cl := range cleanup {
							if in == cl {
								return []string{"cleaned"}
							}
						}
						return nil
					}}
				mf2.Run()
				for _, rt := range core.Returns(f) {
					if core.ClassifyReturn(rt) == core.RetFailure || !core.EdgeDominates(e.From, e.Succ, rt.Block()) && !reachesBlock(e.From.Succs[e.Succ], rt.Block(), nil) {
						continue
					}
					if s, ok := mf2.At(rt); ok && !s["cleaned"] {
						bad2 = "a successful return at " + p.Pos(rt.Pos()) + " is reachable below 'no connect instance remains' without removing the kind name"
					}
				}
			}
		}
		switch {
		case bad != "":
			r.Violate("C07.3.kind-cleanup", name, p.FuncPos(f), "a local connect proxy / connect-native instance can be deregistered (successful return at "+bad+") without the remaining connect instances of its connect name being looked up: when it was the last one, the connect-enabled kind name and the gateways' wildcard links stay behind, so the derived tables differ from what the registrations give")
		case bad2 != "":
			r.Violate("C07.3.kind-cleanup", name, p.FuncPos(f), bad2)
		default:
			r.Hold("C07.3.kind-cleanup", name, p.FuncPos(f), "every local connect deregistration asks for remaining connect instances and removes the kind name when none remain")
		}
	}
	r.Floor("C07.3.kind-cleanup", 1)

	// ---- C07.7: the key under which a proxy instance is recorded in a topology row's Refs names the
	// instance: it is built from the node name AND the service ID (sidecars share IDs across nodes)
	nRefs := 0
	for _, f := range p.SrcFuncs(statePkg) {
		for _, b := range f.Blocks {
			for _, in := range b.Instrs {
				var m, key ssa.Value
				what := ""
				switch x := in.(type) {
				case *ssa.MapUpdate:
					m, key, what = x.Map, x.Key, "recorded"
				case *ssa.Call:
					if bi, ok := x.Call.Value.(*ssa.Builtin); ok && bi.Name() == "delete" {
						m, key, what = x.Call.Args[0], x.Call.Args[1], "removed"
					}
				case *ssa.Lookup:
					m, key, what = x.X, x.Index, "looked up"
				}
				if m == nil || core.AccessOf(m).LastField() != "Refs" {
					continue
				}
				nRefs++
				hasNode, hasID := false, false
				core.Leaves(key, core.SliceOpts{ThroughCalls: true, StopAt: func(v ssa.Value) bool {
					if prm, ok := v.(*ssa.Parameter); ok && strings.Contains(strings.ToLower(prm.Name()), "node") && core.ShortType(prm.Type()) == "string" {
						hasNode = true
					}
					if ld, ok := v.(*ssa.UnOp); ok && ld.Op == token.MUL {
						switch core.AccessOf(ld).LastField() {
						case "Node":
							hasNode = true
						case "ID", "ServiceID":
							hasID = true
						}
					}
					if call, ok := v.(*ssa.Call); ok && strings.Contains(core.MethodNameOf(&call.Call), "ServiceID") {
						hasID = true
					}
					return false
				}})
				// a key that is the loop variable of a range over Refs itself (copying / iterating the map) names whatever was stored
				if _, isExtract := key.(*ssa.Extract); isExtract {
					continue
				}
				construct := fmt.Sprintf("%s/Refs %s", core.FuncName(f), what)
				if hasNode && hasID {
					r.Hold("C07.7", construct, p.Pos(in.Pos()), "keyed by node name and service ID")
				} else {
					r.Violate("C07.7", construct, p.Pos(in.Pos()), fmt.Sprintf("the reference of a proxy instance in a mesh-topology row is %s under a key that does not name the instance (node name: %v, service ID: %v): sidecars with the same ID on different nodes collapse into one reference, so deregistering one of them deletes the upstream/downstream edge the others still declare", what, hasNode, hasID))
				}
			}
		}
	}
	if nRefs < 3 {
		r.MissingInstance("C07.7", "<Refs accesses>", fmt.Sprintf("only %d accesses to Refs found", nRefs))
	}

	// ---- C07.4 usage
	commitFn := p.Func(statePkg, "(*txn).Commit")
	for _, s := range sites {
		if s.op.Table != tblUsage {
			continue
		}
		construct := core.FuncName(s.fn) + "/" + s.op.Op + ":usage"
		// all call chains up must end in (*txn).Commit
		bad := ""
		var up func(f *ssa.Function, depth int, seen map[*ssa.Function]bool)
		up = func(f *ssa.Function, depth int, seen map[*ssa.Function]bool) {
			if f == commitFn || seen[f] || depth > 6 {
				return
			}
			seen[f] = true
			callers := callersOf(p, f, statePkg)
			if len(callers) == 0 {
				bad = core.FuncName(f) + " writes table usage (directly or through callees) and is not reached from txn.Commit"
				return
			}
			for _, ci := range callers {
				up(ci.Parent(), depth+1, seen)
			}
		}
		up(s.fn, 0, map[*ssa.Function]bool{})
		if bad != "" {
			r.Violate("C07.4", construct, p.Pos(s.op.Instr.Pos()), bad+": usage counts would no longer be derived from the committed change set alone")
		} else {
			r.Hold("C07.4", construct, p.Pos(s.op.Instr.Pos()), "written only below txn.Commit")
		}
	}
	r.Floor("C07.4", 1)

	// ---- C07.5 VIP pairing
	for _, s := range sites {
		if isRestoreMethod(s.fn) || s.op.Table != tblSvcVIPs {
			continue
		}
		f := s.fn
		name := core.FuncName(f)
		switch s.op.Op {
		case "Delete":
			// release: free-list insert on every successful path after the delete
			mf := &core.MustFlow{F: f, Start: s.op.Instr, Gen: func(in ssa.Instruction) []string {
				if op := core.AsMemdbOp(in); op != nil && op.Op == "Insert" && op.TableKnown && op.Table == tblFreeVIPs {
					return []string{"freed"}
				}
				return nil
			}}
			mf.Run()
			bad := ""
			for _, rt := range core.Returns(f) {
				if core.ClassifyReturn(rt) == core.RetFailure {
					continue
				}
				if set, reach := mf.At(rt); reach && !set["freed"] {
					bad = p.Pos(rt.Pos())
				}
			}
			if bad != "" {
				r.Violate("C07.5.release", name, p.Pos(s.op.Instr.Pos()), "an assignment can be deleted without its address going to the free list (return at "+bad+"): the address leaks")
			} else {
				r.Hold("C07.5.release", name, p.Pos(s.op.Instr.Pos()), "deleting an assignment always puts the address on the free list")
			}
		case "Insert":
			if len(rowReads(f, tblFreeVIPs)) == 0 {
				continue // manual assignment path: does not draw from the allocator
			}
			freeAliases := aliasesOf(f, rowReads(f, tblFreeVIPs))
			nilEdges := map[core.Edge]bool{}
			for al := range freeAliases {
				for _, cmp := range nilCmps(al) {
					te, fe := core.CondEdges(cmp)
					if cmp.Op == token.EQL {
						for _, e := range te {
							nilEdges[e] = true
						}
					} else {
						for _, e := range fe {
							nilEdges[e] = true
						}
					}
				}
			}
			// phis of the two lookups are aliases too: comparisons on them
			for _, b := range f.Blocks {
				for _, in := range b.Instrs {
					phi, ok := in.(*ssa.Phi)
					if !ok {
						continue
					}
					all := len(phi.Edges) > 0
					for _, e := range phi.Edges {
						if !freeAliases[e] && !core.IsNilConst(e) {
							if ex, ok := e.(*ssa.Extract); !ok || !freeAliases[ex] {
								all = false
							}
						}
					}
					if !all {
						continue
					}
					for _, cmp := range nilCmps(phi) {
						te, fe := core.CondEdges(cmp)
						if cmp.Op == token.EQL {
							for _, e := range te {
								nilEdges[e] = true
							}
						} else {
							for _, e := range fe {
								nilEdges[e] = true
							}
						}
					}
				}
			}
			notCounter := map[core.Edge]bool{}
			for _, b := range f.Blocks {
				for _, in := range b.Instrs {
					ld, ok := in.(ssa.Value)
					if !ok {
						continue
					}
					if core.AccessOf(ld).LastField() != "IsCounter" {
						continue
					}
					_, fe := core.CondEdges(ld)
					for _, e := range fe {
						notCounter[e] = true
					}
				}
			}
			gen := func(in ssa.Instruction) []string {
				if op := core.AsMemdbOp(in); op != nil && op.TableKnown && op.Table == tblFreeVIPs {
					switch op.Op {
					case "Delete":
						return []string{"free-delete"}
					case "Insert":
						return []string{"counter-insert"}
					}
				}
				return nil
			}
			mfA := &core.MustFlow{F: f, Gen: gen, Cut: func(b *ssa.BasicBlock, si int) bool { return nilEdges[core.Edge{From: b, Succ: si}] }}
			mfA.Run()
			mfB := &core.MustFlow{F: f, Gen: gen, Cut: func(b *ssa.BasicBlock, si int) bool { return notCounter[core.Edge{From: b, Succ: si}] }}
			mfB.Run()
			sa, _ := mfA.At(s.op.Instr)
			sb, _ := mfB.At(s.op.Instr)
			switch {
			case len(nilEdges) == 0 || !sa["free-delete"]:
				r.Violate("C07.5.assign", name, p.Pos(s.op.Instr.Pos()), "an address taken from the free list is assigned on a path that does not remove it from the free list: the same virtual IP can be assigned to two services")
			case len(notCounter) == 0 || !sb["counter-insert"]:
				r.Violate("C07.5.assign", name, p.Pos(s.op.Instr.Pos()), "the counter is advanced on a path that does not store the new counter: the same virtual IP is handed out again")
			default:
				r.Hold("C07.5.assign", name, p.Pos(s.op.Instr.Pos()), "free-list entry removed when used; counter stored when advanced")
			}
		}
	}
	r.Floor("C07.5.release", 1)
	r.Floor("C07.5.assign", 1)

	// ---- C07.6 read-modify-write of aggregated rows
	for _, f := range fns {
		if f.Parent() != nil || isRestoreMethod(f) {
			continue
		}
		rows := rowReads(f, tblMeshTopology)
		if len(rows) == 0 {
			continue
		}
		aliases := aliasesOf(f, rows)
		for _, ins := range insertsOf(p, f, tblMeshTopology) {
			if core.AsMemdbOp(ins.instr) == nil {
				continue
			}
			name := core.FuncName(f)
			derived := false
			for _, leaf := range core.Leaves(ins.obj, core.SliceOpts{}) {
				call, ok := leaf.(*ssa.Call)
				if !ok {
					continue
				}
				for _, a := range call.Call.Args {
					if aliases[a] {
						derived = true
					}
					if aa := core.AccessOf(a); len(aa.Fields) == 0 && aliases[aa.Root] {
						derived = true
					}
				}
			}
			if derived {
				r.Hold("C07.6", name, p.Pos(ins.instr.Pos()), "the inserted mesh-topology row derives from the row read (copy of it), so its reference set is kept")
			} else {
				r.Violate("C07.6", name, p.Pos(ins.instr.Pos()), "the mesh-topology row is looked up but the row inserted never derives from it: an existing upstream/downstream edge is rebuilt with a single reference, and deregistering one of two proxy instances deletes the edge")
			}
		}
	}
	r.Floor("C07.6", 1)
	_ = fmt.Sprint
}


// C07.8: sibling agreement between the writer's predicate "an entry of this kind owns a virtual
// IP" (kinds compared with GetKind() in a func(structs.ConfigEntry) bool used on the config-entry
// write path) and the releaser's list of kinds whose existence keeps the address (the kind
// arguments of the config-entry lookups in the function that deletes from service-virtual-ips).
func checkVIPKindAgreement(c *Ctx) {
	p, r := c.P, c.R
	// writer side
	assign := map[string]bool{}
	var wfn *ssa.Function
	for _, f := range p.SrcFuncs(statePkg) {
		sig := f.Signature
		if f.Parent() != nil || sig.Recv() != nil || sig.Params().Len() != 1 || sig.Results().Len() != 1 || !isBoolT(sig.Results().At(0).Type()) {
			continue
		}
		if !strings.HasSuffix(core.ShortType(sig.Params().At(0).Type()), "structs.ConfigEntry") || !strings.Contains(strings.ToLower(f.Name()), "virtualip") {
			continue
		}
		kinds := map[string]bool{}
		for _, cv := range core.Comparisons(f, 1) {
			if cv.Op != token.EQL {
				continue
			}
			for _, pair := range [][2]ssa.Value{{cv.X, cv.Y}, {cv.Y, cv.X}} {
				k, ok := core.ConstString(pair[0])
				if !ok {
					continue
				}
				if call, isCall := pair[1].(*ssa.Call); isCall && core.MethodNameOf(&call.Call) == "GetKind" {
					kinds[k] = true
				}
			}
		}
		if len(kinds) > 0 {
			wfn = f
			for k := range kinds {
				assign[k] = true
			}
		}
	}
	// releaser side
	keep := map[string]bool{}
	var rfn *ssa.Function
	for _, f := range p.SrcFuncs(statePkg) {
		if f.Parent() != nil || isRestoreMethod(f) {
			continue
		}
		deletes := false
		for _, b := range f.Blocks {
			for _, in := range b.Instrs {
				if op := core.AsMemdbOp(in); op != nil && op.Op == "Delete" && op.TableKnown && op.Table == "service-virtual-ips" {
					deletes = true
				}
			}
		}
		if !deletes {
			continue
		}
		for _, g := range funcGroup(f, 1) {
			for _, in := range callsTo(g, func(cm *ssa.CallCommon) bool {
				h := cm.StaticCallee()
				return h != nil && strings.HasPrefix(h.Name(), "configEntry") && strings.HasSuffix(h.Name(), "Txn")
			}) {
				for _, a := range in.(ssa.CallInstruction).Common().Args {
					if bt, ok := a.Type().Underlying().(*types.Basic); !ok || bt.Kind() != types.String {
						continue
					}
					for _, leaf := range core.Leaves(a, core.SliceOpts{}) {
						if k, ok := core.ConstString(leaf); ok && k != "" {
							keep[k] = true
							rfn = f
						}
					}
				}
			}
		}
	}
	if wfn == nil || rfn == nil {
		r.Unresolve("C07.8", "state.<virtual-ip kinds>", fmt.Sprintf("writer-side predicate found=%v, releaser-side lookups found=%v", wfn != nil, rfn != nil))
		return
	}
	var onlyAssign, onlyKeep []string
	for k := range assign {
		if !keep[k] {
			onlyAssign = append(onlyAssign, k)
		}
	}
	for k := range keep {
		if !assign[k] {
			onlyKeep = append(onlyKeep, k)
		}
	}
	sort.Strings(onlyAssign)
	sort.Strings(onlyKeep)
	construct := core.FuncName(wfn) + "~" + core.FuncName(rfn)
	if len(onlyAssign) == 0 && len(onlyKeep) == 0 {
		r.Hold("C07.8", construct, p.FuncPos(rfn), fmt.Sprintf("%d kinds on both sides", len(assign)))
		return
	}
	r.Violate("C07.8", construct, p.FuncPos(rfn), fmt.Sprintf("kinds that assign a virtual IP but do not keep it when the last instance is deregistered: %v; kinds that keep it but never assign it: %v — a service whose config entry of such a kind still exists loses its virtual IP (and the address is handed to the next service) although a from-scratch recomputation would keep it", onlyAssign, onlyKeep))
}
