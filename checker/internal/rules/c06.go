package rules

import (
	"fmt"
	"go/token"
	"sort"
	"strings"

	"golang.org/x/tools/go/ssa"

	"verifcheck/internal/core"
)

func init() {
	register(&Rule{ID: "C06", Patterns: []string{"./agent/consul/state", "./agent/consul/fsm", "./agent/blockingquery", "./agent/consul"}, Run: runC06})
}

// familyOf: does index key k belong to the family of table t — i.e. is it a
// key some reader of t consults? Frozen from the readers (C06.R re-derives the
// reader side on every run and compares).
//
// The default relation is "the key mentions the table's name as a constant"
// (tableX, peeredIndexEntryName(tableX, peer), partitionedIndexEntryName(tableX, part)).
var extraFamily = map[string][]string{
	// KV readers take max(kvs, tombstones)
	"kvs":        {"kvs", "tombstones"},
	"tombstones": {"tombstones"},
}

// tables whose readers consult a key built by a dedicated key-builder function.
var extraFamilyFn = map[string][]string{
	"kind-service-names": {"kindServiceNameIndexName"},
}

func inFamily(table string, key string, ke core.KeyExpr) bool {
	for _, c := range ke.Consts() {
		if c == table {
			return true
		}
	}
	for _, k := range extraFamily[table] {
		if key == k {
			return true
		}
	}
	for _, fn := range extraFamilyFn[table] {
		if ke.Kind == 'f' && ke.Fn == fn {
			return true
		}
	}
	return false
}

// tables whose readers return the row's own index field or that no
// index-returning reader reads; each class is re-verified elsewhere (C06.R).
var rowIndexTables = map[string]string{
	"autopilot-config":    "single-row table: readers return the row's own ModifyIndex",
	"connect-ca-config":   "single-row table: readers return the row's own ModifyIndex",
	"feature-gate-policy": "single-row table: readers return the row's own ModifyIndex",
	"feature-gate-status": "single-row table: readers return the row's own ModifyIndex",
	"usage":               "usage rows carry their own index; the reader returns it",
}

var internalTables = map[string]string{
	"session_checks":       "internal link table: no index-returning reader reads it; its changes are visible through sessions/checks",
	"peering-secrets":      "internal table: readers are not blocking queries",
	"peering-secret-uuids": "internal table: readers are not blocking queries",
	"free-virtual-ips":     "allocator free-list: read only by the allocator itself inside the write transaction and by the snapshotter",
}

func isRestoreMethod(f *ssa.Function) bool {
	for g := f; g != nil; g = g.Parent() {
		if g.Signature.Recv() != nil {
			if n := core.NamedOf(g.Signature.Recv().Type()); n != nil && n.Obj().Name() == "Restore" {
				return true
			}
		}
	}
	return false
}

// bulkDeleteCut: for DeletePrefix/DeleteAll write sites, the edges on which the
// call reported "nothing deleted".
func bulkDeleteCut(op *core.MemdbOp) func(*ssa.BasicBlock, int) bool {
	if op.Op != "DeletePrefix" && op.Op != "DeleteAll" {
		return nil
	}
	call, ok := op.Instr.(*ssa.Call)
	if !ok || call.Referrers() == nil {
		return nil
	}
	cut := map[core.Edge]bool{}
	for _, r := range *call.Referrers() {
		ex, ok := r.(*ssa.Extract)
		if !ok || ex.Index != 0 {
			continue
		}
		if op.Op == "DeletePrefix" {
			_, fe := core.CondEdges(ex)
			for _, e := range fe {
				cut[e] = true
			}
		} else if ex.Referrers() != nil {
			for _, rr := range *ex.Referrers() {
				cmp, ok := rr.(*ssa.BinOp)
				if !ok {
					continue
				}
				var other ssa.Value = cmp.Y
				if cmp.Y == ssa.Value(ex) {
					other = cmp.X
				}
				if n, ok := core.ConstInt(other); !ok || n != 0 {
					continue
				}
				te, fe := core.CondEdges(cmp)
				switch cmp.Op {
				case token.EQL: // n == 0 true edge: nothing deleted
					for _, e := range te {
						cut[e] = true
					}
				case token.NEQ, token.GTR:
					for _, e := range fe {
						cut[e] = true
					}
				}
			}
		}
	}
	return func(b *ssa.BasicBlock, si int) bool { return cut[core.Edge{From: b, Succ: si}] }
}

type siteVerdict struct {
	ok     bool
	how    string
	keys   []string
	path   []string
	reason string
}

// decideWriteSite: is a family key bumped on every non-failing path after the
// write, here or in every caller (≤ frames)?
func decideWriteSite(p *core.Program, table string, from ssa.Instruction, cut func(*ssa.BasicBlock, int) bool, frames int, seen map[*ssa.Function]bool) siteVerdict {
	keys, rets := bumpsAfter(p, from, cut, 6)
	exprs := map[string]core.KeyExpr{}
	bumpGenCollect(p, from.Parent(), exprs)
	for _, k := range keys.Keys() {
		if inFamily(table, k, exprOfKey(exprs, k)) {
			return siteVerdict{ok: true, how: "bumps " + k + " in " + core.FuncName(from.Parent()), keys: keys.Keys()}
		}
	}
	if len(rets) == 0 {
		return siteVerdict{ok: true, how: "no non-failing return reachable after the write in " + core.FuncName(from.Parent())}
	}
	f := from.Parent()
	if frames == 0 {
		return siteVerdict{ok: false, keys: keys.Keys(), reason: "caller-frame bound reached at " + core.FuncName(f)}
	}
	// closures: continue in the parent at the point where the closure is created
	var sites []ssa.Instruction
	if f.Parent() != nil {
		for _, b := range f.Parent().Blocks {
			for _, in := range b.Instrs {
				if mc, ok := in.(*ssa.MakeClosure); ok && mc.Fn == ssa.Value(f) {
					sites = append(sites, in)
				}
			}
		}
	} else {
		for _, ci := range callersOf(p, f, statePkg) {
			sites = append(sites, ci)
		}
	}
	if len(sites) == 0 {
		return siteVerdict{ok: false, keys: keys.Keys(), reason: fmt.Sprintf("no family key of table %q is bumped after the write in %s (bumped on all paths: %v) and the function has no caller in package state", table, core.FuncName(f), keys.Keys())}
	}
	if seen[f] {
		return siteVerdict{ok: false, reason: "recursive caller chain"}
	}
	seen[f] = true
	defer delete(seen, f)
	var hows []string
	for _, s := range sites {
		if isRestoreMethod(s.Parent()) {
			continue // restore path: indexes are restored verbatim (C02.3)
		}
		v := decideWriteSite(p, table, s, nil, frames-1, seen)
		if !v.ok {
			v.path = append([]string{core.FuncName(s.Parent()) + " at " + p.Pos(s.Pos())}, v.path...)
			if v.reason == "" {
				v.reason = "not bumped"
			}
			return v
		}
		hows = append(hows, v.how)
	}
	sort.Strings(hows)
	if len(hows) > 3 {
		hows = append(hows[:3], "…")
	}
	return siteVerdict{ok: true, how: "in every caller: " + strings.Join(hows, "; ")}
}

func exprOfKey(exprs map[string]core.KeyExpr, k string) core.KeyExpr {
	if e, ok := exprs[k]; ok {
		return e
	}
	// re-parse the rendered form cheaply: constants are the tokens between ( , )
	ke := core.KeyExpr{Kind: 'f'}
	for _, tok := range strings.FieldsFunc(k, func(r rune) bool { return r == '(' || r == ')' || r == ',' }) {
		ke.Args = append(ke.Args, core.KeyExpr{Kind: 'c', Str: tok})
	}
	return ke
}

func bumpGenCollect(p *core.Program, f *ssa.Function, exprs map[string]core.KeyExpr) {
	for _, b := range f.Blocks {
		for _, in := range b.Instrs {
			bumpGen(p, in, 6, exprs)
		}
	}
}

func runC06(c *Ctx) {
	p, r := c.P, c.R
	r.Clauses = []string{
		"C06.W every memdb write on a non-index table in package state is followed, on every feasible non-failing path (in the same function or in every caller up to 3 frames), by a bump of an index key its readers consult",
		"C06.W0 the index setters only skip the write when the stored index is already >= the new one",
		"C06.X the 'service exists' argument of the per-service index lookup is the constant true or an accumulator updated on every iteration over the service's instances (so it is false only when there is none): otherwise the older extinction index is reported for a live service",
		"C06.R for every exported index-returning reader and every table whose rows it reads (through any state helper), one of the index keys it consults names that table (or is a per-entity key that every write of the table bumps): otherwise a write to that table changes the result without moving the reported index",
		"C06.K the per-service index is keyed by the service name at every site that builds, bumps or reads it (never by a service or check ID)",
		"C06.E in every blocking-query body of the RPC endpoints, the index returned by each watched state-store reader whose data is used reaches the reply (assigned, joined or compared), never dropped",
		"C06.Q.raise the blocking-query loop raises its wait threshold on a not-found result only when the previous pass was not-found too (found → deleted is a change)",
		"C06.Q the blocking-query loop sets query meta after every query run and returns only on index progress, error, timeout or abandon; the reported index is never zero",
	}
	r.NotDecided = []string{
		"per-entity precision (that the right service's or node's index moves)",
		"strict growth for every (write, query) pair and wake-up under concurrency",
	}
	sites, unresolved := stateWriteSites(p)
	for _, u := range unresolved {
		if u.op.TableParam >= 0 {
			// helper taking the table as a parameter: resolved at its call sites below
			continue
		}
		r.Unresolve("C06.W", core.FuncName(u.fn)+"/"+u.op.Op, "memdb write with a non-constant table at "+p.Pos(u.op.Instr.Pos()))
	}
	nIndex := 0
	perKey := map[string]int{}
	for _, s := range sites {
		if s.op.Table == indexTableName {
			nIndex++
			continue
		}
		if isRestoreMethod(s.fn) {
			continue
		}
		base := core.FuncName(s.fn) + "/" + s.op.Op + ":" + s.op.Table
		perKey[base]++
		construct := base
		if perKey[base] > 1 {
			construct = fmt.Sprintf("%s#%d", base, perKey[base])
		}
		pos := p.Pos(s.op.Instr.Pos())
		if why, ok := rowIndexTables[s.op.Table]; ok {
			r.Add(core.Obligation{Rule: "C06.W", Construct: construct, Pos: pos, Decision: core.Holds, Reason: why, Exception: "row-index-table"})
			continue
		}
		if why, ok := internalTables[s.op.Table]; ok {
			r.Add(core.Obligation{Rule: "C06.W", Construct: construct, Pos: pos, Decision: core.Holds, Reason: why, Exception: "internal-table"})
			continue
		}
		v := decideWriteSite(p, s.op.Table, s.op.Instr, bulkDeleteCut(s.op), 3, map[*ssa.Function]bool{})
		if v.ok {
			r.Hold("C06.W", construct, pos, v.how)
		} else {
			r.Violate("C06.W", construct, pos, fmt.Sprintf("a write to table %q can reach a successful return without bumping an index its readers watch: %s", s.op.Table, v.reason), v.path...)
		}
	}
	r.Analysed["index_table_writes"] = nIndex
	r.Floor("C06.W", 83)
	checkReaderIndexSources(c)
	checkBlockingQueryLoop(c)
	checkServiceExistsArgument(c)
	checkReaderTableCoverage(c)
	checkEndpointIndexesJoined(c)
	checkServiceIndexKeyIsName(c)
}

// ---------------------------------------------------------------------------
// C06.R2: where does a reader's reported index come from?

type idxSources map[string]bool // "table", "row-iter", "row-single", "row-param", "param", "other", "const"

func (s idxSources) String() string { return strings.Join(sortedKeys(s), "+") }

func indexSourcesOfFunc(p *core.Program, f *ssa.Function, depth int) idxSources {
	key := "idxsrc:" + f.String()
	if v, ok := p.MemoGet(key); ok {
		return v.(idxSources)
	}
	out := idxSources{}
	p.MemoSet(key, out) // recursion guard (shared map: filled below)
	if f.Blocks == nil || depth <= 0 {
		out["other"] = true
		return out
	}
	seen := map[ssa.Value]bool{}
	for _, rt := range core.Returns(f) {
		if len(rt.Results) == 0 {
			continue
		}
		if core.ClassifyReturn(rt) == core.RetFailure {
			continue
		}
		indexSourcesOfValue(p, core.ResolveResult(rt, 0), depth, out, seen)
	}
	return out
}

func isIndexField(name string) bool {
	return name == "ModifyIndex" || name == "CreateIndex"
}

func indexSourcesOfValue(p *core.Program, v ssa.Value, depth int, out idxSources, seen map[ssa.Value]bool) {
	if v == nil || seen[v] {
		return
	}
	seen[v] = true
	switch x := v.(type) {
	case *ssa.Const:
		out["const"] = true
	case *ssa.Parameter:
		out["param"] = true
	case *ssa.Phi:
		for _, e := range x.Edges {
			indexSourcesOfValue(p, e, depth, out, seen)
		}
	case *ssa.BinOp:
		indexSourcesOfValue(p, x.X, depth, out, seen)
		indexSourcesOfValue(p, x.Y, depth, out, seen)
	case *ssa.Convert:
		indexSourcesOfValue(p, x.X, depth, out, seen)
	case *ssa.ChangeType:
		indexSourcesOfValue(p, x.X, depth, out, seen)
	case *ssa.UnOp:
		if x.Op != token.MUL {
			indexSourcesOfValue(p, x.X, depth, out, seen)
			return
		}
		if a, ok := x.X.(*ssa.Alloc); ok {
			st := core.StoresTo(a)
			if len(st) == 0 {
				out["other"] = true
			}
			for _, s := range st {
				indexSourcesOfValue(p, s, depth, out, seen)
			}
			return
		}
		acc := core.AccessOf(x)
		lf := acc.LastField()
		root := acc.Root
		if ex, ok := root.(*ssa.Extract); ok {
			root = ex.Tuple
		}
		switch {
		case lf == "Value" || lf == "Index" && false:
			if call, ok := root.(*ssa.Call); ok {
				if op := core.AsMemdbOp(call); op != nil && op.TableKnown && op.Table == indexTableName {
					out["table"] = true
					return
				}
			}
			out["other"] = true
		case isIndexField(lf):
			classifyRowRoot(root, out, 0)
		default:
			out["other"] = true
		}
	case *ssa.Extract:
		if call, ok := x.Tuple.(*ssa.Call); ok && x.Index == 0 {
			indexSourcesOfCall(p, call, depth, out, seen)
			return
		}
		out["other"] = true
	case *ssa.Call:
		indexSourcesOfCall(p, x, depth, out, seen)
	default:
		out["other"] = true
	}
}

// classifyRowRoot: where does the row whose index field is read come from?
func classifyRowRoot(root ssa.Value, out idxSources, depth int) {
	if ex, ok := root.(*ssa.Extract); ok {
		root = ex.Tuple
	}
	switch r := root.(type) {
	case *ssa.Call:
		if op := core.AsMemdbOp(r); op != nil {
			out["row-single"] = true
		} else if core.MethodNameOf(&r.Call) == "Next" {
			out["row-iter"] = true
		} else {
			out["row-call:"+core.MethodNameOf(&r.Call)] = true
		}
	case *ssa.Parameter:
		out["row-param"] = true
	case *ssa.Phi:
		if depth > 4 {
			out["row-other"] = true
			return
		}
		for _, e := range r.Edges {
			if core.IsNilConst(e) {
				continue
			}
			classifyRowRoot(core.AccessOf(e).Root, out, depth+1)
		}
	default:
		out["row-other"] = true
	}
}

func indexSourcesOfCall(p *core.Program, call *ssa.Call, depth int, out idxSources, seen map[ssa.Value]bool) {
	if b, ok := call.Call.Value.(*ssa.Builtin); ok && (b.Name() == "max" || b.Name() == "min") {
		for _, a := range call.Call.Args {
			indexSourcesOfValue(p, a, depth, out, seen)
		}
		return
	}
	g := call.Call.StaticCallee()
	if g == nil || g.Blocks == nil || g.Pkg == nil || !core.IsConsul(g.Pkg.Pkg.Path()) {
		out["other"] = true
		return
	}
	if g.Pkg.Pkg.Path() == core.ConsulModulePrefix+"/lib" && strings.HasPrefix(g.Name(), "Max") {
		for _, a := range call.Call.Args {
			indexSourcesOfValue(p, a, depth, out, seen)
		}
		return
	}
	sub := indexSourcesOfFunc(p, g, depth-1)
	for k := range sub {
		if k == "param" {
			// the callee forwards one of its arguments: look at ours
			for _, a := range call.Call.Args {
				if isUintVal(a) {
					indexSourcesOfValue(p, a, depth, out, seen)
				}
			}
			continue
		}
		out[k] = true
	}
}

func isUintVal(v ssa.Value) bool {
	return isUint(v.Type())
}

func checkReaderIndexSources(c *Ctx) {
	p, r := c.P, c.R
	n := 0
	var survey []string
	for _, f := range p.SrcFuncs(statePkg) {
		if f.Parent() != nil {
			continue
		}
		res := f.Signature.Results()
		if res.Len() < 2 || !isUint(res.At(0).Type()) {
			continue
		}
		// a reader: takes a WatchSet or a read transaction, or is an exported Store method
		isReader := false
		for _, prm := range f.Params {
			ts := core.ShortType(prm.Type())
			if strings.Contains(ts, "WatchSet") || strings.Contains(ts, "ReadTxn") || strings.Contains(ts, "memdb.Txn") {
				isReader = true
			}
		}
		if !isReader {
			continue
		}
		if mayWrite(p, f) {
			continue
		}
		if f.Object() == nil || !f.Object().Exported() {
			// helpers are judged through the exported readers that return their index
			continue
		}
		n++
		src := indexSourcesOfFunc(p, f, 14)
		name := core.FuncName(f)
		survey = append(survey, name+": "+src.String())
		if src["row-iter"] && !src["table"] {
			r.Violate("C06.R2", name, p.FuncPos(f),
				"the reported index is the max ModifyIndex of the rows the query iterates and no index-table key is joined in: deleting the newest row changes the result while the reported index goes down, so a blocked client is not woken past its index")
		} else {
			r.Hold("C06.R2", name, p.FuncPos(f), "index sources: "+src.String())
		}
	}
	r.Analysed["reader_index_sources"] = survey
	r.Floor("C06.R2", 70)
	_ = n
}

// ---------------------------------------------------------------------------
// C06.Q: the blocking-query loop.

func checkBlockingQueryLoop(c *Ctx) {
	p, r := c.P, c.R
	// the loop function: in package blockingquery, calls a parameter of function type and SetQueryMeta
	// (a query run and its metadata may live in the loop function or in a helper split off it)
	var loopFns []*ssa.Function
	for _, f := range p.SrcFuncs("agent/blockingquery") {
		callsParam, callsSet := false, false
		for _, b := range f.Blocks {
			for _, in := range b.Instrs {
				if call, ok := in.(*ssa.Call); ok {
					if _, isParam := call.Call.Value.(*ssa.Parameter); isParam && !call.Call.IsInvoke() {
						callsParam = true
					}
					if core.MethodNameOf(&call.Call) == "SetQueryMeta" {
						callsSet = true
					}
				}
			}
		}
		if callsParam && callsSet {
			loopFns = append(loopFns, f)
		}
	}
	if len(loopFns) == 0 {
		r.Unresolve("C06.Q", "blockingquery.<loop>", "no function in agent/blockingquery calls a query-function parameter and SetQueryMeta")
		return
	}
	sort.Slice(loopFns, func(i, j int) bool { return loopFns[i].String() < loopFns[j].String() })
	var loopFn *ssa.Function // the one whose query run sits in a loop
	for _, f := range loopFns {
		name := core.FuncName(f)
		var queryCalls []*ssa.Call
		for _, b := range f.Blocks {
			for _, in := range b.Instrs {
				if call, ok := in.(*ssa.Call); ok {
					if _, isParam := call.Call.Value.(*ssa.Parameter); isParam && !call.Call.IsInvoke() {
						queryCalls = append(queryCalls, call)
					}
				}
			}
		}
		for i, q := range queryCalls {
			tag := fmt.Sprintf("%s/query-call#%d", name, i+1)
			pos := p.Pos(q.Pos())
			// (a) SetQueryMeta after every query run, before any return
			mf := &core.MustFlow{F: f, Start: q, Gen: func(in ssa.Instruction) []string {
				if ci, ok := in.(ssa.CallInstruction); ok && core.MethodNameOf(ci.Common()) == "SetQueryMeta" {
					return []string{"meta"}
				}
				return nil
			}}
			mf.Run()
			bad := ""
			for _, rt := range core.Returns(f) {
				if set, reach := mf.At(rt); reach && !set["meta"] {
					bad = p.Pos(rt.Pos())
				}
			}
			if bad != "" {
				r.Violate("C06.Q.meta", tag, pos, "a return at "+bad+" is reachable after the query ran without SetQueryMeta (the reply would carry index 0 / no leader info)")
			} else {
				r.Hold("C06.Q.meta", tag, pos, "SetQueryMeta on every path from the query run to a return")
			}
			// is the call inside a loop?
			inLoop := false
			w := &core.Walk{Visit: func(in ssa.Instruction) { inLoop = inLoop || in == ssa.Instruction(q) }}
			w.FromInstr(q)
			if !inLoop {
				continue
			}
			loopFn = f
			// (b) abandon channel watched before each run
			mf2 := &core.MustFlow{F: f, Start: q, Gen: func(in ssa.Instruction) []string {
				if ci, ok := in.(ssa.CallInstruction); ok {
					cm := ci.Common()
					if core.MethodNameOf(cm) == "Add" {
						for _, a := range cm.Args {
							if call, ok := a.(*ssa.Call); ok && core.MethodNameOf(&call.Call) == "AbandonCh" {
								return []string{"abandon-watched"}
							}
						}
					}
				}
				return nil
			}}
			mf2.Run()
			if set, reach := mf2.At(q); reach && set["abandon-watched"] {
				r.Hold("C06.Q.abandon", tag, pos, "the store's abandon channel is added to the watch set before every run of the query")
			} else {
				r.Violate("C06.Q.abandon", tag, pos, "the query re-runs without the store's AbandonCh in its watch set: a blocked query survives a snapshot restore on a dead store")
			}
			// (c) after a run, a successful return needs index progress, or having blocked (WatchCtx)
			var progressEdges []core.Edge
			for _, b := range f.Blocks {
				for _, in := range b.Instrs {
					cmp, ok := in.(*ssa.BinOp)
					if !ok {
						continue
					}
					isGetIndex := func(v ssa.Value) bool {
						call, ok := v.(*ssa.Call)
						return ok && core.MethodNameOf(&call.Call) == "GetIndex"
					}
					te, _ := core.CondEdges(cmp)
					if cmp.Op == token.GTR && isGetIndex(cmp.X) && !isGetIndex(cmp.Y) {
						progressEdges = append(progressEdges, te...)
					}
					if cmp.Op == token.LSS && isGetIndex(cmp.Y) && !isGetIndex(cmp.X) {
						progressEdges = append(progressEdges, te...)
					}
				}
			}
			cut := map[core.Edge]bool{}
			for _, e := range progressEdges {
				cut[e] = true
			}
			var offending *ssa.Return
			w2 := &core.Walk{
				Cut: func(b *ssa.BasicBlock, si int) bool { return cut[core.Edge{From: b, Succ: si}] },
				Stop: func(in ssa.Instruction) bool {
					if in == ssa.Instruction(q) {
						return true // next iteration
					}
					ci, ok := in.(ssa.CallInstruction)
					return ok && core.MethodNameOf(ci.Common()) == "WatchCtx"
				},
				Visit: func(in ssa.Instruction) {
					if rt, ok := in.(*ssa.Return); ok && core.ClassifyReturn(rt) != core.RetFailure {
						offending = rt
					}
				},
			}
			w2.FromInstr(q)
			if len(progressEdges) == 0 {
				r.Violate("C06.Q.progress", tag, pos, "no `GetIndex() > minQueryIndex` test guards the loop exit")
			} else if offending != nil {
				r.Violate("C06.Q.progress", tag, pos, "the loop can return successfully at "+p.Pos(offending.Pos())+" without index progress and without having blocked on the watch set", w2.PathTo(p, offending.Block())...)
			} else {
				r.Hold("C06.Q.progress", tag, pos, "a successful return after a run needs GetIndex() > minQueryIndex or a completed WatchCtx")
			}
		}
	}
	r.Floor("C06.Q.meta", 2)
	r.Floor("C06.Q.abandon", 1)
	r.Floor("C06.Q.progress", 1)

	// (d) the wait threshold is raised to the current index only for a repeated "not found":
	// found → not found is a change and must be returned, not waited on.
	if loopFn != nil {
		f := loopFn
		nfEdges := errorsIsEdges(f, "ErrNotFound")
		nRaise := 0
		for _, b := range f.Blocks {
			for _, in := range b.Instrs {
				phi, ok := in.(*ssa.Phi)
				if !ok || !isUint(phi.Type()) {
					continue
				}
				for i, e := range phi.Edges {
					call, ok := e.(*ssa.Call)
					if !ok || core.MethodNameOf(&call.Call) != "GetIndex" {
						continue
					}
					pred := phi.Block().Preds[i]
					// is this raise reachable from a not-found pass?
					fromNF := false
					for _, ne := range nfEdges {
						if ne.From.Succs[ne.Succ] == pred || reachesBlockWithin(ne.From.Succs[ne.Succ], pred, ne.From) {
							fromNF = true
						}
					}
					if !fromNF {
						continue
					}
					nRaise++
					construct := core.FuncName(f) + "/raise-on-not-found"
					// the boolean flag guarding the raise
					var flag *ssa.Phi
					for _, bb := range f.Blocks {
						if len(bb.Instrs) == 0 {
							continue
						}
						iff, ok := bb.Instrs[len(bb.Instrs)-1].(*ssa.If)
						if !ok {
							continue
						}
						if ph, ok := iff.Cond.(*ssa.Phi); ok && core.EdgeDominates(bb, 0, call.Block()) {
							flag = ph
						}
					}
					if flag == nil {
						r.Violate("C06.Q.raise", construct, p.Pos(call.Pos()), "the wait threshold is raised to the current index on a not-found result without knowing that the previous result was not-found too: an item deleted while a query is blocked on it is treated as 'no change' and the query sleeps until its timeout")
						continue
					}
					// every assignment of true to the flag lies below a not-found edge
					bad := ""
					seen := map[*ssa.Phi]bool{}
					var visit func(ph *ssa.Phi)
					visit = func(ph *ssa.Phi) {
						if seen[ph] {
							return
						}
						seen[ph] = true
						for j, ev := range ph.Edges {
							switch x := ev.(type) {
							case *ssa.Phi:
								visit(x)
							case *ssa.Const:
								if v, ok := core.ConstBool(x); ok && v {
									q := ph.Block().Preds[j]
									if len(nfEdges) == 0 || !core.CutMakesUnreachable(f, nil, nfEdges, q.Instrs[0]) {
										bad = p.Pos(firstPos(q))
									}
								}
							default:
								bad = "a computed value"
							}
						}
					}
					visit(flag)
					if bad != "" {
						r.Violate("C06.Q.raise", construct, p.Pos(call.Pos()), "on a not-found result the wait threshold is raised to the current index under a flag that is also set by passes that found the item (set at "+bad+"): found → deleted is then treated as 'no change', the blocked query goes back to sleep and the client learns of the deletion only at its timeout")
					} else {
						r.Hold("C06.Q.raise", construct, p.Pos(call.Pos()), "raised on not-found only when the previous pass was not-found as well")
					}
				}
			}
		}
		if nRaise == 0 {
			r.Hold("C06.Q.raise", core.FuncName(f)+"/raise-on-not-found", p.FuncPos(f), "the threshold is never raised on a not-found result")
		}
	}

	// (e) the reported index is never zero: every implementation of SetQueryMeta in agent/consul
	n := 0
	for _, g := range p.SrcFuncs("agent/consul") {
		if g.Name() != "SetQueryMeta" || g.Signature.Recv() == nil {
			continue
		}
		n++
		gname := core.FuncName(g)
		var okEdges []core.Edge // edges on which GetIndex() >= 1 is known
		for _, b := range g.Blocks {
			for _, in := range b.Instrs {
				cmp, ok := in.(*ssa.BinOp)
				if !ok {
					continue
				}
				call, isCall := cmp.X.(*ssa.Call)
				if !isCall || core.MethodNameOf(&call.Call) != "GetIndex" {
					continue
				}
				k, isK := core.ConstInt(cmp.Y)
				te, fe := core.CondEdges(cmp)
				switch {
				case isK && cmp.Op == token.LSS && k == 1, isK && cmp.Op == token.EQL && k == 0, isK && cmp.Op == token.LEQ && k == 0:
					okEdges = append(okEdges, fe...)
				case isK && cmp.Op == token.GEQ && k == 1, isK && cmp.Op == token.GTR && k == 0, isK && cmp.Op == token.NEQ && k == 0:
					okEdges = append(okEdges, te...)
				}
			}
		}
		cut := map[core.Edge]bool{}
		for _, e := range okEdges {
			cut[e] = true
		}
		mf := &core.MustFlow{F: g,
			Gen: func(in ssa.Instruction) []string {
				if ci, ok := in.(ssa.CallInstruction); ok && core.MethodNameOf(ci.Common()) == "SetIndex" {
					args := core.CallArgs(ci.Common())
					if len(args) == 1 {
						if k, ok := core.ConstInt(args[0]); ok && k >= 1 {
							return []string{"set"}
						}
					}
				}
				return nil
			},
			Cut: func(b *ssa.BasicBlock, si int) bool { return cut[core.Edge{From: b, Succ: si}] }}
		mf.Run()
		bad := ""
		for _, rt := range core.Returns(g) {
			if set, reach := mf.At(rt); reach && !set["set"] {
				bad = p.Pos(rt.Pos())
			}
		}
		if bad != "" {
			r.Violate("C06.Q.nonzero", gname, p.FuncPos(g), "SetQueryMeta can return at "+bad+" with GetIndex() < 1 and without SetIndex(>=1): a reply may carry index 0")
		} else {
			r.Hold("C06.Q.nonzero", gname, p.FuncPos(g), "on every path either GetIndex() >= 1 is established or SetIndex(>=1) is called")
		}
	}
	r.Floor("C06.Q.nonzero", 1)
}

// reachesBlockWithin: to is reachable from from without passing through stop
// (other than as the target).
func reachesBlockWithin(from, to, stop *ssa.BasicBlock) bool {
	seen := map[*ssa.BasicBlock]bool{}
	var visit func(b *ssa.BasicBlock) bool
	visit = func(b *ssa.BasicBlock) bool {
		if b == to {
			return true
		}
		if seen[b] || b == stop {
			return false
		}
		seen[b] = true
		for _, s := range b.Succs {
			if visit(s) {
				return true
			}
		}
		return false
	}
	return visit(from)
}
