package rules

// Unit tests of the loop-accumulator idiom recognisers (C04.5, C06.X, C13.6)
// on small fixtures built into SSA in memory; nothing is executed.

import (
	"go/ast"
	"go/importer"
	"go/parser"
	"go/token"
	"go/types"
	"testing"

	"golang.org/x/tools/go/ssa"
	"golang.org/x/tools/go/ssa/ssautil"
)

func buildFixture(t *testing.T, src string) *ssa.Package {
	t.Helper()
	fset := token.NewFileSet()
	f, err := parser.ParseFile(fset, "x.go", src, 0)
	if err != nil {
		t.Fatal(err)
	}
	pkg, _, err := ssautil.BuildPackage(&types.Config{Importer: importer.ForCompiler(fset, "source", nil)}, fset, types.NewPackage("x", "x"), []*ast.File{f}, ssa.InstantiateGenerics)
	if err != nil {
		t.Fatal(err)
	}
	return pkg
}

const accSrc = `package x
type It struct{}
func (*It) Next() interface{}
func keep(interface{}) bool

func all(it *It) []interface{} {
	var out []interface{}
	for v := it.Next(); v != nil; v = it.Next() {
		out = append(out, v)
	}
	return out
}
func filtered(it *It) []interface{} {
	var out []interface{}
	for v := it.Next(); v != nil; v = it.Next() {
		if keep(v) {
			out = append(out, v)
		}
	}
	return out
}
func skipped(it *It) []interface{} {
	var out []interface{}
	for v := it.Next(); v != nil; v = it.Next() {
		if !keep(v) {
			continue
		}
		out = append(out, v)
	}
	return out
}
func bothBranches(it *It) []interface{} {
	var out []interface{}
	for v := it.Next(); v != nil; v = it.Next() {
		if keep(v) {
			out = append(out, v)
		} else {
			out = append(out, nil)
		}
	}
	return out
}
func flagAll(it *It) bool {
	seen := false
	for v := it.Next(); v != nil; v = it.Next() {
		seen = true
		_ = v
	}
	return seen
}
func flagFiltered(it *It) bool {
	seen := false
	for v := it.Next(); v != nil; v = it.Next() {
		if keep(v) {
			seen = true
		}
	}
	return seen
}
`

func headerSlicePhi(f *ssa.Function) *ssa.Phi {
	for _, b := range f.Blocks {
		for _, in := range b.Instrs {
			if phi, ok := in.(*ssa.Phi); ok {
				if _, isHeader := isLoopHeaderPhi(phi); isHeader {
					switch phi.Type().Underlying().(type) {
					case *types.Slice:
						return phi
					case *types.Basic:
						if phi.Type().Underlying().(*types.Basic).Kind() == types.Bool {
							return phi
						}
					}
				}
			}
		}
	}
	return nil
}

func TestAccumulatorUpdatedOnEveryTrip(t *testing.T) {
	pkg := buildFixture(t, accSrc)
	for _, tc := range []struct {
		fn   string
		kind string
		want bool // accumulates: updated on every iteration
	}{
		{"all", "slice", true}, {"filtered", "slice", false}, {"skipped", "slice", false}, {"bothBranches", "slice", true},
		{"flagAll", "flag", true}, {"flagFiltered", "flag", false},
	} {
		f := pkg.Func(tc.fn)
		phi := headerSlicePhi(f)
		if phi == nil {
			t.Errorf("%s: no loop-carried accumulator found", tc.fn)
			continue
		}
		back, _ := isLoopHeaderPhi(phi)
		unchanged := false
		for _, i := range back {
			if carriesUnchanged(phi.Edges[i], phi, map[ssa.Value]bool{}) {
				unchanged = true
			}
		}
		if got := !unchanged; got != tc.want {
			t.Errorf("%s: accumulator updated on every trip: got %v want %v", tc.fn, got, tc.want)
		}
		if tc.want {
			if ok, why := accumulates(nil, phi, tc.kind, 0, map[ssa.Value]bool{}); !ok {
				t.Errorf("%s: accumulates() rejected an every-trip accumulator: %s", tc.fn, why)
			}
		}
	}
}
