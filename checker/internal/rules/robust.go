package rules

import (
	"golang.org/x/tools/go/ssa"

	"verifcheck/internal/core"
)

// Helpers that keep function-anchored rules stable under routine refactors
// (a block extracted into a helper, two call sites sharing a wrapper).

// funcGroup: f and the functions of its own package it reaches through static
// calls within depth frames — the code that "is" f after an extract-function
// refactor. Closures of the members are included.
func funcGroup(f *ssa.Function, depth int) []*ssa.Function {
	seen := map[*ssa.Function]bool{}
	var out []*ssa.Function
	var visit func(g *ssa.Function, d int)
	visit = func(g *ssa.Function, d int) {
		if g == nil || seen[g] || len(g.Blocks) == 0 {
			return
		}
		seen[g] = true
		out = append(out, g)
		for _, an := range g.AnonFuncs {
			visit(an, d)
		}
		if d <= 0 {
			return
		}
		for _, b := range g.Blocks {
			for _, in := range b.Instrs {
				if ci, ok := in.(ssa.CallInstruction); ok {
					if h := ci.Common().StaticCallee(); h != nil && samePkg(h, f) {
						visit(h, d-1)
					}
				}
			}
		}
	}
	visit(f, depth)
	return out
}

func samePkg(a, b *ssa.Function) bool {
	pa, pb := a.Pkg, b.Pkg
	if pa == nil && a.Parent() != nil {
		pa = a.Parent().Pkg
	}
	if pb == nil && b.Parent() != nil {
		pb = b.Parent().Pkg
	}
	return pa != nil && pa == pb
}

// callsToGroup: callsTo over every function of the group.
func callsToGroup(fs []*ssa.Function, pred func(*ssa.CallCommon) bool) []ssa.Instruction {
	var out []ssa.Instruction
	for _, f := range fs {
		out = append(out, callsTo(f, pred)...)
	}
	return out
}

// successNeeds: f returns successfully only below a successful call of a
// target — made by f itself, or by a helper of its package for which the same
// holds (depth frames). Returns the call site in f that carries the guarantee.
func successNeeds(f *ssa.Function, isTarget func(*ssa.Function) bool, depth int) (ssa.Instruction, bool, *ssa.Return) {
	var firstCand ssa.Instruction
	var badRet *ssa.Return
	for _, b := range f.Blocks {
		for _, in := range b.Instrs {
			call, ok := in.(*ssa.Call)
			if !ok {
				continue
			}
			g := call.Call.StaticCallee()
			if g == nil {
				continue
			}
			cand := isTarget(g)
			if !cand && depth > 0 && samePkg(g, f) && g != f && core.ErrResultIndex(g) >= 0 {
				_, cand, _ = successNeeds(g, isTarget, depth-1)
			}
			if !cand {
				continue
			}
			if firstCand == nil {
				firstCand = in
			}
			// `return helper(...)`: the helper's error is the function's error
			if rt, isRet := b.Instrs[len(b.Instrs)-1].(*ssa.Return); isRet && len(core.Returns(f)) >= 1 {
				if ei := core.ErrResultIndex(f); ei >= 0 {
					if v := core.ResolveResult(rt, ei); v == ssa.Value(call) || isExtractOf(v, call) {
						onlyThis := true
						for _, other := range core.Returns(f) {
							if other != rt && core.ClassifyReturn(other) != core.RetFailure {
								onlyThis = false
							}
						}
						if onlyThis {
							return in, true, nil
						}
					}
				}
			}
			if ok, rt := successGuarded(f, in); ok {
				return in, true, nil
			} else if rt != nil {
				badRet = rt
			}
		}
	}
	return firstCand, false, badRet
}

func isExtractOf(v ssa.Value, call *ssa.Call) bool {
	ex, ok := v.(*ssa.Extract)
	return ok && ex.Tuple == ssa.Value(call)
}
