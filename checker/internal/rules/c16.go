package rules

import (
	"go/types"
	"fmt"
	"go/constant"
	"go/token"
	"strings"

	"golang.org/x/tools/go/ssa"

	"verifcheck/internal/core"
)

func init() {
	register(&Rule{ID: "C16", Patterns: []string{"./agent/local", "./agent/ae"}, Run: runC16})
}

const localPkg = "agent/local"

func runC16(c *Ctx) {
	p, r := c.P, c.R
	r.Clauses = []string{
		"C16.1 in every function that pushes a registration or deregistration to the catalog, in-sync flags are set, entries dropped and checks pruned only below the success edge, an ACL-refusal edge or (deletions) the unknown-service/check edge of the RPC result; on every other edge the error is returned",
		"C16.2 a local deregistration marks the entry Deleted and keeps it; the entry disappears only in the push function's success edge; every Deleted entry is pushed at every sync",
		"C16.3 the remote/local diff only ever clears in-sync flags or sets them from an IsSame comparison",
		"C16.4 the push functions run with the state lock held",
		"C16.7 a callback that runs later (timer, goroutine) and changes an entry's sync state looks the entry up again under the lock; it does not write through an entry pointer captured when it was created (entries are replaced by clones on update)",
		"C16.6 an in-sync flag is set to true only on the entry the push function was called for, or on entries taken from the very list that was sent in the request — never on entries selected by scanning the local table",
		"C16.5 a failed or paused full sync leads to the retry state, never to partial sync",
	}
	r.NotDecided = []string{"convergence itself over fault sequences", "server-owned fields"}

	// ---- C16.1
	nPush := 0
	var pushFns []*ssa.Function
	for _, f := range p.SrcFuncs(localPkg) {
		if f.Parent() != nil {
			continue
		}
		for _, b := range f.Blocks {
			for _, in := range b.Instrs {
				call, ok := in.(*ssa.Call)
				if !ok || !call.Call.IsInvoke() || call.Call.Method.Name() != "RPC" {
					continue
				}
				method := ""
				for _, a := range call.Call.Args {
					if s, ok := core.ConstString(a); ok {
						method = s
					}
				}
				if method != "Catalog.Register" && method != "Catalog.Deregister" {
					continue
				}
				nPush++
				pushFns = append(pushFns, f)
				checkPushFunction(c, f, call, method)
			}
		}
	}
	r.Floor("C16.1", 5)

	// ---- C16.2 a: local removal marks, never deletes
	for _, f := range p.SrcFuncs(localPkg) {
		if f.Parent() != nil {
			continue
		}
		marks := false
		for _, b := range f.Blocks {
			for _, in := range b.Instrs {
				if st, ok := in.(*ssa.Store); ok {
					if fa, ok := st.Addr.(*ssa.FieldAddr); ok && core.FieldObj(fa).Name() == "Deleted" {
						if v, ok := core.ConstBool(st.Val); ok && v {
							marks = true
						}
					}
				}
			}
		}
		if !marks || isPush(pushFns, f) {
			continue
		}
		// functions reacting to the *remote* listing (updateSyncState) create Deleted tombstones: fine.
		drops := ""
		for _, b := range f.Blocks {
			for _, in := range b.Instrs {
				if call, ok := in.(*ssa.Call); ok {
					if bi, ok := call.Call.Value.(*ssa.Builtin); ok && bi.Name() == "delete" {
						if lf := core.AccessOf(call.Call.Args[0]).LastField(); lf == "services" || lf == "checks" {
							drops = p.Pos(in.Pos())
						}
					}
				}
			}
		}
		construct := core.FuncName(f) + "/marks-deleted"
		if drops != "" {
			r.Violate("C16.2", construct, p.FuncPos(f), "a function that marks entries Deleted also drops entries from the local map ("+drops+"): a deregistration whose push fails is forgotten and the catalog entry stays forever")
		} else {
			r.Hold("C16.2", construct, p.FuncPos(f), "marks Deleted and keeps the entry until the push succeeds")
		}
	}
	// ---- C16.2 b: every Deleted entry is pushed at every sync
	for _, f := range p.SrcFuncs(localPkg) {
		if f.Parent() != nil {
			continue
		}
		ord := 0
		for _, b := range f.Blocks {
			for _, in := range b.Instrs {
				ld, ok := in.(*ssa.UnOp)
				if !ok || ld.Op != token.MUL || core.AccessOf(ld).LastField() != "Deleted" {
					continue
				}
				te, _ := core.CondEdges(ld)
				if len(te) == 0 {
					continue
				}
				// does a deregistration push follow in this function at all?
				var delCalls []ssa.Instruction
				for _, bb := range f.Blocks {
					for _, x := range bb.Instrs {
						if ci, ok := x.(ssa.CallInstruction); ok {
							if g := ci.Common().StaticCallee(); g != nil && isPush(pushFns, g) && strings.HasPrefix(g.Name(), "delete") {
								delCalls = append(delCalls, x)
							}
						}
					}
				}
				if len(delCalls) == 0 {
					continue
				}
				isDel := func(x ssa.Instruction) bool {
					for _, d := range delCalls {
						if d == x {
							return true
						}
					}
					return false
				}
				ord++
				construct := fmt.Sprintf("%s/deleted-entry#%d", core.FuncName(f), ord)
				bad := ""
				for _, e := range te {
					w := &core.Walk{
						Stop: isDel,
						Visit: func(x ssa.Instruction) {
							if _, isNext := x.(*ssa.Next); isNext {
								bad = "next iteration"
							}
							if _, isRet := x.(*ssa.Return); isRet {
								bad = "return"
							}
						},
					}
					w.FromEdge(e.From, e.Succ)
				}
				if bad != "" {
					r.Violate("C16.2", construct, p.Pos(ld.Pos()), "an entry marked Deleted can reach the "+bad+" without its deregistration being pushed: a deregistration that was refused or failed once is never retried, not even at full syncs")
				} else {
					r.Hold("C16.2", construct, p.Pos(ld.Pos()), "every entry marked Deleted is pushed")
				}
			}
		}
	}
	r.Floor("C16.2", 4)

	// ---- C16.3
	if us := p.Func(localPkg, "(*State).updateSyncState"); us != nil {
		n := 0
		bad := ""
		for _, b := range us.Blocks {
			for _, in := range b.Instrs {
				st, ok := in.(*ssa.Store)
				if !ok {
					continue
				}
				name := ""
				if fa, ok := st.Addr.(*ssa.FieldAddr); ok {
					name = core.FieldObj(fa).Name()
				}
				if name != "InSync" && name != "nodeInfoInSync" {
					continue
				}
				n++
				if v, ok := core.ConstBool(st.Val); ok {
					if v {
						bad = "sets " + name + " = true at " + p.Pos(st.Pos()) + " without comparing local and remote"
					}
					continue
				}
				if call, ok := st.Val.(*ssa.Call); ok && strings.HasPrefix(core.MethodNameOf(&call.Call), "IsSame") {
					continue
				}
				bad = name + " assigned from something other than an IsSame comparison at " + p.Pos(st.Pos())
			}
		}
		if bad != "" {
			r.Violate("C16.3", core.FuncName(us), p.FuncPos(us), "the sync-state diff "+bad+": an entry the catalog does not hold (or holds differently) is marked in sync and never repaired")
		} else {
			r.Hold("C16.3", core.FuncName(us), p.FuncPos(us), fmt.Sprintf("%d in-sync assignments: cleared, or taken from IsSame", n))
		}
	} else {
		r.Unresolve("C16.3", "local.(*State).updateSyncState", "not found")
	}

	// ---- C16.4 lock held at the call sites of the push functions
	for _, f := range p.SrcFuncs(localPkg) {
		if f.Parent() != nil {
			continue
		}
		var sites []ssa.Instruction
		for _, b := range f.Blocks {
			for _, in := range b.Instrs {
				if ci, ok := in.(ssa.CallInstruction); ok {
					if g := ci.Common().StaticCallee(); g != nil && isPush(pushFns, g) {
						sites = append(sites, in)
					}
				}
			}
		}
		if len(sites) == 0 || isPush(pushFns, f) {
			continue
		}
		mf := &core.MustFlow{F: f, Gen: func(in ssa.Instruction) []string {
			if ci, ok := in.(ssa.CallInstruction); ok {
				if _, isDefer := in.(*ssa.Defer); !isDefer && core.MethodNameOf(ci.Common()) == "Lock" {
					return []string{"lock"}
				}
			}
			return nil
		}}
		mf.Run()
		bad := ""
		for _, s := range sites {
			if set, _ := mf.At(s); !set["lock"] {
				bad = p.Pos(s.Pos())
			}
		}
		construct := core.FuncName(f) + "/push-under-lock"
		if bad != "" {
			r.Violate("C16.4", construct, p.FuncPos(f), "a push function is called at "+bad+" without the state lock: local changes race with the bookkeeping of the sync")
		} else {
			r.Hold("C16.4", construct, p.FuncPos(f), fmt.Sprintf("%d push call(s), all with the state lock held", len(sites)))
		}
	}
	r.Floor("C16.4", 1)

	// ---- C16.5
	checkSyncerFSM(c)
	_ = nPush
}

func isPush(push []*ssa.Function, f *ssa.Function) bool {
	for _, g := range push {
		if g == f {
			return true
		}
	}
	return false
}

func checkPushFunction(c *Ctx, f *ssa.Function, rpc *ssa.Call, method string) {
	p, r := c.P, c.R
	name := core.FuncName(f)
	var errV ssa.Value = rpc
	var accepted []core.Edge
	// err == nil
	for _, cmp := range nilCmps(errV) {
		te, fe := core.CondEdges(cmp)
		if cmp.Op == token.EQL {
			accepted = append(accepted, te...)
		} else {
			accepted = append(accepted, fe...)
		}
	}
	nNil := len(accepted)
	// acl refusals and "Unknown …" (deletions only)
	for _, b := range f.Blocks {
		for _, in := range b.Instrs {
			call, ok := in.(*ssa.Call)
			if !ok {
				continue
			}
			nm := core.CalleeName(&call.Call)
			switch {
			case strings.HasSuffix(nm, "/acl.IsErrPermissionDenied") || strings.HasSuffix(nm, "/acl.IsErrNotFound"):
				if len(call.Call.Args) == 1 && call.Call.Args[0] == errV {
					te, _ := core.CondEdges(call)
					accepted = append(accepted, te...)
				}
			case nm == "strings.Contains" && method == "Catalog.Deregister":
				if len(call.Call.Args) == 2 {
					if s, ok := core.ConstString(call.Call.Args[1]); ok && strings.HasPrefix(s, "Unknown ") {
						te, _ := core.CondEdges(call)
						accepted = append(accepted, te...)
					}
				}
			}
		}
	}
	if nNil == 0 {
		r.Violate("C16.1", name, p.Pos(rpc.Pos()), "the result of the catalog RPC is never tested for nil")
		return
	}
	cut := map[core.Edge]bool{}
	for _, e := range accepted {
		cut[e] = true
	}
	var offending []string
	nonFailReturn := ""
	w := &core.Walk{
		Cut: func(b *ssa.BasicBlock, si int) bool { return cut[core.Edge{From: b, Succ: si}] },
		Visit: func(in ssa.Instruction) {
			switch x := in.(type) {
			case *ssa.Store:
				if fa, ok := x.Addr.(*ssa.FieldAddr); ok {
					fn := core.FieldObj(fa).Name()
					if fn == "InSync" || fn == "nodeInfoInSync" {
						if v, ok := core.ConstBool(x.Val); ok && v {
							offending = append(offending, fn+" = true at "+p.Pos(in.Pos()))
						}
					}
				}
			case *ssa.Call:
				if bi, ok := x.Call.Value.(*ssa.Builtin); ok && bi.Name() == "delete" {
					if lf := core.AccessOf(x.Call.Args[0]).LastField(); lf == "services" || lf == "checks" {
						offending = append(offending, "delete from l."+lf+" at "+p.Pos(in.Pos()))
					}
				}
				if g := x.Call.StaticCallee(); g != nil && g.Name() == "pruneCheck" {
					offending = append(offending, "pruneCheck at "+p.Pos(in.Pos()))
				}
			case *ssa.Return:
				if core.ClassifyReturn(x) == core.RetSuccess {
					nonFailReturn = p.Pos(in.Pos())
				}
			}
		},
	}
	w.FromInstr(rpc)
	switch {
	case len(offending) > 0:
		r.Violate("C16.1", name, p.Pos(rpc.Pos()), fmt.Sprintf("after a %s that failed for a reason other than an ACL refusal the function still does: %s — an entry the catalog does not hold is marked in sync (or forgotten), so the next sync does not repair it", method, strings.Join(offending, "; ")))
	case nonFailReturn != "":
		r.Violate("C16.1", name, p.Pos(rpc.Pos()), "after a failed "+method+" the function can return nil at "+nonFailReturn+": the syncer believes the push succeeded")
	default:
		r.Hold("C16.1", name, p.Pos(rpc.Pos()), "bookkeeping only below success / ACL-refusal edges; other errors are returned")
	}
}

func checkSyncerFSM(c *Ctx) {
	p, r := c.P, c.R
	retry, okR := constOf(p, "agent/ae", "retryFullSyncState")
	partial, okP := constOf(p, "agent/ae", "partialSyncState")
	if !okR || !okP {
		r.Unresolve("C16.5", "ae.retryFullSyncState", "state constants not found")
		return
	}
	n := 0
	for _, f := range p.SrcFuncs("agent/ae") {
		for _, b := range f.Blocks {
			for _, in := range b.Instrs {
				call, ok := in.(*ssa.Call)
				if !ok || core.MethodNameOf(&call.Call) != "SyncFull" {
					continue
				}
				n++
				construct := core.FuncName(f) + "/SyncFull-failed"
				var bad string
				for _, cmp := range nilCmps(call) {
					te, fe := core.CondEdges(cmp)
					nonNil := te
					if cmp.Op == token.EQL {
						nonNil = fe
					}
					for _, e := range nonNil {
						w := &core.Walk{Visit: func(x ssa.Instruction) {
							rt, ok := x.(*ssa.Return)
							if !ok || len(rt.Results) != 1 {
								return
							}
							k, ok := core.ResolveResult(rt, 0).(*ssa.Const)
							if !ok || k.Value == nil {
								bad = "returns a non-constant state at " + p.Pos(rt.Pos())
								return
							}
							if !constant.Compare(k.Value, token.EQL, retry) {
								bad = "goes to state " + k.Value.ExactString() + " at " + p.Pos(rt.Pos())
								if constant.Compare(k.Value, token.EQL, partial) {
									bad += " (partial sync)"
								}
							}
						}}
						w.FromEdge(e.From, e.Succ)
					}
				}
				if len(nilCmps(call)) == 0 {
					bad = "the result of SyncFull is not tested"
				}
				if bad != "" {
					r.Violate("C16.5", construct, p.Pos(call.Pos()), "after a failed full sync the syncer "+bad+" instead of the retry state: the catalog is left diverged until the next timer-driven full sync")
				} else {
					r.Hold("C16.5", construct, p.Pos(call.Pos()), "a failed full sync leads to retryFullSync")
				}
			}
		}
	}
	r.Floor("C16.5", 1)
	_ = n
	checkInSyncProvenance(c)
	checkCallbacksRelookup(c)
}

// C16.6
func checkInSyncProvenance(c *Ctx) {
	p, r := c.P, c.R
	n := 0
	perFn := map[string]int{}
	for _, f := range p.SrcFuncs("agent/local") {
		// the slices sent in a request: values stored into a field named Checks of a catalog request
		sent := map[ssa.Value]bool{}
		for _, b := range f.Blocks {
			for _, in := range b.Instrs {
				if st, ok := in.(*ssa.Store); ok {
					if fa, ok := st.Addr.(*ssa.FieldAddr); ok && core.FieldObj(fa).Name() == "Checks" {
						if nt := core.NamedOf(fa.X.Type()); nt != nil && strings.HasSuffix(nt.Obj().Name(), "Request") {
							sent[st.Val] = true
						}
					}
				}
			}
		}
		for _, b := range f.Blocks {
			for _, in := range b.Instrs {
				st, ok := in.(*ssa.Store)
				if !ok {
					continue
				}
				fa, ok := st.Addr.(*ssa.FieldAddr)
				if !ok || core.FieldObj(fa).Name() != "InSync" {
					continue
				}
				if v, ok := core.ConstBool(st.Val); !ok || !v {
					continue
				}
				nt := core.NamedOf(fa.X.Type())
				if nt == nil || (nt.Obj().Name() != "CheckState" && nt.Obj().Name() != "ServiceState") {
					continue
				}
				n++
				base := core.FuncName(f) + "/" + nt.Obj().Name()
				perFn[base]++
				construct := fmt.Sprintf("%s#%d", base, perFn[base])
				// where does the entry come from?
				fromKeyParam, fromSent, fromScan := false, false, ""
				var entry ssa.Value = fa.X
				if lk, ok := entry.(*ssa.Lookup); ok {
					entry = lk.Index // l.checks[key]: which key?
				}
				for _, leaf := range core.Leaves(entry, core.SliceOpts{ThroughCalls: true, StopAt: func(v ssa.Value) bool {
					if rg, ok := v.(*ssa.Range); ok {
						_, isMap := rg.X.Type().Underlying().(*types.Map)
						return isMap
					}
					return sent[v]
				}}) {
					switch x := leaf.(type) {
					case *ssa.Parameter:
						tn := core.ShortType(x.Type())
						if strings.HasSuffix(tn, "CheckID") || strings.HasSuffix(tn, "ServiceID") {
							fromKeyParam = true
						}
					case *ssa.Range:
						if _, isMap := x.X.Type().Underlying().(*types.Map); isMap {
							fromScan = "a scan of " + strings.Join(core.AccessOf(x.X).Fields, ".")
						}
					default:
						if sent[leaf] {
							fromSent = true
						}
					}
				}
				// a helper that is handed the list: every caller must hand it the list it sent
				if !fromKeyParam && !fromSent && fromScan == "" {
					for _, leaf := range core.Leaves(entry, core.SliceOpts{ThroughCalls: true}) {
						par, ok := leaf.(*ssa.Parameter)
						if !ok {
							continue
						}
						if _, isSlice := par.Type().Underlying().(*types.Slice); !isSlice {
							continue
						}
						idx := -1
						for i, q := range f.Params {
							if q == par {
								idx = i
							}
						}
						callers := callersOf(p, f, "agent/local")
						all := idx >= 0 && len(callers) > 0
						for _, ci := range callers {
							g := ci.Parent()
							okArg := false
							for _, b2 := range g.Blocks {
								for _, in2 := range b2.Instrs {
									if st2, ok := in2.(*ssa.Store); ok {
										if fa2, ok := st2.Addr.(*ssa.FieldAddr); ok && core.FieldObj(fa2).Name() == "Checks" && idx < len(ci.Common().Args) && st2.Val == ci.Common().Args[idx] {
											okArg = true
										}
									}
								}
							}
							if !okArg {
								all = false
							}
						}
						if all {
							fromSent = true
						}
					}
				}
				switch {
				case fromScan != "":
					r.Violate("C16.6", construct, p.Pos(st.Pos()), "the in-sync flag is set on entries chosen by "+fromScan+", not on what was sent: an entry that was never pushed (a check registered under another token, a check added while the push was failing) is recorded as synced and is skipped by every later sync")
				case fromKeyParam || fromSent:
					r.Hold("C16.6", construct, p.Pos(st.Pos()), map[bool]string{true: "the entry the function was called for", false: "an element of the list sent in the request"}[fromKeyParam && !fromSent])
				default:
					r.Undecide("C16.6", construct, p.Pos(st.Pos()), "cannot tell which entry is flagged in sync")
				}
			}
		}
	}
	r.Floor("C16.6", 7)
}

// C16.7
func checkCallbacksRelookup(c *Ctx) {
	p, r := c.P, c.R
	n := 0
	for _, f := range p.SrcFuncs("agent/local") {
		if f.Parent() == nil {
			continue
		}
		bad := ""
		writes := 0
		for _, b := range f.Blocks {
			for _, in := range b.Instrs {
				st, ok := in.(*ssa.Store)
				if !ok {
					continue
				}
				fa, ok := st.Addr.(*ssa.FieldAddr)
				if !ok {
					continue
				}
				nt := core.NamedOf(fa.X.Type())
				if nt == nil || (nt.Obj().Name() != "CheckState" && nt.Obj().Name() != "ServiceState") {
					continue
				}
				writes++
				// the entry written: looked up here, or captured?
				captured := false
				for _, leaf := range core.Leaves(fa.X, core.SliceOpts{StopAt: func(v ssa.Value) bool { _, isLk := v.(*ssa.Lookup); return isLk }}) {
					switch leaf.(type) {
					case *ssa.FreeVar:
						captured = true
					}
				}
				if _, isLookup := fa.X.(*ssa.Lookup); isLookup {
					captured = false
				}
				if captured {
					bad = fmt.Sprintf("field %s of a captured %s is assigned at %s", core.FieldObj(fa).Name(), nt.Obj().Name(), p.Pos(st.Pos()))
				}
			}
		}
		if writes == 0 {
			continue
		}
		n++
		if bad != "" {
			r.Violate("C16.7", core.FuncName(f), p.FuncPos(f), bad+": the callback runs after the entry may have been replaced (every update installs a clone), so it changes an orphaned object; the live entry keeps its in-sync flag and pending-deferral marker and is never pushed again")
		} else {
			r.Hold("C16.7", core.FuncName(f), p.FuncPos(f), "the callback looks the entry up again before changing it")
		}
	}
	r.Floor("C16.7", 1)
}
