package rules

import (
	"path/filepath"
	"go/types"
	"fmt"
	"go/token"
	"strings"

	"golang.org/x/tools/go/ssa"

	"verifcheck/internal/core"
)

func staticCallsNamed(f *ssa.Function, names ...string) []ssa.Instruction {
	want := map[string]bool{}
	for _, n := range names {
		want[n] = true
	}
	return callsTo(f, func(cm *ssa.CallCommon) bool {
		if g := cm.StaticCallee(); g != nil {
			return want[g.Name()]
		}
		return cm.IsInvoke() && want[cm.Method.Name()]
	})
}

// reachesFromEdge: is target reachable from the edge (with optional cut)?
func reachesFromEdge(e core.Edge, target func(ssa.Instruction) bool, cut map[core.Edge]bool) bool {
	found := false
	w := &core.Walk{Cut: func(b *ssa.BasicBlock, si int) bool { return cut[core.Edge{From: b, Succ: si}] },
		Visit: func(in ssa.Instruction) { found = found || target(in) }}
	w.FromEdge(e.From, e.Succ)
	return found
}

// errorsIsEdges: true edges of errors.Is(x, <global named g>) in f.
func errorsIsEdges(f *ssa.Function, gname string) []core.Edge {
	var out []core.Edge
	for _, in := range callsTo(f, func(cm *ssa.CallCommon) bool { return core.CalleeName(cm) == "errors.Is" }) {
		call := in.(*ssa.Call)
		if len(call.Call.Args) != 2 {
			continue
		}
		if g := globalOf(call.Call.Args[1]); g != nil && g.Name() == gname {
			te, _ := core.CondEdges(call)
			out = append(out, te...)
		}
	}
	return out
}

// ---- C11.3
func c11ForcedResubscribe(c *Ctx) {
	p, r := c.P, c.R
	// (a) the ACL generator covers tokens, roles, policies
	if f := p.Func(statePkg, "aclChangeUnsubscribeEvent"); f == nil {
		r.Unresolve("C11.3", "state.aclChangeUnsubscribeEvent", "not found")
	} else {
		for _, tc := range []string{"tableACLTokens", "tableACLRoles", "tableACLPolicies"} {
			if len(cmpFieldWithConst(p, f, "Table", statePkg, tc)) > 0 {
				r.Hold("C11.3", "state.aclChangeUnsubscribeEvent/"+tc, p.FuncPos(f), "changes of this table close the affected tokens' subscriptions")
			} else {
				r.Violate("C11.3", "state.aclChangeUnsubscribeEvent/"+tc, p.FuncPos(f), "changes of table "+tc+" no longer force the affected tokens to resubscribe: a subscriber keeps receiving events its token may no longer read")
			}
		}
		bad := ""
		for _, rt := range core.Returns(f) {
			if core.ClassifyReturn(rt) != core.RetSuccess {
				continue
			}
			derives := false
			for _, leaf := range core.Leaves(core.ResolveResult(rt, 0), core.SliceOpts{}) {
				if call, ok := leaf.(*ssa.Call); ok && strings.HasSuffix(core.CalleeName(&call.Call), "NewCloseSubscriptionEvent") {
					derives = true
				}
			}
			if !derives {
				bad = p.Pos(rt.Pos())
			}
		}
		if bad != "" {
			r.Violate("C11.3", "state.aclChangeUnsubscribeEvent/result", bad, "a successful return does not carry the close-subscription event")
		} else {
			r.Hold("C11.3", "state.aclChangeUnsubscribeEvent/result", p.FuncPos(f), "every successful return carries the close-subscription event")
		}
	}

	// (b) publisher: the close payload closes the subscriptions of its tokens
	if f := p.Func(streamPkg, "(*EventPublisher).publishEvent"); f == nil {
		r.Unresolve("C11.3", "stream.(*EventPublisher).publishEvent", "not found")
	} else {
		ok := false
		for _, b := range f.Blocks {
			for _, in := range b.Instrs {
				ta, isTA := in.(*ssa.TypeAssert)
				if !isTA || !ta.CommaOk || ta.Referrers() == nil {
					continue
				}
				if nt := core.NamedOf(ta.AssertedType); nt == nil || nt.Obj().Name() != "closeSubscriptionPayload" {
					continue
				}
				for _, rr := range *ta.Referrers() {
					if ex, isEx := rr.(*ssa.Extract); isEx && ex.Index == 1 {
						te, _ := core.CondEdges(ex)
						for _, e := range te {
							for _, x := range e.From.Succs[e.Succ].Instrs {
								if ci, isCall := x.(ssa.CallInstruction); isCall {
									if g := ci.Common().StaticCallee(); g != nil && g.Name() == "closeSubscriptionsForTokens" {
										for _, a := range ci.Common().Args {
											if core.AccessOf(a).LastField() == "tokensSecretIDs" {
												ok = true
											}
										}
									}
								}
							}
						}
					}
				}
			}
		}
		if ok {
			r.Hold("C11.3", "stream.(*EventPublisher).publishEvent/close-payload", p.FuncPos(f), "a close-subscription payload closes the subscriptions of its tokens")
		} else {
			r.Violate("C11.3", "stream.(*EventPublisher).publishEvent/close-payload", p.FuncPos(f), "a close-subscription payload no longer closes the subscriptions of the tokens it names")
		}
	}
	// (c) the closers
	for _, pair := range [][2]string{{"(*subscriptions).closeSubscriptionsForTokens", "closeACLChanged"}, {"(*subscriptions).closeAllByTopic", "forceClose"}, {"(*EventPublisher).RefreshAllTopics", "closeAllByTopic"}, {"(*EventPublisher).RefreshAllTopics", "forceEvictByTopicLocked"}} {
		f := p.Func(streamPkg, pair[0])
		if f == nil {
			r.Unresolve("C11.3", "stream."+pair[0], "not found")
			continue
		}
		if len(staticCallsNamed(f, pair[1])) > 0 {
			r.Hold("C11.3", "stream."+pair[0]+"/"+pair[1], p.FuncPos(f), "calls "+pair[1])
		} else {
			r.Violate("C11.3", "stream."+pair[0]+"/"+pair[1], p.FuncPos(f), "no longer calls "+pair[1]+": subscriptions stay open on a stale view")
		}
	}
	for _, pair := range [][2]string{{"(*Subscription).forceClose", "subStateForceClosed"}, {"(*Subscription).closeACLChanged", "subStateACLChanged"}} {
		f := p.Func(streamPkg, pair[0])
		if f == nil {
			r.Unresolve("C11.3", "stream."+pair[0], "not found")
			continue
		}
		cv, _ := stateConst(p, streamPkg, pair[1])
		okState, okClose := false, false
		for _, in := range callsTo(f, func(cm *ssa.CallCommon) bool { return core.CalleeName(cm) == "sync/atomic.CompareAndSwapUint32" }) {
			args := in.(ssa.CallInstruction).Common().Args
			if k, ok := args[len(args)-1].(*ssa.Const); ok && cv != nil && k.Value != nil && k.Value.ExactString() == cv.ExactString() {
				okState = true
			}
		}
		for _, in := range callsTo(f, func(cm *ssa.CallCommon) bool {
			b, ok := cm.Value.(*ssa.Builtin)
			return ok && b.Name() == "close"
		}) {
			_ = in
			okClose = true
		}
		if okState && okClose {
			r.Hold("C11.3", "stream."+pair[0], p.FuncPos(f), "moves the subscription to "+pair[1]+" and wakes the reader")
		} else {
			r.Violate("C11.3", "stream."+pair[0], p.FuncPos(f), fmt.Sprintf("state set=%v reader woken=%v: a blocked subscriber is not told to resubscribe", okState, okClose))
		}
	}
	// (d) a closed subscription delivers nothing more
	if f := p.Func(streamPkg, "(*Subscription).Next"); f == nil {
		r.Unresolve("C11.3", "stream.(*Subscription).Next", "not found")
	} else {
		var block ssa.Instruction
		for _, in := range staticCallsNamed(f, "Next") {
			block = in
		}
		deliver := staticCallsNamed(f, "newEventFromBatch")
		checks := staticCallsNamed(f, "requireStateOpen")
		cut := map[core.Edge]bool{}
		for _, ck := range checks {
			for _, e := range nilErrEdges(ck) {
				cut[e] = true
			}
		}
		switch {
		case block == nil || len(deliver) == 0:
			r.Unresolve("C11.3", "stream.(*Subscription).Next/closed-check", "blocking read or delivery not found")
		default:
			// after the blocking read, delivery must lie below a successful open-state check made after the read
			reach := false
			w := &core.Walk{Cut: func(b *ssa.BasicBlock, si int) bool { return cut[core.Edge{From: b, Succ: si}] },
				Visit: func(in ssa.Instruction) { reach = reach || in == deliver[0] }}
			w.FromInstr(block)
			if reach || len(cut) == 0 {
				r.Violate("C11.3", "stream.(*Subscription).Next/closed-check", p.Pos(block.Pos()), "an event can be delivered after the blocking read without re-checking that the subscription is still open: a subscriber whose token changed or whose server restored a snapshot receives further events instead of being forced to resubscribe")
			} else {
				r.Hold("C11.3", "stream.(*Subscription).Next/closed-check", p.Pos(block.Pos()), "delivery only below an open-state check made after the blocking read")
			}
		}
	}
	if f := p.Func(streamPkg, "(*Subscription).requireStateOpen"); f != nil {
		bad := ""
		for _, cn := range []string{"subStateForceClosed", "subStateShuttingDown", "subStateACLChanged", "subStateUnsub"} {
			cmps := cmpFieldWithConst(p, f, "", streamPkg, cn)
			if len(cmps) == 0 {
				bad = cn + " is not distinguished"
				continue
			}
			for _, cmp := range cmps {
				for _, e := range eqEdges(cmp) {
					for _, rt := range core.Returns(f) {
						if core.EdgeDominates(e.From, e.Succ, rt.Block()) && core.ClassifyReturn(rt) == core.RetSuccess {
							bad = cn + " is reported as open"
						}
					}
				}
			}
		}
		if bad != "" {
			r.Violate("C11.3", "stream.(*Subscription).requireStateOpen", p.FuncPos(f), bad)
		} else {
			r.Hold("C11.3", "stream.(*Subscription).requireStateOpen", p.FuncPos(f), "every closed state yields an error")
		}
	} else {
		r.Unresolve("C11.3", "stream.(*Subscription).requireStateOpen", "not found")
	}

	// (e) the subscribe endpoint
	if f := p.Func("agent/grpc-internal/services/subscribe", "(*Server).Subscribe"); f == nil {
		r.Unresolve("C11.3", "subscribe.(*Server).Subscribe", "not found")
	} else {
		isLoopWork := func(in ssa.Instruction) bool {
			ci, ok := in.(ssa.CallInstruction)
			if !ok {
				return false
			}
			n := core.MethodNameOf(ci.Common())
			return n == "Next" || n == "Send"
		}
		for _, g := range []string{"ErrSubForceClosed", "ErrACLChanged"} {
			edges := errorsIsEdges(f, g)
			construct := "subscribe.(*Server).Subscribe/" + g
			if len(edges) == 0 {
				r.Violate("C11.3", construct, p.FuncPos(f), g+" from the subscription is not handled: it is no longer turned into a reset request")
				continue
			}
			bad := ""
			for _, e := range edges {
				if reachesFromEdge(e, isLoopWork, nil) {
					bad = "the loop continues (reads or sends again) after " + g
				}
				aborted := false
				w := &core.Walk{Visit: func(in ssa.Instruction) {
					if call, ok := in.(*ssa.Call); ok && strings.HasSuffix(core.CalleeName(&call.Call), "status.Error") {
						if k, ok := core.ConstInt(call.Call.Args[0]); ok && k == 10 {
							aborted = true
						}
					}
				}}
				w.FromEdge(e.From, e.Succ)
				if !aborted && bad == "" {
					bad = "no Aborted status is returned after " + g + ": the client does not reset its view"
				}
			}
			if bad != "" {
				r.Violate("C11.3", construct, p.FuncPos(f), bad)
			} else {
				r.Hold("C11.3", construct, p.FuncPos(f), "ends the stream with Aborted; never continues")
			}
		}
	}

	// (g) the clients reset
	type cl struct{ fn, what string }
	for _, x := range []cl{{"(*RPCMaterializer).subscribeOnce", "aborted"}, {"(*RPCMaterializer).subscribeOnce", "handler-error"}, {"(*LocalMaterializer).subscribeOnce", "handler-error"}} {
		f := p.Func(matviewPkg, x.fn)
		construct := "submatview." + x.fn + "/" + x.what
		if f == nil {
			r.Unresolve("C11.3", construct, "not found")
			continue
		}
		var edges []core.Edge
		if x.what == "aborted" {
			for _, in := range staticCallsNamed(f, "isGrpcStatus") {
				call := in.(*ssa.Call)
				if k, ok := core.ConstInt(call.Call.Args[1]); ok && k == 10 {
					te, _ := core.CondEdges(call)
					edges = append(edges, te...)
				}
			}
		} else {
			// the dynamic call of the current handler
			for _, b := range f.Blocks {
				for _, in := range b.Instrs {
					if call, ok := in.(*ssa.Call); ok && call.Call.StaticCallee() == nil && !call.Call.IsInvoke() {
						if _, isB := call.Call.Value.(*ssa.Builtin); isB {
							continue
						}
						if core.AccessOf(call.Call.Value).LastField() != "handler" {
							continue
						}
						for _, rr := range *call.Referrers() {
							if ex, ok := rr.(*ssa.Extract); ok && core.IsErrorType(ex.Type()) {
								for _, cmp := range nilCmps(ex) {
									te, fe := core.CondEdges(cmp)
									if cmp.Op == token.NEQ {
										edges = append(edges, te...)
									} else {
										edges = append(edges, fe...)
									}
								}
								// the error may be stored to a local first
							}
						}
						if len(edges) == 0 {
							// err is assigned to a variable shared with the loop: find `err != nil` comparisons dominated by the call
							for _, bb := range f.Blocks {
								for _, y := range bb.Instrs {
									cmp, ok := y.(*ssa.BinOp)
									if !ok || cmp.Op != token.NEQ || !core.IsNilConst(cmp.Y) || !core.IsErrorType(cmp.X.Type()) {
										continue
									}
									for _, leaf := range core.Leaves(cmp.X, core.SliceOpts{}) {
										if leaf == ssa.Value(call) {
											te, _ := core.CondEdges(cmp)
											edges = append(edges, te...)
										}
									}
								}
							}
						}
					}
				}
			}
		}
		if len(edges) == 0 {
			r.Violate("C11.3", construct, p.FuncPos(f), "the "+x.what+" edge was not found: the case is no longer distinguished")
			continue
		}
		bad := false
		for _, e := range edges {
			// every path from the edge to a return passes reset()
			mf := &core.MustFlow{F: f, Start: e.From.Instrs[len(e.From.Instrs)-1], Cut: func(b *ssa.BasicBlock, si int) bool { return b == e.From && si != e.Succ }, Gen: func(in ssa.Instruction) []string {
				if ci, ok := in.(ssa.CallInstruction); ok && core.MethodNameOf(ci.Common()) == "reset" {
					return []string{"reset"}
				}
				return nil
			}}
			mf.Run()
			for _, rt := range core.Returns(f) {
				if !core.EdgeDominates(e.From, e.Succ, rt.Block()) {
					continue
				}
				if s, ok := mf.At(rt); ok && !s["reset"] {
					bad = true
				}
			}
		}
		if bad {
			r.Violate("C11.3", construct, p.FuncPos(f), "the view is not reset on the "+x.what+" path: the next subscription resumes from an index of a view the server no longer vouches for")
		} else {
			r.Hold("C11.3", construct, p.FuncPos(f), "view reset before returning")
		}
	}

	// (h) restore refreshes every topic
	if f := p.Func("agent/consul/fsm", "(*FSM).Restore"); f == nil {
		r.Unresolve("C11.3", "fsm.(*FSM).Restore", "not found")
	} else {
		refresh := staticCallsNamed(f, "RefreshAllTopics")
		if len(refresh) == 0 {
			r.Violate("C11.3", "fsm.(*FSM).Restore/refresh", p.FuncPos(f), "restore does not refresh the topics: subscribers keep a view of the replaced store")
		} else {
			mf := &core.MustFlow{F: f, Gen: func(in ssa.Instruction) []string {
				if in == refresh[0] {
					return []string{"refresh"}
				}
				return nil
			}}
			mf.Run()
			bad := false
			for _, rt := range core.Returns(f) {
				if core.ClassifyReturn(rt) == core.RetSuccess {
					if s, ok := mf.At(rt); ok && !s["refresh"] {
						// Publisher may be absent (nil check): accept when the bypass is the nil-publisher edge only
						bad = true
					}
				}
			}
			if bad {
				// tolerate exactly the `Publisher != nil` guard
				guard := false
				for _, b := range f.Blocks {
					for _, in := range b.Instrs {
						if cmp, ok := in.(*ssa.BinOp); ok && (cmp.Op == token.NEQ || cmp.Op == token.EQL) && core.IsNilConst(cmp.Y) && core.AccessOf(cmp.X).LastField() == "Publisher" {
							te, fe := core.CondEdges(cmp)
							ne := te
							if cmp.Op == token.EQL {
								ne = fe
							}
							for _, e := range ne {
								if core.EdgeDominates(e.From, e.Succ, refresh[0].Block()) {
									guard = true
								}
							}
						}
					}
				}
				if guard {
					bad = false
				}
			}
			if bad {
				r.Violate("C11.3", "fsm.(*FSM).Restore/refresh", p.Pos(refresh[0].Pos()), "a successful restore can return without refreshing the topics")
			} else {
				r.Hold("C11.3", "fsm.(*FSM).Restore/refresh", p.Pos(refresh[0].Pos()), "every successful restore refreshes all topics (when a publisher is configured)")
			}
		}
	}
	r.Floor("C11.3", 19)
}

// ---- C11.4
func c11Client(c *Ctx) {
	p, r := c.P, c.R
	// snapshotHandler.handle
	if f := p.Func(matviewPkg, "(*snapshotHandler).handle"); f == nil {
		r.Unresolve("C11.4", "submatview.(*snapshotHandler).handle", "not found")
	} else {
		upd := staticCallsNamed(f, "updateView")
		var endEdges []core.Edge
		for _, in := range staticCallsNamed(f, "GetEndOfSnapshot") {
			te, _ := core.CondEdges(in.(ssa.Value))
			endEdges = append(endEdges, te...)
		}
		bad := ""
		switch {
		case len(upd) != 1 || len(endEdges) == 0:
			bad = "structure not found"
		case !core.CutMakesUnreachable(f, nil, endEdges, upd[0]):
			bad = "the view is updated before the end of the snapshot: a reader sees a partial snapshot at a final-looking index"
		default:
			args := upd[0].(ssa.CallInstruction).Common().Args
			ev, idx := args[len(args)-2], args[len(args)-1]
			if a := core.AccessOf(ev); a.LastField() != "events" {
				bad = "the view is not updated with the buffered snapshot events"
			}
			if a := core.AccessOf(idx); a.LastField() != "Index" || a.Root != ssa.Value(f.Params[len(f.Params)-1]) {
				bad = "the view index is not the end-of-snapshot event's index"
			}
		}
		// the other path buffers the event
		buffered := false
		for _, b := range f.Blocks {
			for _, in := range b.Instrs {
				if st, ok := in.(*ssa.Store); ok {
					if fa, ok := st.Addr.(*ssa.FieldAddr); ok && core.FieldObj(fa).Name() == "events" {
						for _, leaf := range core.Leaves(st.Val, core.SliceOpts{}) {
							if call, ok := leaf.(*ssa.Call); ok {
								if g := call.Call.StaticCallee(); g != nil && g.Name() == "eventsFromEvent" {
									buffered = true
								}
							}
						}
					}
				}
			}
		}
		if bad == "" && !buffered {
			bad = "snapshot events are not buffered"
		}
		if bad != "" {
			r.Violate("C11.4", "submatview.(*snapshotHandler).handle", p.FuncPos(f), bad)
		} else {
			r.Hold("C11.4", "submatview.(*snapshotHandler).handle", p.FuncPos(f), "buffers until EndOfSnapshot, then one update with the buffered events and that event's index")
		}
	}
	// eventStreamHandler
	if f := p.Func(matviewPkg, "eventStreamHandler"); f != nil {
		upd := staticCallsNamed(f, "updateView")
		bad := ""
		if len(upd) != 1 {
			bad = "structure not found"
		} else {
			args := upd[0].(ssa.CallInstruction).Common().Args
			if a := core.AccessOf(args[len(args)-1]); a.LastField() != "Index" || a.Root != ssa.Value(f.Params[1]) {
				bad = "the view index is not the delivered event's index"
			}
			okEv := false
			for _, leaf := range core.Leaves(args[len(args)-2], core.SliceOpts{}) {
				if call, ok := leaf.(*ssa.Call); ok {
					if g := call.Call.StaticCallee(); g != nil && g.Name() == "eventsFromEvent" && len(call.Call.Args) == 1 && call.Call.Args[0] == ssa.Value(f.Params[1]) {
						okEv = true
					}
				}
			}
			if !okEv {
				bad = "the view is not updated with the delivered event"
			}
		}
		if bad != "" {
			r.Violate("C11.4", "submatview.eventStreamHandler", p.FuncPos(f), bad)
		} else {
			r.Hold("C11.4", "submatview.eventStreamHandler", p.FuncPos(f), "one update per delivery with the delivered events and index")
		}
	} else {
		r.Unresolve("C11.4", "submatview.eventStreamHandler", "not found")
	}
	// resumeStreamHandler
	if f := p.Func(matviewPkg, "resumeStreamHandler"); f != nil {
		var edges []core.Edge
		for _, in := range staticCallsNamed(f, "GetNewSnapshotToFollow") {
			te, _ := core.CondEdges(in.(ssa.Value))
			edges = append(edges, te...)
		}
		bad := ""
		if len(edges) == 0 {
			bad = "NewSnapshotToFollow is not distinguished: a stale view is extended instead of replaced"
		}
		for _, e := range edges {
			first := e.From.Succs[e.Succ]
			reset, snap := false, false
			for _, in := range first.Instrs {
				if ci, ok := in.(ssa.CallInstruction); ok {
					switch core.MethodNameOf(ci.Common()) {
					case "reset":
						reset = true
					case "newSnapshotHandler":
						snap = true
					}
				}
			}
			if !reset {
				bad = "the view is not reset when a new snapshot is announced: entries deleted while the subscriber was away stay in the view"
			} else if !snap {
				bad = "the handler after NewSnapshotToFollow is not the snapshot handler"
			}
		}
		if bad != "" {
			r.Violate("C11.4", "submatview.resumeStreamHandler", p.FuncPos(f), bad)
		} else {
			r.Hold("C11.4", "submatview.resumeStreamHandler", p.FuncPos(f), "reset, then snapshot handler")
		}
	} else {
		r.Unresolve("C11.4", "submatview.resumeStreamHandler", "not found")
	}
	// initialHandler
	if f := p.Func(matviewPkg, "initialHandler"); f != nil {
		bad := "structure not found"
		for _, b := range f.Blocks {
			for _, in := range b.Instrs {
				if cmp, ok := in.(*ssa.BinOp); ok && cmp.Op == token.EQL && cmp.X == ssa.Value(f.Params[0]) {
					if k, ok := core.ConstInt(cmp.Y); ok && k == 0 {
						te, fe := core.CondEdges(cmp)
						okT, okF := false, false
						for _, e := range te {
							for _, x := range e.From.Succs[e.Succ].Instrs {
								if ci, ok := x.(ssa.CallInstruction); ok && core.MethodNameOf(ci.Common()) == "newSnapshotHandler" {
									okT = true
								}
							}
						}
						for _, e := range fe {
							for _, x := range e.From.Succs[e.Succ].Instrs {
								if rt, ok := x.(*ssa.Return); ok {
									v := rt.Results[0]
									if ct, ok := v.(*ssa.ChangeType); ok {
										v = ct.X
									}
									if fn, ok := v.(*ssa.Function); ok && fn.Name() == "resumeStreamHandler" {
										okF = true
									}
								}
							}
						}
						if okT && okF {
							bad = ""
						} else {
							bad = fmt.Sprintf("index 0 → snapshot handler: %v; index > 0 → resume handler: %v", okT, okF)
						}
					}
				}
			}
		}
		if bad != "" {
			r.Violate("C11.4", "submatview.initialHandler", p.FuncPos(f), bad)
		} else {
			r.Hold("C11.4", "submatview.initialHandler", p.FuncPos(f), "no view → snapshot handler; otherwise the resume handler, which honours NewSnapshotToFollow")
		}
	} else {
		r.Unresolve("C11.4", "submatview.initialHandler", "not found")
	}
	// materializer.updateView / reset: index stores
	nIdx := 0
	for _, f := range p.SrcFuncs(matviewPkg) {
		for _, b := range f.Blocks {
			for _, in := range b.Instrs {
				st, ok := in.(*ssa.Store)
				if !ok {
					continue
				}
				fa, ok := st.Addr.(*ssa.FieldAddr)
				if !ok || core.FieldObj(fa).Name() != "index" {
					continue
				}
				if nt := core.NamedOf(fa.X.Type()); nt == nil || nt.Obj().Name() != "materializer" {
					continue
				}
				if _, fresh := fa.X.(*ssa.Alloc); fresh {
					continue
				}
				nIdx++
				construct := core.FuncName(f) + "/index"
				if k, ok := core.ConstInt(st.Val); ok && k == 0 {
					// reset: the view is reset in the same function
					if len(staticCallsNamed(f, "Reset")) > 0 {
						r.Hold("C11.4", construct, p.Pos(st.Pos()), "index zeroed together with the view")
					} else {
						r.Violate("C11.4", construct, p.Pos(st.Pos()), "the index is zeroed without resetting the view")
					}
					continue
				}
				if par, ok := st.Val.(*ssa.Parameter); !ok || par.Name() != "index" {
					r.Violate("C11.4", construct, p.Pos(st.Pos()), "the view index is assigned from something other than the delivered index")
					continue
				}
				// below the view.Update success edge
				upd := staticCallsNamed(f, "Update")
				if len(upd) == 0 || !core.CutMakesUnreachable(f, nil, nilErrEdges(upd[0]), st) {
					r.Violate("C11.4", construct, p.Pos(st.Pos()), "the view index advances although the view did not accept the events")
				} else {
					r.Hold("C11.4", construct, p.Pos(st.Pos()), "assigned from the delivered index, after the view accepted the events")
				}
			}
		}
	}
	if nIdx < 2 {
		r.MissingInstance("C11.4", "<index-stores>", fmt.Sprintf("only %d stores to materializer.index", nIdx))
	}
	r.Floor("C11.4", 6)
}

// ---- C11.7
func c11Splice(c *Ctx) {
	p, r := c.P, c.R
	if f := p.Func(streamPkg, "(*eventSnapshot).spliceFromTopicBuffer"); f == nil {
		r.Unresolve("C11.7", "stream.(*eventSnapshot).spliceFromTopicBuffer", "not found")
	} else {
		idx := f.Params[len(f.Params)-1]
		// comparisons of the function and of the predicates it calls (core.Comparisons)
		cmps := core.Comparisons(f, 2)
		var gtTrue []core.Edge
		gtFound := false
		for _, cmp := range cmps {
			switch {
			case cmp.Op == token.GTR && cmp.Y == ssa.Value(idx) && core.AccessOf(cmp.X).LastField() == "Index":
				gtFound = true
				gtTrue = append(gtTrue, cmp.True...)
			case cmp.Op == token.LSS && cmp.X == ssa.Value(idx) && core.AccessOf(cmp.Y).LastField() == "Index":
				gtFound = true
				gtTrue = append(gtTrue, cmp.True...)
			}
		}
		bad := ""
		if !gtFound {
			bad = "the join point is not the first item with an index strictly larger than the snapshot's: events already contained in the snapshot are replayed, or newer ones skipped"
		} else {
			// AppendItem calls: each lies below the gt-true edge, an Err != nil edge, or the end-of-buffer (!ok) edge
			var okEdges []core.Edge
			okEdges = append(okEdges, gtTrue...)
			for _, cmp := range cmps {
				if cmp.Op == token.NEQ && core.IsNilConst(cmp.Y) && core.AccessOf(cmp.X).LastField() == "Err" {
					okEdges = append(okEdges, cmp.True...)
				}
			}
			for _, in := range staticCallsNamed(f, "NextNoBlock") {
				if v, ok := in.(ssa.Value); ok && v.Referrers() != nil {
					for _, rr := range *v.Referrers() {
						if ex, ok := rr.(*ssa.Extract); ok && ex.Index == 1 {
							_, fe := core.CondEdges(ex)
							okEdges = append(okEdges, fe...)
						}
					}
				}
			}
			for _, ap := range staticCallsNamed(f, "AppendItem") {
				if !core.CutMakesUnreachable(f, nil, okEdges, ap) {
					bad = "the live buffer is joined at " + p.Pos(ap.Pos()) + " on a path that is neither 'index larger than the snapshot', 'error item' nor 'end of buffer'"
				}
			}
		}
		if bad != "" {
			r.Violate("C11.7", "stream.(*eventSnapshot).spliceFromTopicBuffer", p.FuncPos(f), bad)
		} else {
			r.Hold("C11.7", "stream.(*eventSnapshot).spliceFromTopicBuffer", p.FuncPos(f), "joined at the first item with a strictly larger index, at an error item, or at the end of the buffer")
		}
	}
	if f := p.Func(streamPkg, "(*eventSnapshot).appendAndSplice"); f == nil {
		r.Unresolve("C11.7", "stream.(*eventSnapshot).appendAndSplice", "not found")
	} else {
		// the dynamic call of the snapshot func; its index flows to the endOfSnapshot event and to the splice
		var dyn *ssa.Call
		for _, b := range f.Blocks {
			for _, in := range b.Instrs {
				if call, ok := in.(*ssa.Call); ok && call.Call.StaticCallee() == nil && !call.Call.IsInvoke() {
					if _, isB := call.Call.Value.(*ssa.Builtin); !isB {
						dyn = call
					}
				}
			}
		}
		bad := ""
		if dyn == nil {
			bad = "the snapshot function is not called"
		} else {
			fromDyn := func(v ssa.Value) bool {
				for _, leaf := range core.Leaves(v, core.SliceOpts{}) {
					switch x := leaf.(type) {
					case *ssa.Call:
						if x != dyn {
							return false
						}
					case *ssa.Const:
						if k, ok := core.ConstInt(x); !ok || k != 1 {
							return false
						}
					default:
						return false
					}
				}
				return true
			}
			sp := staticCallsNamed(f, "spliceFromTopicBuffer")
			if len(sp) != 1 {
				bad = "the live buffer is not spliced onto the snapshot"
			} else {
				args := sp[0].(ssa.CallInstruction).Common().Args
				if !fromDyn(args[len(args)-1]) {
					bad = "the splice index is not the snapshot's index"
				}
				if !core.CutMakesUnreachable(f, dyn, nilErrEdges(dyn), sp[0]) {
					bad = "a failed snapshot is spliced to the live buffer"
				}
			}
			// the end-of-snapshot marker
			okMarker := false
			for _, b := range f.Blocks {
				for _, in := range b.Instrs {
					if st, ok := in.(*ssa.Store); ok {
						if fa, ok := st.Addr.(*ssa.FieldAddr); ok && core.FieldObj(fa).Name() == "Index" {
							if nt := core.NamedOf(fa.X.Type()); nt != nil && nt.Obj().Name() == "Event" && fromDyn(st.Val) {
								okMarker = true
							}
						}
					}
				}
			}
			if bad == "" && !okMarker {
				bad = "the end-of-snapshot marker does not carry the snapshot's index: the client's view index is wrong from the first delivery"
			}
		}
		if bad != "" {
			r.Violate("C11.7", "stream.(*eventSnapshot).appendAndSplice", p.FuncPos(f), bad)
		} else {
			r.Hold("C11.7", "stream.(*eventSnapshot).appendAndSplice", p.FuncPos(f), "marker and splice use the snapshot's index; failures are not spliced")
		}
	}
	// Subscribe: resume / snapshot / new-snapshot-to-follow
	if f := p.Func(streamPkg, "(*EventPublisher).Subscribe"); f == nil {
		r.Unresolve("C11.7", "stream.(*EventPublisher).Subscribe", "not found")
	} else {
		req := f.Params[1]
		isReqIndex := func(v ssa.Value) bool {
			a := core.AccessOf(v)
			return a.Root == ssa.Value(req) && a.LastField() == "Index"
		}
		var hasIdxTrue, idxPos, idxZero []core.Edge
		for _, in := range staticCallsNamed(f, "HasEventIndex") {
			call := in.(*ssa.Call)
			if isReqIndex(call.Call.Args[len(call.Call.Args)-1]) {
				te, _ := core.CondEdges(call)
				hasIdxTrue = append(hasIdxTrue, te...)
			}
		}
		for _, b := range f.Blocks {
			for _, in := range b.Instrs {
				cmp, ok := in.(*ssa.BinOp)
				if !ok || !isReqIndex(cmp.X) {
					continue
				}
				if k, ok := core.ConstInt(cmp.Y); !ok || k != 0 {
					continue
				}
				te, fe := core.CondEdges(cmp)
				switch cmp.Op {
				case token.GTR, token.NEQ:
					idxPos = append(idxPos, te...)
					idxZero = append(idxZero, fe...)
				case token.EQL:
					idxZero = append(idxZero, te...)
					idxPos = append(idxPos, fe...)
				}
			}
		}
		bad := ""
		// the resume path: the AppendItem of the head's successor
		var resumeSplice ssa.Instruction
		for _, in := range staticCallsNamed(f, "AppendItem") {
			args := in.(ssa.CallInstruction).Common().Args
			for _, leaf := range core.Leaves(args[len(args)-1], core.SliceOpts{}) {
				if call, ok := leaf.(*ssa.Call); ok {
					if g := call.Call.StaticCallee(); g != nil && g.Name() == "NextNoBlock" {
						resumeSplice = in
					}
				}
			}
		}
		if resumeSplice == nil {
			bad = "resume path not found"
		} else if len(hasIdxTrue) == 0 || !core.CutMakesUnreachable(f, nil, hasIdxTrue, resumeSplice) {
			bad = "a subscription resumes on the live buffer without the requested index being at the buffer head: every change between the client's index and the head is skipped"
		}
		// NewSnapshotToFollow: the marker is appended on every path where Index != 0 and no resume
		var marker ssa.Instruction
		for _, b := range f.Blocks {
			for _, in := range b.Instrs {
				if mi, ok := in.(*ssa.MakeInterface); ok {
					if nt := core.NamedOf(mi.X.Type()); nt != nil && nt.Obj().Name() == "newSnapshotToFollow" {
						marker = in
					}
				}
			}
		}
		if bad == "" {
			if marker == nil {
				bad = "NewSnapshotToFollow is never sent: a client with a stale view merges the new snapshot into it"
			} else {
				// the snapshot-without-marker return lies below Index == 0
				for _, in := range staticCallsNamed(f, "add") {
					args := in.(ssa.CallInstruction).Common().Args
					if core.AccessOf(args[len(args)-2]).LastField() != "First" {
						continue
					}
					// which snapshot's First? the cached one (no marker) or result (with marker)
					viaMarker := false
					for _, leaf := range core.Leaves(args[len(args)-2], core.SliceOpts{}) {
						_ = leaf
					}
					mf := &core.MustFlow{F: f, Gen: func(x ssa.Instruction) []string {
						if x == marker {
							return []string{"marker"}
						}
						return nil
					}}
					mf.Run()
					if s, ok := mf.At(in); ok && s["marker"] {
						viaMarker = true
					}
					if !viaMarker && (len(idxZero) == 0 || !core.CutMakesUnreachable(f, nil, idxZero, in)) {
						bad = "a snapshot is handed out without NewSnapshotToFollow to a subscriber whose index is not zero: its stale view is not reset"
					}
				}
			}
		}
		_ = idxPos
		if bad != "" {
			r.Violate("C11.7", "stream.(*EventPublisher).Subscribe", p.FuncPos(f), bad)
		} else {
			r.Hold("C11.7", "stream.(*EventPublisher).Subscribe", p.FuncPos(f), "resume only when the index is at the head; plain snapshot only for index 0; otherwise NewSnapshotToFollow first")
		}
	}
	r.Floor("C11.7", 3)
}

// ---- C11.8: published events are shared between subscribers. No function of the
// stream package (nor an event payload method in package state) may write into
// the backing array of an event slice it was handed: neither by storing to an
// element nor by the in-place filter idiom (x[:0] followed by append).
func c11SharedEventsImmutable(c *Ctx) {
	p, r := c.P, c.R
	isEventSlice := func(t types.Type) bool {
		sl, ok := t.Underlying().(*types.Slice)
		if !ok {
			return false
		}
		nt := core.NamedOf(sl.Elem())
		return nt != nil && nt.Obj().Name() == "Event" && nt.Obj().Pkg() != nil && strings.HasSuffix(nt.Obj().Pkg().Path(), "/"+streamPkg)
	}
	local := func(v ssa.Value) bool {
		// built in this function (make / literal / append chain rooted at one of those or nil)
		seen := map[ssa.Value]bool{}
		var visit func(v ssa.Value) bool
		visit = func(v ssa.Value) bool {
			if seen[v] {
				return true
			}
			seen[v] = true
			switch x := v.(type) {
			case *ssa.MakeSlice:
				return true
			case *ssa.Const:
				return true // nil
			case *ssa.Slice:
				if al, ok := x.X.(*ssa.Alloc); ok {
					_ = al
					return true // array literal
				}
				return visit(x.X)
			case *ssa.Phi:
				for _, e := range x.Edges {
					if !visit(e) {
						return false
					}
				}
				return true
			case *ssa.Call:
				if bi, ok := x.Call.Value.(*ssa.Builtin); ok && bi.Name() == "append" {
					return visit(x.Call.Args[0])
				}
				return false
			}
			return false
		}
		return visit(v)
	}
	n := 0
	nFns := 0
	for _, rel := range []string{streamPkg, statePkg} {
		for _, f := range p.SrcFuncs(rel) {
			if rel == statePkg && !(f.Signature.Recv() != nil && strings.HasPrefix(core.ShortType(f.Signature.Recv().Type()), "state.EventPayload")) {
				continue
			}
			nFns++
			for _, b := range f.Blocks {
				for _, in := range b.Instrs {
					bad := ""
					switch x := in.(type) {
					case *ssa.Store:
						if ia, ok := x.Addr.(*ssa.IndexAddr); ok && isEventSlice(ia.X.Type()) && !local(ia.X) {
							bad = "an element of an event slice handed to this function is overwritten"
						}
					case *ssa.Call:
						if bi, ok := x.Call.Value.(*ssa.Builtin); ok && bi.Name() == "append" && isEventSlice(x.Type()) {
							// appending to a zero-length reslice of somebody else's slice
							if sl, ok := x.Call.Args[0].(*ssa.Slice); ok && !local(sl.X) {
								if k, ok := core.ConstInt(sl.High); ok && k == 0 {
									bad = "in-place filter: append onto x[:0] of an event slice handed to this function overwrites its elements"
								}
							}
							if phi, ok := x.Call.Args[0].(*ssa.Phi); ok {
								for _, e := range phi.Edges {
									if sl, ok := e.(*ssa.Slice); ok && !local(sl.X) {
										if k, ok := core.ConstInt(sl.High); ok && k == 0 {
											bad = "in-place filter: append onto x[:0] of an event slice handed to this function overwrites its elements"
										}
									}
								}
							}
						}
					}
					if bad != "" {
						n++
						r.Violate("C11.8", core.FuncName(f), p.Pos(in.Pos()), bad+": the slice is the batch held in the shared topic buffer (and in cached snapshots), so what one subscriber's token may not see is removed — and another event duplicated — for every other subscriber reading that buffer item")
					}
				}
			}
		}
	}
	if n == 0 {
		r.Hold("C11.8", "stream", "", fmt.Sprintf("%d functions: no write into an event slice that was handed in", nFns))
	}
	if nFns < 60 {
		r.MissingInstance("C11.8", "<functions>", fmt.Sprintf("only %d functions", nFns))
	}
}

// ---- C11.9: the state store's snapshot handlers against their subjects' cache keys
func c11SubjectKeys(c *Ctx) {
	p, r := c.P, c.R
	var handlers []*ssa.Function
	for _, f := range p.SrcFuncs(statePkg) {
		// every function of the package except the subjects' own String methods (the key itself)
		if f.Name() == "String" {
			continue
		}
		handlers = append(handlers, f)
	}
	n := subjectKeyCoverage(c, "C11.9", statePkg, "state", handlers, func(fv *types.Var) string {
		if strings.HasSuffix(core.ShortType(fv.Type()), "acl.EnterpriseMeta") {
			return "enterprise metadata: a single fixed value in this (community) build, so it cannot distinguish two requests"
		}
		return ""
	})
	if n < 5 {
		r.MissingInstance("C11.9", "<subject fields>", fmt.Sprintf("only %d subject fields read by snapshot handlers (%d handlers)", n, len(handlers)))
	}
}


// C11.10: event generation builds the slices it hands out from fresh storage. An append whose
// base is (a window of) a slice the function did not create — a captured variable, a parameter, a
// field, a map element — and whose result is handed on as a NEW slice (returned, stored into a
// payload; not assigned back to the variable the base came from) writes into the base's spare
// capacity: the next call appends over it, and an event already built for one service ends up
// carrying another service's checks. (`s[:len(s)]` does not clip capacity; `s[:n:n]` does.)
func c11FreshEventSlices(c *Ctx) {
	p, r := c.P, c.R
	n := 0
	var fresh func(v ssa.Value, depth int) bool
	visiting := map[ssa.Value]bool{}
	fresh = func(v ssa.Value, depth int) bool {
		if depth > 12 {
			return false
		}
		// an accumulator refers to itself through its own appends / loop phis: neutral
		if visiting[v] {
			return true
		}
		visiting[v] = true
		defer delete(visiting, v)
		switch x := v.(type) {
		case *ssa.MakeSlice:
			return true
		case *ssa.Const:
			return x.IsNil()
		case *ssa.Slice:
			// a full slice expression with max == high clips the capacity: appends reallocate
			if x.Max != nil && x.High != nil && x.Max == x.High {
				return true
			}
			if al, ok := x.X.(*ssa.Alloc); ok {
				_ = al
				return true // slice of a local array literal
			}
			return fresh(x.X, depth+1)
		case *ssa.Call:
			if bi, ok := x.Call.Value.(*ssa.Builtin); ok && bi.Name() == "append" {
				return fresh(x.Call.Args[0], depth+1)
			}
			return false
		case *ssa.Phi:
			for _, e := range x.Edges {
				if e == v {
					continue
				}
				if !fresh(e, depth+1) {
					return false
				}
			}
			return true
		case *ssa.UnOp:
			if x.Op == token.MUL {
				if al, ok := x.X.(*ssa.Alloc); ok {
					stores := core.StoresTo(al)
					if len(stores) == 0 {
						return true // zero value: nil slice
					}
					for _, sv := range stores {
						if !fresh(sv, depth+1) {
							return false
						}
					}
					return true
				}
			}
			return false
		}
		return false
	}
	for _, f := range p.SrcFuncs(statePkg) {
		file := p.Fset.Position(f.Pos()).Filename
		if !strings.Contains(filepath.Base(file), "events") {
			continue
		}
		for _, b := range f.Blocks {
			for _, in := range b.Instrs {
				call, ok := in.(*ssa.Call)
				if !ok {
					continue
				}
				if bi, ok := call.Call.Value.(*ssa.Builtin); !ok || bi.Name() != "append" {
					continue
				}
				base := call.Call.Args[0]
				n++
				if fresh(base, 0) {
					continue
				}
				// assigned back to where the base came from (x = append(x, …), s.f = append(s.f, …)): same owner
				back := false
				ba := core.AccessOf(base)
				if call.Referrers() != nil {
					for _, rr := range *call.Referrers() {
						switch u := rr.(type) {
						case *ssa.Store:
							ta := core.AccessOf(u.Addr)
							if ta.Root == ba.Root && strings.Join(ta.Fields, ".") == strings.Join(ba.Fields, ".") {
								back = true
							}
							if ld, ok := base.(*ssa.UnOp); ok && ld.X == u.Addr {
								back = true
							}
						case *ssa.MapUpdate:
							if lk, ok := base.(*ssa.Lookup); ok {
								la, ua := core.AccessOf(lk.X), core.AccessOf(u.Map)
								if lk.X == u.Map || (la.Root == ua.Root && strings.Join(la.Fields, ".") == strings.Join(ua.Fields, ".")) {
									back = true
								}
							}
						case *ssa.Phi:
							// loop-carried accumulator of a base that is itself the phi
							if u == base {
								back = true
							}
						}
					}
				}
				if ph, ok := base.(*ssa.Phi); ok {
					for _, e := range ph.Edges {
						if e == ssa.Value(call) {
							back = true
						}
					}
				}
				if back {
					continue
				}
				construct := core.FuncName(f) + "/append" + lineOf(p, in)
				r.Violate("C11.10", construct, p.Pos(in.Pos()), "an event-generation helper appends to a slice it did not create and hands the result on as a new slice: the appended elements are written into the shared backing array, so the slice built for one subject is overwritten by the next call and a published event carries another subject's data")
			}
		}
	}
	if n == 0 {
		r.MissingInstance("C11.10", "<appends>", "no append found in the event generators")
	} else {
		r.Hold("C11.10", "<event generators>", "", fmt.Sprintf("%d appends, each on fresh storage or assigned back to the slice it extends", n))
	}
}
