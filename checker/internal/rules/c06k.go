package rules

import (
	"strings"

	"golang.org/x/tools/go/ssa"

	"verifcheck/internal/core"
)

// C06.K — per-service index keys are built from the service NAME. The
// functions that build, bump or read the per-service index take the name as
// a string parameter; at every call site the argument must not be taken
// from an ID field (service ID, check ID): readers look the index up by
// name, so a bump under the ID lands on a row nobody reads.
func checkServiceIndexKeyIsName(c *Ctx) {
	p, r := c.P, c.R
	// functions with a string parameter whose name says "service name"
	nameParam := map[*ssa.Function]int{}
	for _, f := range p.SrcFuncs(statePkg) {
		if f.Parent() != nil {
			continue
		}
		if !strings.Contains(strings.ToLower(f.Name()), "index") && !strings.Contains(f.Name(), "ForService") {
			continue
		}
		for i, prm := range f.Params {
			ln := strings.ToLower(prm.Name())
			if core.ShortType(prm.Type()) == "string" && (ln == "servicename" || ln == "service" || ln == "name") {
				nameParam[f] = i
			}
		}
	}
	n := 0
	perFn := map[string]int{}
	for _, f := range p.SrcFuncs(statePkg) {
		for _, b := range f.Blocks {
			for _, in := range b.Instrs {
				ci, ok := in.(ssa.CallInstruction)
				if !ok {
					continue
				}
				g := ci.Common().StaticCallee()
				idx, ok := nameParam[g]
				if g == nil || !ok || idx >= len(ci.Common().Args) {
					continue
				}
				arg := ci.Common().Args[idx]
				a := core.AccessOf(arg)
				lf := a.LastField()
				if lf == "" {
					continue // a parameter or local handed on: judged where it is filled
				}
				n++
				base := core.FuncName(f) + "→" + g.Name()
				perFn[base]++
				construct := base
				if perFn[base] > 1 {
					construct = base + "#" + itoaSmall(perFn[base])
				}
				if lf == "ServiceID" || lf == "ID" || lf == "CheckID" {
					r.Violate("C06.K", construct, p.Pos(in.Pos()), "the per-service index key is built from "+strings.Join(a.Fields, ".")+", an ID, where the service name belongs: instances whose ID differs from their service name bump (or read) a row nobody else uses, so the query's result changes while the index its readers watch stays")
				} else {
					r.Hold("C06.K", construct, p.Pos(in.Pos()), "keyed by "+strings.Join(a.Fields, "."))
				}
			}
		}
	}
	r.Floor("C06.K", 8)
}

func itoaSmall(i int) string {
	if i < 10 {
		return string(rune('0' + i))
	}
	return itoaSmall(i/10) + string(rune('0'+i%10))
}
