package rules

import (
	"fmt"
	"go/constant"
	"go/token"
	"go/types"
	"regexp"
	"sort"
	"strings"

	"golang.org/x/tools/go/ssa"

	"verifcheck/internal/core"
)

func init() {
	register(&Rule{ID: "C08", Patterns: []string{"./acl", "./agent/structs", "./agent/consul"}, Run: runC08})
}

const aclPkg = "acl"

func constOf(p *core.Program, rel, name string) (constant.Value, bool) {
	pk := p.Pkg(rel)
	if pk == nil {
		return nil, false
	}
	k, ok := pk.Types.Scope().Lookup(name).(*types.Const)
	if !ok {
		return nil, false
	}
	return k.Val(), true
}

func runC08(c *Ctx) {
	r := c.R
	defer checkHashRecomputedOnWrite(c)
	r.Clauses = []string{
		"C08.7 every ACL object the servers write (endpoints, leader bootstrap/upgrade paths) gets its content hash recomputed unconditionally (SetHash(true)): the parsed-policy cache and the replication diff are keyed by that hash, so a hash carried over from a read-modify-write would make the authorizer keep deciding by the old rules",
		"C08.1 the two precedence functions, evaluated over their whole finite input domain, give the documented total order deny > write > list > read and the documented grant table",
		"C08.2 merging a token's policies never mutates a rule object that is shared with the parsed-policy cache (no in-place store through a merge-map entry that aliases an input rule)",
		"C08.3 every policyAuthorizer method asks for the access level its name says and siblings of one resource consult the same rule tree; chained and allow authorizers delegate to the like-named method with their own arguments",
		"C08.6 the per-leaf decision of the any-allowed / all-allowed walks (ServiceReadAll, ServiceWriteAny, wildcard intentions …) evaluates the leaf's prefix rule on every path on which the leaf has one: an exact rule of the same name must not hide it, because the prefix rule also governs every longer name",
		"C08.5 the functions that combine the identities and templated policies of a token's roles (Deduplicate) never write through, or sort in place, an element of their input: the inputs are the role objects held in the cache / state store, shared by every token that uses the role",
		"C08.4 the authorizer cache key folds ID and ModifyIndex of every policy of the receiver that is compiled; the parsed-policy cache key is the policy's content hash",
	}
	r.NotDecided = []string{"longest-prefix / exact selection in the radix walk (library semantics)", "equivalence with the documented semantics for all policy sets"}

	checkAccessPrecedence(c)
	checkMergeAliasing(c)
	checkAuthorizerWiring(c)
	checkCacheKeys(c)
}

// C08.1
func checkAccessPrecedence(c *Ctx) {
	p, r := c.P, c.R
	// takesPrecedenceOver over {deny, write, list, read, other}²
	tp := p.Func(aclPkg, "takesPrecedenceOver")
	if tp == nil {
		r.Unresolve("C08.1", "acl.takesPrecedenceOver", "not found")
	} else {
		names := []string{"PolicyDeny", "PolicyWrite", "PolicyList", "PolicyRead"}
		rank := map[string]int{"PolicyDeny": 4, "PolicyWrite": 3, "PolicyList": 2, "PolicyRead": 1, "<other>": 0}
		type cell struct {
			n string
			v core.AbsVal
		}
		var dom []cell
		for _, n := range names {
			cv, ok := constOf(p, aclPkg, n)
			if !ok {
				r.Unresolve("C08.1", "acl."+n, "constant not found")
				return
			}
			dom = append(dom, cell{n, core.AbsConst(cv)})
		}
		dom = append(dom, cell{"<other>", core.AbsOther()})
		for _, a := range dom {
			for _, b := range dom {
				construct := fmt.Sprintf("takesPrecedenceOver(%s,%s)", a.n, b.n)
				if a.n == "<other>" && b.n == "<other>" {
					continue
				}
				res, ok, why := core.EvalFinite(tp, []core.AbsVal{a.v, b.v}, 0)
				if !ok || len(res) != 1 || res[0].Kind != 'c' {
					r.Undecide("C08.1", construct, p.FuncPos(tp), "the function left the finite fragment: "+why)
					continue
				}
				got := constant.BoolVal(res[0].C)
				switch {
				case rank[a.n] > rank[b.n] && !got:
					r.Violate("C08.1", construct, p.FuncPos(tp), fmt.Sprintf("%s must take precedence over %s (deny > write > list > read) but the function says no: with two policies giving a rule for the same name the weaker one wins", a.n, b.n))
				case rank[a.n] < rank[b.n] && got:
					r.Violate("C08.1", construct, p.FuncPos(tp), fmt.Sprintf("%s must not take precedence over %s but the function says yes", a.n, b.n))
				default:
					r.Hold("C08.1", construct, p.FuncPos(tp), fmt.Sprintf("= %v", got))
				}
			}
		}
	}
	// enforce over AccessLevel²
	ef := p.Func(aclPkg, "enforce")
	if ef == nil {
		r.Unresolve("C08.1", "acl.enforce", "not found")
		return
	}
	lv := map[string]core.AbsVal{}
	for _, n := range []string{"AccessDeny", "AccessRead", "AccessList", "AccessWrite", "AccessUnknown"} {
		cv, ok := constOf(p, aclPkg, n)
		if !ok {
			r.Unresolve("C08.1", "acl."+n, "constant not found")
			return
		}
		lv[n] = core.AbsConst(cv)
	}
	dec := map[string]constant.Value{}
	for _, n := range []string{"Allow", "Deny", "Default"} {
		cv, ok := constOf(p, aclPkg, n)
		if !ok {
			r.Unresolve("C08.1", "acl."+n, "constant not found")
			return
		}
		dec[n] = cv
	}
	want := func(rule, req string) string {
		switch rule {
		case "AccessWrite":
			return "Allow"
		case "AccessList":
			if req == "AccessList" || req == "AccessRead" {
				return "Allow"
			}
			return "Deny"
		case "AccessRead":
			if req == "AccessRead" {
				return "Allow"
			}
			return "Deny"
		case "AccessDeny":
			return "Deny"
		}
		return "Default"
	}
	for _, rule := range []string{"AccessDeny", "AccessRead", "AccessList", "AccessWrite", "AccessUnknown"} {
		for _, req := range []string{"AccessRead", "AccessList", "AccessWrite"} {
			construct := fmt.Sprintf("enforce(%s,%s)", rule, req)
			res, ok, why := core.EvalFinite(ef, []core.AbsVal{lv[rule], lv[req]}, 0)
			if !ok || len(res) != 1 || res[0].Kind != 'c' {
				r.Undecide("C08.1", construct, p.FuncPos(ef), "the function left the finite fragment: "+why)
				continue
			}
			w := want(rule, req)
			if constant.Compare(res[0].C, token.EQL, dec[w]) {
				r.Hold("C08.1", construct, p.FuncPos(ef), "= "+w)
			} else {
				got := "?"
				for n, v := range dec {
					if constant.Compare(res[0].C, token.EQL, v) {
						got = n
					}
				}
				r.Violate("C08.1", construct, p.FuncPos(ef), fmt.Sprintf("a %s rule asked for %s must give %s (write ⊇ list ⊇ read, deny denies, no rule defers) but gives %s", rule, req, w, got))
			}
		}
	}
	r.Floor("C08.1", 39)
}

// C08.2
func checkMergeAliasing(c *Ctx) {
	p, r := c.P, c.R
	// functions of package acl that are methods of the merge context
	var ctxFns []*ssa.Function
	for _, f := range p.SrcFuncs(aclPkg) {
		if f.Signature.Recv() == nil {
			continue
		}
		if n := core.NamedOf(f.Signature.Recv().Type()); n != nil && n.Obj().Name() == "policyRulesMergeContext" {
			ctxFns = append(ctxFns, f)
		}
	}
	if len(ctxFns) == 0 {
		r.Unresolve("C08.2", "acl.policyRulesMergeContext", "merge context type not found")
		return
	}
	// per map field: aliased inserts (value derives from a parameter other than the receiver) and in-place mutations through lookups
	type site struct {
		pos string
		fn  string
	}
	aliased := map[string][]site{}
	mutated := map[string][]site{}
	mapFieldOf := func(v ssa.Value) string {
		// v is the map value: load of FieldAddr(recv, field)
		a := core.AccessOf(v)
		if len(a.Fields) == 0 {
			return ""
		}
		return a.LastField()
	}
	for _, f := range ctxFns {
		for _, b := range f.Blocks {
			for _, in := range b.Instrs {
				switch x := in.(type) {
				case *ssa.MapUpdate:
					mf := mapFieldOf(x.Map)
					if mf == "" {
						continue
					}
					if _, isPtr := x.Value.Type().Underlying().(*types.Pointer); !isPtr {
						continue
					}
					fromInput := false
					for _, leaf := range core.Leaves(x.Value, core.SliceOpts{}) {
						if prm, ok := leaf.(*ssa.Parameter); ok && core.ParamIndex(prm) > 0 {
							fromInput = true
						}
					}
					// a fresh local copy (&cp where cp := *sp) is an Alloc: its address is not an input pointer
					if _, isAlloc := x.Value.(*ssa.Alloc); isAlloc {
						fromInput = false
					}
					if fromInput {
						aliased[mf] = append(aliased[mf], site{p.Pos(x.Pos()), core.FuncName(f)})
					}
				case *ssa.Store:
					fa, ok := x.Addr.(*ssa.FieldAddr)
					if !ok {
						continue
					}
					// base derives from a Lookup on a merge-context map
					base := fa.X
					for {
						if inner, ok := base.(*ssa.FieldAddr); ok {
							base = inner.X
							continue
						}
						break
					}
					root := core.AccessOf(base).Root
					if ex, ok := root.(*ssa.Extract); ok {
						root = ex.Tuple
					}
					lk, ok := root.(*ssa.Lookup)
					if !ok {
						continue
					}
					mf := mapFieldOf(lk.X)
					if mf == "" {
						continue
					}
					mutated[mf] = append(mutated[mf], site{p.Pos(x.Pos()), core.FuncName(f)})
				}
			}
		}
	}
	// every map field of the context that holds pointers
	var fields []string
	if pk := p.Pkg(aclPkg); pk != nil {
		if tn, ok := pk.Types.Scope().Lookup("policyRulesMergeContext").(*types.TypeName); ok {
			if st, ok := tn.Type().Underlying().(*types.Struct); ok {
				for i := 0; i < st.NumFields(); i++ {
					if m, ok := st.Field(i).Type().Underlying().(*types.Map); ok {
						if _, isPtr := m.Elem().Underlying().(*types.Pointer); isPtr {
							fields = append(fields, st.Field(i).Name())
						}
					}
				}
			}
		}
	}
	sort.Strings(fields)
	for _, mf := range fields {
		construct := "policyRulesMergeContext." + mf
		switch {
		case len(aliased[mf]) > 0 && len(mutated[mf]) > 0:
			r.Violate("C08.2", construct, aliased[mf][0].pos, fmt.Sprintf("the merge map stores the input policy's own rule object (at %s) and later overwrites fields of the stored object in place (at %s): the parsed policy shared through the policy cache is modified, so a token holding only the weaker policy is granted what another token's stronger policy grants", aliased[mf][0].pos, mutated[mf][0].pos))
		case len(mutated[mf]) > 0:
			r.Hold("C08.2", construct, mutated[mf][0].pos, "entries are updated in place but every entry is a private copy")
		case len(aliased[mf]) > 0:
			r.Hold("C08.2", construct, aliased[mf][0].pos, "entries alias input rules but are only ever replaced, never written through")
		default:
			r.Hold("C08.2", construct, "", "no aliasing insert, no in-place update")
		}
	}
	r.Floor("C08.2", 10)
}

var levelRe = regexp.MustCompile(`^(.*?)(Read|Write|List)(All|Any|Prefix)?$`)

// C08.3
func checkAuthorizerWiring(c *Ctx) {
	p, r := c.P, c.R
	levelConst := map[string]int64{}
	for _, n := range []string{"AccessRead", "AccessWrite", "AccessList", "AccessDeny", "AccessUnknown"} {
		if cv, ok := constOf(p, aclPkg, n); ok {
			v, _ := constant.Int64Val(cv)
			levelConst[n] = v
		}
	}
	nameOfLevel := map[int64]string{}
	for n, v := range levelConst {
		nameOfLevel[v] = n
	}
	// AccessLevel-typed constants mentioned in a function (incl. its closures)
	var mentioned func(f *ssa.Function, out map[int64]bool, fields map[string]bool)
	mentioned = func(f *ssa.Function, out map[int64]bool, fields map[string]bool) {
		for _, b := range f.Blocks {
			for _, in := range b.Instrs {
				_, isCmp := in.(*ssa.BinOp)
				for _, op := range in.Operands(nil) {
					if *op == nil {
						continue
					}
					if k, ok := (*op).(*ssa.Const); ok && k.Value != nil {
						if nt, ok := types.Unalias(k.Type()).(*types.Named); ok && nt.Obj().Name() == "AccessLevel" {
							v, _ := constant.Int64Val(k.Value)
							if isCmp {
								out[v+1000] = true // mentioned in a comparison: a stronger level may stand in
							} else {
								out[v] = true
							}
						}
					}
				}
				if fa, ok := in.(*ssa.FieldAddr); ok {
					if n := core.NamedOf(fa.X.Type()); n != nil && n.Obj().Name() == "policyAuthorizer" {
						fields[core.FieldObj(fa).Name()] = true
					}
				}
			}
		}
		for _, a := range f.AnonFuncs {
			mentioned(a, out, fields)
		}
	}
	type info struct {
		f      *ssa.Function
		res    string
		level  string
		fields map[string]bool
	}
	byRes := map[string][]info{}
	nPA := 0
	for _, f := range p.SrcFuncs(aclPkg) {
		if f.Parent() != nil || f.Signature.Recv() == nil {
			continue
		}
		n := core.NamedOf(f.Signature.Recv().Type())
		if n == nil {
			continue
		}
		switch n.Obj().Name() {
		case "policyAuthorizer":
			if !f.Object().Exported() {
				continue
			}
			name := f.Name()
			want := ""
			res := name
			if m := levelRe.FindStringSubmatch(name); m != nil {
				res = m[1]
				want = "Access" + m[2]
			} else if name == "Snapshot" {
				want = "AccessWrite"
			} else {
				continue
			}
			nPA++
			lv := map[int64]bool{}
			fields := map[string]bool{}
			mentioned(f, lv, fields)
			byRes[res] = append(byRes[res], info{f, res, want, fields})
			construct := "policyAuthorizer." + name
			var bad []string
			strength := map[string]int{"AccessRead": 1, "AccessList": 2, "AccessWrite": 3}
			for v := range lv {
				inCmp := v >= 1000
				nm := nameOfLevel[v%1000]
				if nm == want || nm == "AccessDeny" || nm == "AccessUnknown" {
					continue
				}
				if inCmp && strength[nm] > strength[want] {
					continue // `access == read || access == write` in a read check: a stronger grant implies the weaker
				}
				bad = append(bad, nm)
			}
			sort.Strings(bad)
			if len(bad) > 0 {
				r.Violate("C08.3.level", construct, p.FuncPos(f), fmt.Sprintf("method %s asks the rule tree for %v where its name says %s: a token is granted (or refused) %s on the strength of a different access level", name, bad, want, name))
			} else {
				r.Hold("C08.3.level", construct, p.FuncPos(f), "asks for "+want)
			}
		case "ChainedAuthorizer":
			if !f.Object().Exported() || f.Signature.Results().Len() != 1 || core.ShortType(f.Signature.Results().At(0).Type()) != "acl.EnforcementDecision" {
				continue
			}
			// the closure handed to executeChain must invoke the like-named method with this method's parameters
			construct := "ChainedAuthorizer." + f.Name()
			okDelegate := false
			wrong := ""
			for _, a := range f.AnonFuncs {
				for _, b := range a.Blocks {
					for _, in := range b.Instrs {
						ci, ok := in.(ssa.CallInstruction)
						if !ok || !ci.Common().IsInvoke() {
							continue
						}
						if ci.Common().Method.Name() == f.Name() {
							okDelegate = true
							// arguments are the enclosing method's parameters (captured)
							for _, arg := range ci.Common().Args {
								if _, isFree := arg.(*ssa.FreeVar); !isFree {
									if ld, ok := arg.(*ssa.UnOp); ok {
										if _, isFree := ld.X.(*ssa.FreeVar); isFree {
											continue
										}
									}
									if _, isConst := arg.(*ssa.Const); isConst {
										continue
									}
									wrong = "passes something other than its own parameters"
								}
							}
						} else if core.ShortType(ci.Common().Signature().Results().At(0).Type()) == "acl.EnforcementDecision" {
							wrong = "delegates to " + ci.Common().Method.Name()
						}
					}
				}
			}
			if len(f.AnonFuncs) == 0 {
				continue
			}
			if okDelegate && wrong == "" {
				r.Hold("C08.3.delegate", construct, p.FuncPos(f), "delegates to the like-named method")
			} else {
				if wrong == "" {
					wrong = "does not call the like-named method of the chained authorizers"
				}
				r.Violate("C08.3.delegate", construct, p.FuncPos(f), "ChainedAuthorizer."+f.Name()+" "+wrong+": the chain answers a different question than the one asked")
			}
		case "AllowAuthorizer":
			if !strings.HasSuffix(f.Name(), "Allowed") {
				continue
			}
			wantM := strings.TrimSuffix(f.Name(), "Allowed")
			construct := "AllowAuthorizer." + f.Name()
			found, other := false, ""
			for _, b := range f.Blocks {
				for _, in := range b.Instrs {
					ci, ok := in.(ssa.CallInstruction)
					if !ok || !ci.Common().IsInvoke() {
						continue
					}
					if ci.Common().Signature().Results().Len() != 1 || core.ShortType(ci.Common().Signature().Results().At(0).Type()) != "acl.EnforcementDecision" {
						continue
					}
					if ci.Common().Method.Name() == wantM {
						found = true
					} else {
						other = ci.Common().Method.Name()
					}
				}
			}
			if found && other == "" {
				r.Hold("C08.3.delegate", construct, p.FuncPos(f), "checks "+wantM)
			} else {
				r.Violate("C08.3.delegate", construct, p.FuncPos(f), fmt.Sprintf("%s must check %s but checks %q", f.Name(), wantM, other))
			}
		}
	}
	// siblings of one resource consult the same rule tree
	var ress []string
	for k := range byRes {
		ress = append(ress, k)
	}
	sort.Strings(ress)
	for _, res := range ress {
		infos := byRes[res]
		var ref map[string]bool
		refName := ""
		bad := ""
		for _, in := range infos {
			if len(in.fields) == 0 {
				continue // delegates to siblings
			}
			if ref == nil {
				ref, refName = in.fields, in.f.Name()
				continue
			}
			// the rule-tree fields (those ending in Rules / Rule) must coincide
			a, b := ruleFields(ref), ruleFields(in.fields)
			if a != b {
				bad = fmt.Sprintf("%s consults %s but %s consults %s", refName, a, in.f.Name(), b)
			}
		}
		if res == "" {
			continue
		}
		construct := "policyAuthorizer." + res + "*"
		if bad != "" {
			r.Violate("C08.3.tree", construct, p.FuncPos(infos[0].f), "methods of one resource read different rule trees: "+bad)
		} else if ref != nil {
			r.Hold("C08.3.tree", construct, p.FuncPos(infos[0].f), "all levels consult "+ruleFields(ref))
		}
	}
	r.Floor("C08.3.level", 35)
	r.Floor("C08.3.delegate", 60)
	r.Floor("C08.3.tree", 12)
	_ = nPA
}

func ruleFields(m map[string]bool) string {
	var out []string
	for k := range m {
		if strings.HasSuffix(k, "Rules") || strings.HasSuffix(k, "Rule") {
			out = append(out, k)
		}
	}
	sort.Strings(out)
	return strings.Join(out, "+")
}

// C08.4
func checkCacheKeys(c *Ctx) {
	p, r := c.P, c.R
	for _, tn := range []string{"ACLPolicies", "ACLRoles"} {
		hk := p.Func("agent/structs", tn+".HashKey")
		if hk == nil {
			r.Unresolve("C08.4", "structs."+tn+".HashKey", "not found")
			continue
		}
		// inside a loop over the receiver, ID and ModifyIndex of the element flow into Write calls
		fieldsHashed := map[string]bool{}
		for _, b := range hk.Blocks {
			for _, in := range b.Instrs {
				ci, ok := in.(ssa.CallInstruction)
				if !ok {
					continue
				}
				mn := core.MethodNameOf(ci.Common())
				if mn != "Write" {
					continue
				}
				for _, a := range ci.Common().Args {
					for _, leaf := range core.Leaves(a, core.SliceOpts{}) {
						_ = leaf
					}
					collectFieldLoads(a, fieldsHashed, 0)
				}
			}
		}
		construct := "structs." + tn + ".HashKey"
		if fieldsHashed["ID"] && fieldsHashed["ModifyIndex"] {
			r.Hold("C08.4", construct, p.FuncPos(hk), "folds ID and ModifyIndex of every element")
		} else {
			r.Violate("C08.4", construct, p.FuncPos(hk), fmt.Sprintf("the cache key folds %v but must fold both ID and ModifyIndex of every element: after a policy is edited the authorizer compiled from its old rules keeps being served from the cache", sortedKeys(fieldsHashed)))
		}
	}
	cp := p.Func("agent/structs", "ACLPolicies.Compile")
	if cp == nil {
		r.Unresolve("C08.4", "structs.ACLPolicies.Compile", "not found")
		return
	}
	// the key used for GetAuthorizer/PutAuthorizer is HashKey() of the receiver that is parsed
	keyOK, parseOK := 0, false
	for _, b := range cp.Blocks {
		for _, in := range b.Instrs {
			ci, ok := in.(ssa.CallInstruction)
			if !ok {
				continue
			}
			mn := core.MethodNameOf(ci.Common())
			if mn == "GetAuthorizer" || mn == "PutAuthorizer" {
				args := core.CallArgs(ci.Common())
				if len(args) > 0 {
					if call, ok := args[0].(*ssa.Call); ok && core.MethodNameOf(&call.Call) == "HashKey" && len(call.Call.Args) == 1 && call.Call.Args[0] == ssa.Value(cp.Params[0]) {
						keyOK++
					}
				}
			}
			if mn == "resolveWithCache" && len(ci.Common().Args) > 0 && ci.Common().Args[0] == ssa.Value(cp.Params[0]) {
				parseOK = true
			}
		}
	}
	if keyOK >= 2 && parseOK {
		r.Hold("C08.4", "structs.ACLPolicies.Compile", p.FuncPos(cp), "authorizer cache is read and written under HashKey() of the receiver that is parsed")
	} else {
		r.Violate("C08.4", "structs.ACLPolicies.Compile", p.FuncPos(cp), "the authorizer cache key is not the hash of the policy set that is compiled: a token can be served an authorizer built from other policies")
	}
	r.Floor("C08.4", 3)
	checkCombinersDoNotWriteInputs(c)
	checkWildcardLeafConsidersPrefix(c)
}

func collectFieldLoads(v ssa.Value, out map[string]bool, depth int) {
	if depth > 6 || v == nil {
		return
	}
	switch x := v.(type) {
	case *ssa.UnOp:
		if x.Op == token.MUL {
			a := core.AccessOf(x)
			if lf := a.LastField(); lf != "" {
				out[lf] = true
			}
		}
		collectFieldLoads(x.X, out, depth+1)
	case *ssa.Convert:
		collectFieldLoads(x.X, out, depth+1)
	case *ssa.ChangeType:
		collectFieldLoads(x.X, out, depth+1)
	case *ssa.MakeInterface:
		collectFieldLoads(x.X, out, depth+1)
	case *ssa.Field:
		out[core.FieldObj(x).Name()] = true
	case *ssa.FieldAddr:
		out[core.FieldObj(x).Name()] = true
	}
}

// C08.5
func checkCombinersDoNotWriteInputs(c *Ctx) {
	p, r := c.P, c.R
	isCopy := func(v ssa.Value) bool {
		call, ok := v.(*ssa.Call)
		if !ok {
			return false
		}
		n := core.MethodNameOf(&call.Call)
		if g := call.Call.StaticCallee(); g != nil {
			n = g.Name()
		}
		return strings.Contains(n, "Clone") || strings.Contains(n, "Copy") || n == "MergeSorted"
	}
	n := 0
	for _, f := range p.SrcFuncs("agent/structs") {
		if f.Name() != "Deduplicate" || f.Signature.Recv() == nil {
			continue
		}
		n++
		recv := f.Params[0]
		name := core.FuncName(f)
		fromInput := func(v ssa.Value) bool {
			for _, leaf := range core.Leaves(v, core.SliceOpts{StopAt: isCopy}) {
				if leaf == ssa.Value(recv) {
					return true
				}
			}
			return false
		}
		bad := ""
		for _, b := range f.Blocks {
			for _, in := range b.Instrs {
				switch x := in.(type) {
				case *ssa.Store:
					if fa, ok := x.Addr.(*ssa.FieldAddr); ok {
						if _, isAlloc := fa.X.(*ssa.Alloc); !isAlloc && fromInput(fa.X) {
							bad = fmt.Sprintf("field %s of an input element is assigned at %s", core.FieldObj(fa).Name(), p.Pos(in.Pos()))
						}
					}
					if ia, ok := x.Addr.(*ssa.IndexAddr); ok {
						if _, isSlice := ia.X.Type().Underlying().(*types.Slice); isSlice && fromInput(ia.X) {
							if _, isMk := ia.X.(*ssa.MakeSlice); !isMk {
								bad = "an element of an input slice is overwritten at " + p.Pos(in.Pos())
							}
						}
					}
				case *ssa.Call:
					if cn := core.MethodNameOf(&x.Call); core.CalleePkgPath(&x.Call) == "sort" && !strings.Contains(cn, "Sorted") && !strings.HasPrefix(cn, "Search") {
						for _, a := range x.Call.Args {
							if fromInput(a) {
								bad = "a slice of an input element is sorted in place at " + p.Pos(in.Pos())
							}
						}
					}
				}
			}
		}
		if bad != "" {
			r.Violate("C08.5", name, p.FuncPos(f), bad+": the element is the role object shared through the cache / state store, so resolving one token changes what every other token using that role is granted (the decision depends on which tokens were resolved before)")
		} else {
			r.Hold("C08.5", name, p.FuncPos(f), "works on clones; inputs are only read")
		}
	}
	r.Floor("C08.5", 3)
}

// C08.6
func checkWildcardLeafConsidersPrefix(c *Ctx) {
	p, r := c.P, c.R
	isPrefixEnforce := func(in ssa.Instruction) bool {
		ci, ok := in.(ssa.CallInstruction)
		if !ok {
			return false
		}
		g := ci.Common().StaticCallee()
		if g == nil || g.Name() != "enforce" {
			return false
		}
		for _, a := range ci.Common().Args {
			acc := core.AccessOf(a)
			if acc.HasField("prefix") && acc.LastField() == "access" {
				return true
			}
		}
		return false
	}
	var must func(f *ssa.Function, stack map[*ssa.Function]bool) (bool, string)
	must = func(f *ssa.Function, stack map[*ssa.Function]bool) (bool, string) {
		if f == nil || f.Blocks == nil || stack[f] {
			return false, ""
		}
		stack[f] = true
		defer delete(stack, f)
		// edges on which the leaf has no prefix rule
		cut := map[core.Edge]bool{}
		for _, b := range f.Blocks {
			for _, in := range b.Instrs {
				cmp, ok := in.(*ssa.BinOp)
				if !ok || (cmp.Op != token.EQL && cmp.Op != token.NEQ) {
					continue
				}
				var other ssa.Value
				if core.IsNilConst(cmp.Y) {
					other = cmp.X
				} else if core.IsNilConst(cmp.X) {
					other = cmp.Y
				}
				if other == nil || core.AccessOf(other).LastField() != "prefix" {
					continue
				}
				te, fe := core.CondEdges(cmp)
				isNil := te
				if cmp.Op == token.NEQ {
					isNil = fe
				}
				for _, e := range isNil {
					cut[e] = true
				}
			}
		}
		mf := &core.MustFlow{F: f, Cut: func(b *ssa.BasicBlock, si int) bool { return cut[core.Edge{From: b, Succ: si}] },
			Gen: func(in ssa.Instruction) []string {
				if isPrefixEnforce(in) {
					return []string{"prefix"}
				}
				if ci, ok := in.(ssa.CallInstruction); ok {
					if g := ci.Common().StaticCallee(); g != nil && g.Pkg == f.Pkg && g.Name() != "enforce" {
						if ok2, _ := must(g, stack); ok2 {
							return []string{"prefix"}
						}
					}
				}
				return nil
			}}
		mf.Run()
		for _, rt := range core.Returns(f) {
			if s, ok := mf.At(rt); ok && !s["prefix"] {
				return false, p.Pos(rt.Pos())
			}
		}
		return true, ""
	}
	n := 0
	for _, f := range p.SrcFuncs("acl") {
		for _, b := range f.Blocks {
			for _, in := range b.Instrs {
				ci, ok := in.(ssa.CallInstruction)
				if !ok {
					continue
				}
				g := ci.Common().StaticCallee()
				if g == nil || g.Signature.Recv() != nil || (g.Name() != "anyAllowed" && g.Name() != "allAllowed") {
					continue
				}
				for _, a := range ci.Common().Args {
					if ct, ok := a.(*ssa.ChangeType); ok {
						a = ct.X
					}
					var cb *ssa.Function
					switch x := a.(type) {
					case *ssa.MakeClosure:
						cb, _ = x.Fn.(*ssa.Function)
					case *ssa.Function:
						cb = x
					}
					if cb == nil {
						continue
					}
					n++
					construct := core.FuncName(f) + "/" + g.Name() + "-leaf"
					if ok2, where := must(cb, map[*ssa.Function]bool{}); ok2 {
						r.Hold("C08.6", construct, p.FuncPos(cb), "the prefix rule of a leaf is evaluated on every path on which it exists")
					} else {
						r.Violate("C08.6", construct, p.FuncPos(cb), "the per-leaf decision can be returned (at "+where+") without evaluating the leaf's prefix rule although it exists: an exact rule for the same name hides it, so with service_prefix \"web\" deny + service \"web\" read the all-allowed check (ServiceReadAll) answers Allow while ServiceRead(\"web-admin\") is Deny")
					}
				}
			}
		}
	}
	r.Floor("C08.6", 2)
}


// C08.7
func checkHashRecomputedOnWrite(c *Ctx) {
	p, r := c.P, c.R
	n := 0
	for _, f := range p.SrcFuncs("agent/consul") {
		for _, in := range callsTo(f, func(cm *ssa.CallCommon) bool {
			g := cm.StaticCallee()
			return g != nil && g.Name() == "SetHash" && g.Signature.Recv() != nil && strings.Contains(core.ShortType(g.Signature.Recv().Type()), "structs.ACL")
		}) {
			n++
			args := in.(ssa.CallInstruction).Common().Args
			force := args[len(args)-1]
			construct := core.FuncName(f) + "/SetHash" + lineOf(p, in)
			if v, ok := core.ConstBool(force); ok && v {
				r.Hold("C08.7", construct, p.Pos(in.Pos()), "hash recomputed unconditionally before the write")
			} else {
				r.Violate("C08.7", construct, p.Pos(in.Pos()), "the content hash of an ACL object about to be written is recomputed only when the request carries none: an update that sends back the object it read (hash included) with new rules is stored under the OLD hash, the parsed-policy cache keyed by that hash keeps serving the old rules, and tokens are authorised by rules their policy no longer has")
			}
		}
	}
	r.Floor("C08.7", 5)
	_ = n
}
