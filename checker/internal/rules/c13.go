package rules

import (
	"fmt"
	"go/constant"
	"go/token"
	"go/types"
	"sort"
	"strings"

	"golang.org/x/tools/go/ssa"

	"verifcheck/internal/core"
)

func init() {
	register(&Rule{ID: "C13", Patterns: []string{"./agent/structs", "./agent/consul/state"}, Run: runC13})
}

func runC13(c *Ctx) {
	p, r := c.P, c.R
	r.Clauses = []string{
		"C13.1 both precedence computations, evaluated over their whole finite domain (exact / wildcard for each name part), are strictly increasing in destination exactness first and source exactness second, and agree with each other",
		"C13.2 the precedence sorter orders by precedence descending and every tie-break step compares one field on both sides",
		"C13.3 every state-store function that assembles an intention list sorts it by precedence on every successful path before returning it",
		"C13.4 the decision takes the first matching intention of the sorted list and falls back to the default only when none matches",
		"C13.7 every insert into the legacy intentions table is preceded, on every path, by the lookup of another intention with the same source/destination 4-tuple (two intentions for one pair have equal precedence and nothing orders them)",
		"C13.6 loops that collect intentions from an entry's Sources scan all of them (no stop at the first match)",
		"C13.5 the stored precedence of a config-entry source is recomputed on every normalisation (never kept from the previous write)",
	}
	r.NotDecided = []string{"wildcard expansion in IntentionMatch for all pairs", "agreement between legacy and config-entry storage for all sets"}

	r.Clauses = append(r.Clauses, "C13.8 the matcher used for decisions (connect.IntentionMatch) answers true for a side only below a comparison of EVERY part of that side's key — peer, partition, namespace, name for the source; partition, namespace, name for the destination")
	checkMatchComparesEveryKeyPart(c)

	wild := "*"
	if cv, ok := constOf(p, "agent/structs", "WildcardSpecifier"); ok {
		wild = constant.StringVal(cv)
	}
	W, X := core.AbsString(wild), core.AbsOther()
	name := func(v core.AbsVal) string {
		if v.Kind == 'o' {
			return "exact"
		}
		return "*"
	}
	// ---- legacy: (*Intention).UpdatePrecedence over {exact,*}^4
	up := p.Func("agent/structs", "(*Intention).UpdatePrecedence")
	legacy := map[string]int64{}
	if up == nil {
		r.Unresolve("C13.1", "structs.(*Intention).UpdatePrecedence", "not found")
	} else {
		for _, dns := range []core.AbsVal{X, W} {
			for _, dn := range []core.AbsVal{X, W} {
				for _, sns := range []core.AbsVal{X, W} {
					for _, sn := range []core.AbsVal{X, W} {
						obj := core.AbsObject(map[string]core.AbsVal{"DestinationNS": dns, "DestinationName": dn, "SourceNS": sns, "SourceName": sn, "Precedence": core.AbsInt(-1)})
						_, ok, why := core.EvalFinite(up, []core.AbsVal{obj}, 0)
						key := fmt.Sprintf("dst=%s/%s src=%s/%s", name(dns), name(dn), name(sns), name(sn))
						if !ok {
							r.Undecide("C13.1", "UpdatePrecedence("+key+")", p.FuncPos(up), "left the finite fragment: "+why)
							continue
						}
						pv := obj.Obj.Fields["Precedence"]
						if pv.Kind != 'c' {
							r.Undecide("C13.1", "UpdatePrecedence("+key+")", p.FuncPos(up), "precedence not constant")
							continue
						}
						v, _ := constant.Int64Val(pv.C)
						legacy[key] = v
					}
				}
			}
		}
		// well-formed cells: a wildcard namespace implies a wildcard name
		exactness := func(ns, n core.AbsVal) int {
			if ns.Kind != 'o' {
				return 0
			}
			if n.Kind != 'o' {
				return 1
			}
			return 2
		}
		type cell struct {
			key    string
			de, se int
			v      int64
		}
		var cells []cell
		for _, dns := range []core.AbsVal{X, W} {
			for _, dn := range []core.AbsVal{X, W} {
				for _, sns := range []core.AbsVal{X, W} {
					for _, sn := range []core.AbsVal{X, W} {
						if (dns.Kind != 'o' && dn.Kind == 'o') || (sns.Kind != 'o' && sn.Kind == 'o') {
							continue
						}
						key := fmt.Sprintf("dst=%s/%s src=%s/%s", name(dns), name(dn), name(sns), name(sn))
						if v, ok := legacy[key]; ok {
							cells = append(cells, cell{key, exactness(dns, dn), exactness(sns, sn), v})
						}
					}
				}
			}
		}
		for _, a := range cells {
			bad := ""
			for _, b := range cells {
				less := a.de < b.de || (a.de == b.de && a.se < b.se)
				if less && !(a.v < b.v) {
					bad = fmt.Sprintf("%s has precedence %d but the more specific %s has %d", a.key, a.v, b.key, b.v)
				}
			}
			if bad != "" {
				r.Violate("C13.1", "UpdatePrecedence("+a.key+")", p.FuncPos(up), "precedence is not strictly increasing with destination exactness first, source exactness second: "+bad)
			} else {
				r.Hold("C13.1", "UpdatePrecedence("+a.key+")", p.FuncPos(up), fmt.Sprintf("= %d", a.v))
			}
		}
	}
	// ---- config entries: computeIntentionPrecedence over {exact,*}^2 (namespaces are exact in CE)
	cp := p.Func("agent/structs", "computeIntentionPrecedence")
	if cp == nil {
		r.Unresolve("C13.1", "structs.computeIntentionPrecedence", "not found")
	} else {
		res := map[string]int64{}
		for _, dn := range []core.AbsVal{X, W} {
			for _, sn := range []core.AbsVal{X, W} {
				entry := core.AbsObject(map[string]core.AbsVal{"Name": dn, "EnterpriseMeta": core.AbsObject(map[string]core.AbsVal{})})
				src := core.AbsObject(map[string]core.AbsVal{"Name": sn, "EnterpriseMeta": core.AbsObject(map[string]core.AbsVal{})})
				out, ok, why := core.EvalFinite(cp, []core.AbsVal{entry, src}, 0)
				key := fmt.Sprintf("dst=%s src=%s", name(dn), name(sn))
				if !ok || len(out) != 1 || out[0].Kind != 'c' {
					r.Undecide("C13.1", "computeIntentionPrecedence("+key+")", p.FuncPos(cp), "left the finite fragment: "+why)
					continue
				}
				v, _ := constant.Int64Val(out[0].C)
				res[key] = v
				legacyKey := fmt.Sprintf("dst=exact/%s src=exact/%s", name(dn), name(sn))
				if lv, ok := legacy[legacyKey]; ok && lv != v {
					r.Violate("C13.1", "computeIntentionPrecedence("+key+")", p.FuncPos(cp), fmt.Sprintf("config-entry precedence %d differs from the legacy precedence %d for the same exactness: the two storage forms order the same intentions differently", v, lv))
				} else {
					r.Hold("C13.1", "computeIntentionPrecedence("+key+")", p.FuncPos(cp), fmt.Sprintf("= %d, same as legacy", v))
				}
			}
		}
		if len(res) == 4 {
			ok := res["dst=exact src=exact"] > res["dst=exact src=*"] && res["dst=exact src=*"] > res["dst=* src=exact"] && res["dst=* src=exact"] > res["dst=* src=*"]
			if ok {
				r.Hold("C13.1", "computeIntentionPrecedence/order", p.FuncPos(cp), "exact/exact > exact/* > */exact > */*")
			} else {
				r.Violate("C13.1", "computeIntentionPrecedence/order", p.FuncPos(cp), fmt.Sprintf("precedence table %v is not ordered destination-first, source-second", res))
			}
		}
	}
	r.Floor("C13.1", 14)

	checkPrecedenceSorter(c)
	checkSortedBeforeReturn(c)
	checkPrecedenceRecomputed(c)
	checkDecisionFirstMatch(c)
}

// C13.2
func checkPrecedenceSorter(c *Ctx) {
	p, r := c.P, c.R
	f := p.Func("agent/structs", "IntentionPrecedenceSorter.Less")
	if f == nil {
		r.Unresolve("C13.2", "structs.IntentionPrecedenceSorter.Less", "not found")
		return
	}
	// every comparison in Less compares the same field of two different elements
	nCmp := 0
	firstIsPrecedence := false
	for _, b := range f.Blocks {
		for _, in := range b.Instrs {
			cmp, ok := in.(*ssa.BinOp)
			if !ok {
				continue
			}
			switch cmp.Op {
			case token.NEQ, token.EQL, token.LSS, token.GTR, token.LEQ, token.GEQ:
			default:
				continue
			}
			ax, ay := core.AccessOf(cmp.X), core.AccessOf(cmp.Y)
			if len(ax.Fields) == 0 || len(ay.Fields) == 0 {
				continue
			}
			nCmp++
			fx, fy := ax.LastField(), ay.LastField()
			construct := fmt.Sprintf("Less/%s%s%s", fx, cmp.Op, fy)
			if fx != fy {
				r.Violate("C13.2", construct, p.Pos(cmp.Pos()), fmt.Sprintf("the sorter compares field %s of one intention with field %s of the other: the order is not a consistent comparator and match order can depend on storage order", fx, fy))
				continue
			}
			if fx == "Precedence" {
				if cmp.Op == token.GTR || cmp.Op == token.NEQ {
					if cmp.Op == token.GTR {
						firstIsPrecedence = true
					}
					r.Hold("C13.2", construct, p.Pos(cmp.Pos()), "precedence compared, higher first")
				} else {
					r.Violate("C13.2", construct, p.Pos(cmp.Pos()), "precedence is not ordered descending: the least specific intention would be checked first")
				}
				continue
			}
			r.Hold("C13.2", construct, p.Pos(cmp.Pos()), "same field on both sides")
		}
	}
	// each != test is followed by a < on the same field: the returned comparison on the not-equal edge uses that field
	for _, b := range f.Blocks {
		for _, in := range b.Instrs {
			ne, ok := in.(*ssa.BinOp)
			if !ok || ne.Op != token.NEQ {
				continue
			}
			fx := core.AccessOf(ne.X).LastField()
			if fx == "" {
				continue
			}
			te, _ := core.CondEdges(ne)
			for _, e := range te {
				tb := e.From.Succs[e.Succ]
				for _, x := range tb.Instrs {
					if lt, ok := x.(*ssa.BinOp); ok && (lt.Op == token.LSS || lt.Op == token.GTR) {
						if core.AccessOf(lt.X).LastField() != fx {
							r.Violate("C13.2", "Less/tie-break:"+fx, p.Pos(lt.Pos()), fmt.Sprintf("the tie-break tests %s for inequality but returns the order of %s", fx, core.AccessOf(lt.X).LastField()))
						}
					}
				}
			}
		}
	}
	if !firstIsPrecedence {
		r.Violate("C13.2", "Less/precedence-first", p.FuncPos(f), "no `a.Precedence > b.Precedence` comparison in the sorter")
	}
	r.Floor("C13.2", 15)
	_ = nCmp
}

func isIntentionsType(t types.Type) bool {
	s := core.ShortType(t)
	return s == "structs.Intentions" || s == "[]*structs.Intention"
}

// C13.3
func checkSortedBeforeReturn(c *Ctx) {
	p, r := c.P, c.R
	isSort := func(in ssa.Instruction) bool {
		ci, ok := in.(ssa.CallInstruction)
		if !ok {
			return false
		}
		if core.CalleePkgPath(ci.Common()) != "sort" {
			return false
		}
		for _, a := range ci.Common().Args {
			if strings.Contains(core.ShortType(a.Type()), "IntentionPrecedenceSorter") {
				return true
			}
			if mi, ok := a.(*ssa.MakeInterface); ok && strings.Contains(core.ShortType(mi.X.Type()), "IntentionPrecedenceSorter") {
				return true
			}
		}
		return false
	}
	// sortedAfter: on every successful path from `from` (nil = entry) to a return of f, a precedence sort occurs;
	// otherwise every caller must sort after the call (≤ 3 frames).
	var sortedAfter func(f *ssa.Function, from ssa.Instruction, frames int, seen map[*ssa.Function]bool) (bool, string)
	sortedAfter = func(f *ssa.Function, from ssa.Instruction, frames int, seen map[*ssa.Function]bool) (bool, string) {
		mf := &core.MustFlow{F: f, Start: from, Gen: func(in ssa.Instruction) []string {
			if isSort(in) {
				return []string{"sorted"}
			}
			return nil
		}}
		mf.Run()
		ri := -1
		for i := 0; i < f.Signature.Results().Len(); i++ {
			if isIntentionsType(f.Signature.Results().At(i).Type()) {
				ri = i
			}
		}
		unsorted := ""
		for _, rt := range core.Returns(f) {
			if core.ClassifyReturn(rt) == core.RetFailure {
				continue
			}
			if ri >= 0 && core.IsNilConst(core.ResolveResult(rt, ri)) {
				continue
			}
			if set, reach := mf.At(rt); reach && !set["sorted"] {
				unsorted = p.Pos(rt.Pos())
			}
		}
		if unsorted == "" {
			return true, "sorted in " + core.FuncName(f)
		}
		if ri < 0 {
			// the list does not leave this function as a result: it is consumed here unsorted
			return false, "the list is used in " + core.FuncName(f) + " without a precedence sort (return at " + unsorted + ")"
		}
		if frames == 0 || seen[f] {
			return false, "caller-frame bound reached at " + core.FuncName(f)
		}
		// dumps for persistence keep storage order on purpose
		if f.Signature.Recv() != nil {
			if n := core.NamedOf(f.Signature.Recv().Type()); n != nil && n.Obj().Name() == "Snapshot" {
				return true, "snapshot dump (order is irrelevant for persistence)"
			}
		}
		callers := callersOf(p, f, statePkg)
		if len(callers) == 0 {
			return false, core.FuncName(f) + " returns an intention list unsorted (return at " + unsorted + ") and has no caller that sorts it"
		}
		seen[f] = true
		defer delete(seen, f)
		for _, ci := range callers {
			if ok, why := sortedAfter(ci.Parent(), ci, frames-1, seen); !ok {
				return false, why
			}
		}
		return true, "sorted by every caller"
	}
	for _, f := range p.SrcFuncs(statePkg) {
		if f.Parent() != nil {
			continue
		}
		ri := -1
		for i := 0; i < f.Signature.Results().Len(); i++ {
			if isIntentionsType(f.Signature.Results().At(i).Type()) {
				ri = i
			}
		}
		if ri < 0 {
			continue
		}
		built := false
		onlyFromParam := true
		for _, b := range f.Blocks {
			for _, in := range b.Instrs {
				if call, ok := in.(*ssa.Call); ok {
					if bi, ok := call.Call.Value.(*ssa.Builtin); ok && bi.Name() == "append" && isIntentionsType(call.Type()) {
						built = true
						// elements appended
						elems := core.UnpackVariadic(call.Call.Args[1])
						if elems == nil {
							elems = []ssa.Value{call.Call.Args[1]}
						}
						for _, e := range elems {
							fromParam := false
							for _, leaf := range core.Leaves(e, core.SliceOpts{}) {
								if prm, ok := leaf.(*ssa.Parameter); ok && isIntentionsType(prm.Type()) {
									fromParam = true
								}
								if _, isCall := leaf.(*ssa.Call); isCall {
									fromParam = false
									break
								}
							}
							if !fromParam {
								onlyFromParam = false
							}
						}
					}
				}
			}
		}
		if !built {
			continue
		}
		name := core.FuncName(f)
		if onlyFromParam {
			r.Hold("C13.3", name, p.FuncPos(f), "order-preserving filter of an intention list it was given (keeps the caller's order)")
			continue
		}
		if ok, why := sortedAfter(f, nil, 3, map[*ssa.Function]bool{}); ok {
			r.Hold("C13.3", name, p.FuncPos(f), why)
		} else {
			r.Violate("C13.3", name, p.FuncPos(f), "an intention list assembled here reaches a caller without being sorted by precedence: match/list results come back in storage order and the first match may not be the most specific ("+why+")")
		}
	}
	r.Floor("C13.3", 5)
}

// C13.5
func checkPrecedenceRecomputed(c *Ctx) {
	p, r := c.P, c.R
	cp := p.Func("agent/structs", "computeIntentionPrecedence")
	n := 0
	for _, f := range p.SrcFuncs("agent/structs") {
		for _, b := range f.Blocks {
			for _, in := range b.Instrs {
				st, ok := in.(*ssa.Store)
				if !ok {
					continue
				}
				fa, ok := st.Addr.(*ssa.FieldAddr)
				if !ok || core.FieldObj(fa).Name() != "Precedence" {
					continue
				}
				call, ok := st.Val.(*ssa.Call)
				if !ok || call.Call.StaticCallee() != cp || cp == nil {
					continue
				}
				n++
				construct := core.FuncName(f) + "/Precedence"
				// no branch whose condition reads a Precedence field may guard the store
				guarded := ""
				for _, bb := range f.Blocks {
					if len(bb.Instrs) == 0 {
						continue
					}
					ifi, ok := bb.Instrs[len(bb.Instrs)-1].(*ssa.If)
					if !ok || bb.Succs[0] == bb.Succs[1] {
						continue
					}
					reads := false
					for _, leaf := range condLoads(ifi.Cond) {
						if core.AccessOf(leaf).LastField() == "Precedence" {
							reads = true
						}
					}
					if !reads {
						continue
					}
					for si := range bb.Succs {
						if core.EdgeDominates(bb, si, st.Block()) {
							guarded = p.Pos(ifi.Cond.Pos())
						}
					}
				}
				if guarded != "" {
					r.Violate("C13.5", construct, p.Pos(st.Pos()), "the precedence is recomputed only under a condition on the stored precedence ("+guarded+"): a source that is renamed in a read-modify-write keeps its old precedence and the decision depends on write history")
				} else {
					r.Hold("C13.5", construct, p.Pos(st.Pos()), "precedence recomputed unconditionally for every source")
				}
			}
		}
	}
	// legacy path: the state store calls UpdatePrecedence before storing
	up := p.Func("agent/structs", "(*Intention).UpdatePrecedence")
	if up != nil {
		called := false
		for _, f := range p.SrcFuncs(statePkg) {
			if !insertsInto(p, f, "connect-intentions", 0) {
				continue
			}
			for _, b := range f.Blocks {
				for _, in := range b.Instrs {
					if ci, ok := in.(ssa.CallInstruction); ok && ci.Common().StaticCallee() == up {
						called = true
					}
				}
			}
		}
		if called {
			r.Hold("C13.5", "state/legacy-intention-set", "", "legacy intention writes recompute the precedence before storing")
		} else {
			r.Violate("C13.5", "state/legacy-intention-set", "", "no writer of the legacy intentions table recomputes the precedence before storing")
		}
	}
	r.Floor("C13.5", 2)
	_ = n
	checkSourceCollectors(c)
	checkLegacyDuplicateCheck(c)
}

// C13.6: a loop that collects intentions from an entry's Sources scans all of
// them. One entry may carry several sources with the same name (local, per
// peer, per sameness group); stopping at the first match makes the decision
// depend on the order in which they were written.
func checkSourceCollectors(c *Ctx) {
	p, r := c.P, c.R
	nLoops := 0
	for _, rel := range []string{"agent/consul/state", "agent/structs"} {
		for _, f := range p.SrcFuncs(rel) {
			seenHdr := map[*ssa.BasicBlock]bool{}
			for _, b := range f.Blocks {
				for _, in := range b.Instrs {
					// an element access of a slice reached through a field named Sources
					var base ssa.Value
					switch x := in.(type) {
					case *ssa.IndexAddr:
						base = x.X
					case *ssa.Index:
						base = x.X
					default:
						continue
					}
					if core.AccessOf(base).LastField() != "Sources" {
						continue
					}
					hb := loopHeaderOf(b)
					if hb == nil || seenHdr[hb] {
						continue
					}
					// the loop body: blocks dominated by the header from which the header is reachable
					inLoop := map[*ssa.BasicBlock]bool{}
					for _, bb := range f.Blocks {
						if hb.Dominates(bb) && reachesBlock(bb, hb, nil) {
							inLoop[bb] = true
						}
					}
					// appends to a result slice inside the loop
					var appends []ssa.Instruction
					for bb := range inLoop {
						for _, y := range bb.Instrs {
							if call, ok := y.(*ssa.Call); ok {
								if bi, ok := call.Call.Value.(*ssa.Builtin); ok && bi.Name() == "append" {
									appends = append(appends, y)
								}
							}
						}
					}
					if len(appends) == 0 {
						continue
					}
					seenHdr[hb] = true
					nLoops++
					construct := fmt.Sprintf("%s/sources-loop@%s", core.FuncName(f), p.Pos(firstPos(hb)))
					construct = core.FuncName(f) + "/sources-loop"
					bad := ""
					for _, ap := range appends {
						w := &core.Walk{Stop: func(x ssa.Instruction) bool { return x.Block() == hb }}
						var exits []*ssa.BasicBlock
						w.Visit = func(x ssa.Instruction) {
							bb := x.Block()
							if !inLoop[bb] && bb != hb && x == bb.Instrs[0] {
								exits = append(exits, bb)
							}
						}
						w.FromInstr(ap)
						for _, eb := range exits {
							// leaving the loop without passing its header: fine only towards a failing return
							onlyFail := true
							w2 := &core.Walk{Visit: func(x ssa.Instruction) {
								if rt, ok := x.(*ssa.Return); ok && core.ClassifyReturn(rt) != core.RetFailure {
									onlyFail = false
								}
							}}
							w2.FromInstr(eb.Instrs[0])
							if rt, ok := eb.Instrs[0].(*ssa.Return); ok && core.ClassifyReturn(rt) != core.RetFailure {
								onlyFail = false
							}
							if !onlyFail {
								bad = p.Pos(ap.Pos())
							}
						}
					}
					if bad != "" {
						r.Violate("C13.6", construct, p.Pos(firstPos(hb)), "after collecting a source (append at "+bad+") the scan of the entry's Sources stops: a second source of the same name (another peer or sameness group) is never considered, so which intention decides depends on the order the sources were written in")
					} else {
						r.Hold("C13.6", construct, p.Pos(firstPos(hb)), "all sources of the entry are scanned")
					}
				}
			}
		}
	}
	r.Floor("C13.6", 3)
}

func condLoads(v ssa.Value) []ssa.Value {
	var out []ssa.Value
	seen := map[ssa.Value]bool{}
	var visit func(v ssa.Value, d int)
	visit = func(v ssa.Value, d int) {
		if v == nil || seen[v] || d > 6 {
			return
		}
		seen[v] = true
		switch x := v.(type) {
		case *ssa.BinOp:
			visit(x.X, d+1)
			visit(x.Y, d+1)
		case *ssa.UnOp:
			if x.Op == token.MUL {
				out = append(out, x)
				return
			}
			visit(x.X, d+1)
		case *ssa.Convert:
			visit(x.X, d+1)
		case *ssa.Field:
			out = append(out, x)
		}
	}
	visit(v, 0)
	return out
}

// C13.4
func checkDecisionFirstMatch(c *Ctx) {
	p, r := c.P, c.R
	// the decision function: in package state, calls AuthorizeIntentionTarget in a loop over a sorted list
	found := 0
	for _, f := range p.SrcFuncs(statePkg) {
		var authCalls []*ssa.Call
		for _, b := range f.Blocks {
			for _, in := range b.Instrs {
				if call, ok := in.(*ssa.Call); ok {
					if g := call.Call.StaticCallee(); g != nil && g.Name() == "AuthorizeIntentionTarget" {
						authCalls = append(authCalls, call)
					}
				}
			}
		}
		for _, ac := range authCalls {
			found++
			construct := core.FuncName(f) + "/first-match"
			// the match boolean must decide a branch whose true edge leaves the loop (does not reach the call again)
			var matched ssa.Value
			if ac.Referrers() != nil {
				for _, rr := range *ac.Referrers() {
					if ex, ok := rr.(*ssa.Extract); ok && isBoolT(ex.Type()) {
						matched = ex
					}
				}
			}
			if isBoolT(ac.Type()) {
				matched = ac
			}
			if matched == nil {
				r.Violate("C13.4", construct, p.Pos(ac.Pos()), "the match result of AuthorizeIntentionTarget is not used")
				continue
			}
			te, _ := core.CondEdges(matched)
			okLeave := len(te) > 0
			for _, e := range te {
				again := false
				w := &core.Walk{Visit: func(in ssa.Instruction) { again = again || in == ssa.Instruction(ac) }}
				w.FromEdge(e.From, e.Succ)
				if again {
					okLeave = false
				}
			}
			if okLeave {
				r.Hold("C13.4", construct, p.Pos(ac.Pos()), "the loop is left at the first matching intention")
			} else {
				r.Violate("C13.4", construct, p.Pos(ac.Pos()), "after a matching intention the loop goes on to later (less specific) intentions: the last match decides instead of the first")
			}
		}
	}
	if found == 0 {
		r.Unresolve("C13.4", "state/<decision>", "no call to AuthorizeIntentionTarget found in package state")
	}
	_ = sort.Strings
}

func isBoolT(t types.Type) bool {
	b, ok := t.Underlying().(*types.Basic)
	return ok && b.Kind() == types.Bool
}

// C13.7
func checkLegacyDuplicateCheck(c *Ctx) {
	p, r := c.P, c.R
	n := 0
	for _, f := range p.SrcFuncs(statePkg) {
		if isRestoreMethod(f) {
			continue
		}
		var inserts []ssa.Instruction
		for _, b := range f.Blocks {
			for _, in := range b.Instrs {
				if op := core.AsMemdbOp(in); op != nil && op.Op == "Insert" && op.TableKnown && op.Table == "connect-intentions" {
					inserts = append(inserts, in)
				}
			}
		}
		if len(inserts) == 0 {
			continue
		}
		mf := &core.MustFlow{F: f, Gen: func(in ssa.Instruction) []string {
			if op := core.AsMemdbOp(in); op != nil && op.IsRead() && op.TableKnown && op.Table == "connect-intentions" && op.IndexKnown && op.Index == "source_destination" {
				return []string{"dup"}
			}
			return nil
		}}
		mf.Run()
		for _, ins := range inserts {
			n++
			if s, ok := mf.At(ins); ok && s["dup"] {
				r.Hold("C13.7", core.FuncName(f), p.Pos(ins.Pos()), "the 4-tuple lookup precedes the insert on every path")
			} else {
				r.Violate("C13.7", core.FuncName(f), p.Pos(ins.Pos()), "a legacy intention can be stored without looking for another intention on the same source/destination pair (e.g. an update by ID that renames it onto an existing pair): the table then holds two intentions of equal precedence for one pair and which one decides depends on storage order")
			}
		}
	}
	r.Floor("C13.7", 1)
}


// C13.8: in connect.IntentionMatch, for each match type, a `true` result is reachable from that
// type's case only through an "equal" (or wildcard) edge of a comparison on each part of the key.
// Skipping one part (comparing the partition only when the peer is empty, say) lets an intention
// written for another cluster/partition decide for a local service of the same name.
func checkMatchComparesEveryKeyPart(c *Ctx) {
	p, r := c.P, c.R
	f := p.Func("agent/connect", "IntentionMatch")
	if f == nil {
		r.Unresolve("C13.8", "connect.IntentionMatch", "not found")
		return
	}
	cases := map[string][]string{
		"source":      {"SourcePeer", "SourcePartition", "SourceNS", "SourceName"},
		"destination": {"DestinationPartition", "DestinationNS", "DestinationName"},
	}
	// edges on which the match type equals a constant
	caseEdges := map[string][]core.Edge{}
	for _, cv := range core.Comparisons(f, 0) {
		if cv.Op != token.EQL && cv.Op != token.NEQ {
			continue
		}
		for _, pair := range [][2]ssa.Value{{cv.X, cv.Y}, {cv.Y, cv.X}} {
			k, ok := core.ConstString(pair[0])
			if !ok {
				continue
			}
			if _, isParam := pair[1].(*ssa.Parameter); !isParam {
				continue
			}
			if _, known := cases[k]; !known {
				continue
			}
			if cv.Op == token.EQL {
				caseEdges[k] = append(caseEdges[k], cv.True...)
			} else {
				caseEdges[k] = append(caseEdges[k], cv.False...)
			}
		}
	}
	mentions := func(v ssa.Value, field string) bool {
		hit := false
		core.Leaves(v, core.SliceOpts{ThroughCalls: true, StopAt: func(x ssa.Value) bool {
			if core.AccessOf(x).LastField() == field {
				hit = true
			}
			return false
		}})
		return hit
	}
	for _, kind := range []string{"destination", "source"} {
		if len(caseEdges[kind]) == 0 {
			r.Violate("C13.8", "connect.IntentionMatch/"+kind, p.FuncPos(f), "no case for match type "+kind)
			continue
		}
		for _, field := range cases[kind] {
			construct := "connect.IntentionMatch/" + kind + "/" + field
			accepted := core.GuardEdges(f, 2, func(cv core.CmpView) (bool, bool) {
				if cv.Op != token.EQL && cv.Op != token.NEQ {
					return false, false
				}
				if mentions(cv.X, field) || mentions(cv.Y, field) {
					return cv.Op == token.EQL, cv.Op == token.NEQ
				}
				return false, false
			})
			cut := map[core.Edge]bool{}
			for _, e := range accepted {
				cut[e] = true
			}
			bad := ""
			for _, ce := range caseEdges[kind] {
				w := &core.Walk{Cut: func(b *ssa.BasicBlock, si int) bool { return cut[core.Edge{From: b, Succ: si}] }}
				w.FromEdge(ce.From, ce.Succ)
				for _, rt := range core.Returns(f) {
					if !w.Reached(rt.Block()) {
						continue
					}
					v := core.ResolveResult(rt, 0)
					if b, ok := core.ConstBool(v); ok && !b {
						continue
					}
					if ph, ok := v.(*ssa.Phi); ok {
						all := true
						for i, e := range ph.Edges {
							if b, ok := core.ConstBool(e); ok && !b {
								continue
							}
							if w.Reached(ph.Block().Preds[i]) {
								all = false
							}
						}
						if all {
							continue
						}
					}
					bad = p.Pos(rt.Pos())
				}
			}
			switch {
			case len(accepted) == 0:
				r.Violate("C13.8", construct, p.FuncPos(f), field+" is never compared: an intention matches regardless of this part of its key")
			case bad != "":
				r.Violate("C13.8", construct, p.FuncPos(f), "a "+kind+" match can be reported (return at "+bad+") on a path that never compared "+field+": an intention whose "+field+" differs from the target's decides for it")
			default:
				r.Hold("C13.8", construct, p.FuncPos(f), "a match is reported only below an equal/wildcard edge on "+field)
			}
		}
	}
	r.Floor("C13.8", 7)
}
