package rules

import (
	"fmt"
	"go/token"
	"sort"
	"strings"

	"golang.org/x/tools/go/ssa"

	"verifcheck/internal/core"
)

func init() {
	register(&Rule{ID: "C15", Patterns: []string{"./agent/consul/discoverychain", "./agent/consul/state", "./agent/structs"}, Run: runC15})
}

const dcPkg = "agent/consul/discoverychain"
const tblConfigEntries = "config-entries"

// reachesCompile: g (transitively, static calls in consul) calls discoverychain.Compile.
func reachesCompile(p *core.Program, g *ssa.Function) bool {
	key := "reachesCompile:" + g.String()
	if v, ok := p.MemoGet(key); ok {
		return v.(bool)
	}
	p.MemoSet(key, false)
	res := false
	if g.Blocks != nil {
		for _, b := range g.Blocks {
			for _, in := range b.Instrs {
				ci, ok := in.(ssa.CallInstruction)
				if !ok {
					continue
				}
				h := ci.Common().StaticCallee()
				if h == nil || !core.IsConsul(core.FuncPkgPath(h)) {
					continue
				}
				if h.Name() == "Compile" && strings.HasSuffix(core.FuncPkgPath(h), "/"+dcPkg) {
					res = true
				} else if reachesCompile(p, h) {
					res = true
				}
			}
		}
	}
	p.MemoSet(key, res)
	return res
}

func runC15(c *Ctx) {
	p, r := c.P, c.R
	r.Clauses = []string{
		"C15.1 every write or delete of a config entry in the state store is preceded, on every path (here or in every caller), by the graph validation that test-compiles the affected chains, and the validator itself reaches the test-compilation on every non-failing path",
		"C15.2 every call cycle of the chain compiler contains a memo check and records the node before recursing",
		"C15.3 compile reports circular references before producing a chain",
		"C15.4 no map iteration in the compiler lets iteration order reach the compiled chain",
	}
	r.NotDecided = []string{"referential closure of the produced graph for all inputs", "termination as such (the recursion guard is necessary, not sufficient)"}

	// ---- C15.1 (a) the validator reaches the graph check on every non-failing path
	vf := p.Func(statePkg, "validateProposedConfigEntryInGraph")
	if vf == nil {
		r.Unresolve("C15.1", "state.validateProposedConfigEntryInGraph", "not found")
	} else {
		// listed exception: proxy-defaults entries not named "global" are rejected elsewhere and have no graph
		globalName := "global"
		if cv, ok := constOf(p, "agent/structs", "ProxyConfigGlobal"); ok {
			globalName = strings.Trim(cv.ExactString(), "\"")
		}
		cut := map[core.Edge]bool{}
		for _, b := range vf.Blocks {
			for _, in := range b.Instrs {
				cmp, ok := in.(*ssa.BinOp)
				if !ok || cmp.Op != token.NEQ {
					continue
				}
				if s, ok := core.ConstString(cmp.Y); ok && s == globalName {
					te, _ := core.CondEdges(cmp)
					for _, e := range te {
						cut[e] = true
					}
				}
			}
		}
		mf := &core.MustFlow{F: vf, Cut: func(b *ssa.BasicBlock, si int) bool { return cut[core.Edge{From: b, Succ: si}] },
			Gen: func(in ssa.Instruction) []string {
				if ci, ok := in.(ssa.CallInstruction); ok {
					if g := ci.Common().StaticCallee(); g != nil && reachesCompile(p, g) {
						return []string{"graph"}
					}
				}
				return nil
			}}
		mf.Run()
		bad := ""
		for _, rt := range core.Returns(vf) {
			if core.ClassifyReturn(rt) == core.RetFailure {
				continue
			}
			// `return validate…ServiceGraph(...)`: the call is the returned value
			if call, ok := core.ResolveResult(rt, 0).(*ssa.Call); ok {
				if g := call.Call.StaticCallee(); g != nil && reachesCompile(p, g) {
					continue
				}
			}
			if s, reach := mf.At(rt); reach && !s["graph"] {
				bad = p.Pos(rt.Pos())
			}
		}
		if bad != "" {
			r.Violate("C15.1", core.FuncName(vf)+"/graph-check", p.FuncPos(vf), "the validator can accept a change (return at "+bad+") without test-compiling the chains it affects: a write that makes a chain uncompilable is stored")
		} else {
			r.Hold("C15.1", core.FuncName(vf)+"/graph-check", p.FuncPos(vf), "every accepting path runs the service-graph check (proxy-defaults not named global excepted)")
		}
	}
	// ---- C15.1 (b) every config-entries write is preceded by the validator
	isValidatorCall := func(in ssa.Instruction) bool {
		ci, ok := in.(ssa.CallInstruction)
		if !ok {
			return false
		}
		g := ci.Common().StaticCallee()
		if g == nil || !reachesCompile(p, g) {
			return false
		}
		// its error must be used
		if v, ok := in.(ssa.Value); ok && (v.Referrers() == nil || len(*v.Referrers()) == 0) {
			return false
		}
		return true
	}
	var validatedBefore func(at ssa.Instruction, frames int, seen map[*ssa.Function]bool) (bool, string)
	validatedBefore = func(at ssa.Instruction, frames int, seen map[*ssa.Function]bool) (bool, string) {
		f := at.Parent()
		mf := &core.MustFlow{F: f, Gen: func(in ssa.Instruction) []string {
			if isValidatorCall(in) {
				return []string{"validated"}
			}
			return nil
		}}
		mf.Run()
		if s, reach := mf.At(at); reach && s["validated"] {
			return true, "validated in " + core.FuncName(f)
		}
		if frames == 0 || seen[f] {
			return false, "caller-frame bound reached at " + core.FuncName(f)
		}
		callers := callersOf(p, f, statePkg)
		var live []ssa.CallInstruction
		for _, ci := range callers {
			if !isRestoreMethod(ci.Parent()) {
				live = append(live, ci)
			}
		}
		if len(live) == 0 {
			return false, core.FuncName(f) + " changes stored config entries without graph validation and has no caller that validates"
		}
		seen[f] = true
		defer delete(seen, f)
		for _, ci := range live {
			if ok, why := validatedBefore(ci, frames-1, seen); !ok {
				return false, why
			}
		}
		return true, "validated in every caller"
	}
	sites, _ := stateWriteSites(p)
	for _, s := range sites {
		if s.op.Table != tblConfigEntries || isRestoreMethod(s.fn) {
			continue
		}
		construct := core.FuncName(s.fn) + "/" + s.op.Op + ":config-entries"
		if ok, why := validatedBefore(s.op.Instr, 4, map[*ssa.Function]bool{}); ok {
			r.Hold("C15.1", construct, p.Pos(s.op.Instr.Pos()), why)
		} else {
			r.Violate("C15.1", construct, p.Pos(s.op.Instr.Pos()), "a config entry can be written or deleted without the graph validation having run: "+why)
		}
	}
	r.Floor("C15.1", 3)

	// ---- C15.2 recursion guards
	fns := p.SrcFuncs(dcPkg)
	inPkg := map[*ssa.Function]bool{}
	for _, f := range fns {
		inPkg[f] = true
	}
	callees := func(f *ssa.Function) []*ssa.Function {
		var out []*ssa.Function
		for _, b := range f.Blocks {
			for _, in := range b.Instrs {
				if ci, ok := in.(ssa.CallInstruction); ok {
					if g := ci.Common().StaticCallee(); g != nil && inPkg[g] {
						out = append(out, g)
					}
				}
			}
		}
		return out
	}
	reach := func(from *ssa.Function) map[*ssa.Function]bool {
		seen := map[*ssa.Function]bool{}
		var visit func(f *ssa.Function)
		visit = func(f *ssa.Function) {
			for _, g := range callees(f) {
				if !seen[g] {
					seen[g] = true
					visit(g)
				}
			}
		}
		visit(from)
		return seen
	}
	var cyclic []*ssa.Function
	for _, f := range fns {
		if reach(f)[f] {
			cyclic = append(cyclic, f)
		}
	}
	sort.Slice(cyclic, func(i, j int) bool { return cyclic[i].String() < cyclic[j].String() })
	r.Analysed["functions_in_call_cycles"] = len(cyclic)
	// memo maps: fields of the compiler that are maps of graph nodes
	memoStore := func(in ssa.Instruction) []string {
		switch x := in.(type) {
		case *ssa.MapUpdate:
			if lf := core.AccessOf(x.Map).LastField(); strings.HasSuffix(lf, "Nodes") || lf == "nodes" {
				return []string{"memo:" + lf}
			}
		case ssa.CallInstruction:
			if _, isDefer := in.(*ssa.Defer); isDefer {
				return nil // runs at exit, after the recursion
			}
			if g := x.Common().StaticCallee(); g != nil && inPkg[g] && !reach(g)[g] {
				var out []string
				for _, b := range g.Blocks {
					for _, y := range b.Instrs {
						if mu, ok := y.(*ssa.MapUpdate); ok {
							if lf := core.AccessOf(mu.Map).LastField(); strings.HasSuffix(lf, "Nodes") || lf == "nodes" {
								out = append(out, "memo:"+lf)
							}
						}
					}
				}
				return out
			}
		}
		return nil
	}
	guarded := map[*ssa.Function]string{}
	for _, f := range cyclic {
		// memo check: comma-ok lookup on a *Nodes map with an early return of the found value
		memoField := ""
		for _, b := range f.Blocks {
			for _, in := range b.Instrs {
				lk, ok := in.(*ssa.Lookup)
				if !ok || !lk.CommaOk {
					continue
				}
				lf := core.AccessOf(lk.X).LastField()
				if !(strings.HasSuffix(lf, "Nodes") || lf == "nodes") || lk.Referrers() == nil {
					continue
				}
				for _, rr := range *lk.Referrers() {
					if ex, ok := rr.(*ssa.Extract); ok && ex.Index == 1 {
						te, _ := core.CondEdges(ex)
						for _, e := range te {
							tb := e.From.Succs[e.Succ]
							if len(tb.Instrs) > 0 {
								if _, isRet := tb.Instrs[len(tb.Instrs)-1].(*ssa.Return); isRet {
									memoField = lf
								}
							}
						}
					}
				}
			}
		}
		if memoField == "" {
			continue
		}
		// every call from f back into its cycle has the memo store before it
		mf := &core.MustFlow{F: f, Gen: memoStore}
		mf.Run()
		ok := true
		for _, b := range f.Blocks {
			for _, in := range b.Instrs {
				ci, isCall := in.(ssa.CallInstruction)
				if !isCall {
					continue
				}
				g := ci.Common().StaticCallee()
				if g == nil || !inPkg[g] || !(g == f || reach(g)[f]) {
					continue
				}
				if s, reachI := mf.At(in); reachI && !s["memo:"+memoField] {
					ok = false
				}
			}
		}
		if ok {
			guarded[f] = memoField
		}
	}
	for _, f := range cyclic {
		// the cycle through f is guarded if f is guarded or every cycle through f passes a guarded function:
		// remove guarded functions; f must no longer reach itself
		seen := map[*ssa.Function]bool{}
		var visit func(g *ssa.Function) bool
		visit = func(g *ssa.Function) bool {
			for _, h := range callees(g) {
				if _, isG := guarded[h]; isG {
					continue
				}
				if h == f {
					return true
				}
				if !seen[h] {
					seen[h] = true
					if visit(h) {
						return true
					}
				}
			}
			return false
		}
		name := core.FuncName(f)
		if _, isG := guarded[f]; isG {
			r.Hold("C15.2", name, p.FuncPos(f), "memo check on "+guarded[f]+" with early return; node recorded before every recursive call")
		} else if !visit(f) {
			r.Hold("C15.2", name, p.FuncPos(f), "every call cycle through this function passes a memoising function")
		} else {
			r.Violate("C15.2", name, p.FuncPos(f), "a call cycle of the chain compiler through this function has no memo check with the node recorded before recursing: a redirect/failover/split loop in the entries makes compilation recurse without bound")
		}
	}
	r.Floor("C15.2", 2)

	// ---- C15.3
	if cf := p.Func(dcPkg, "(*compiler).compile"); cf != nil {
		calls := callsTo(cf, func(cm *ssa.CallCommon) bool {
			g := cm.StaticCallee()
			return g != nil && g.Name() == "detectCircularReferences"
		})
		if len(calls) == 0 {
			r.Violate("C15.3", core.FuncName(cf), p.FuncPos(cf), "compile no longer checks for circular references")
		} else if ok, rt := successGuarded(cf, calls[0]); ok {
			r.Hold("C15.3", core.FuncName(cf), p.Pos(calls[0].Pos()), "a chain is produced only below a successful circular-reference check")
		} else {
			where := ""
			if rt != nil {
				where = " (return at " + p.Pos(rt.Pos()) + ")"
			}
			r.Violate("C15.3", core.FuncName(cf), p.Pos(calls[0].Pos()), "compile can produce a chain although the circular-reference check failed"+where)
		}
	} else {
		r.Unresolve("C15.3", "discoverychain.(*compiler).compile", "not found")
	}
	// the cycle detector schedules EVERY outgoing edge of every router and splitter it visits: a node
	// may legitimately be reached twice (that is what a cycle off the start node looks like)
	if df := p.Func(dcPkg, "(*compiler).detectCircularReferences"); df != nil {
		isPush := func(in ssa.Instruction) bool {
			ci, ok := in.(ssa.CallInstruction)
			if !ok {
				return false
			}
			g := ci.Common().StaticCallee()
			return g != nil && g.Name() == "Push" && g.Signature.Recv() != nil
		}
		// mustPush: every return of g is preceded by a Push
		mustPush := func(g *ssa.Function) bool {
			if g == nil || g.Blocks == nil {
				return false
			}
			mf := &core.MustFlow{F: g, Gen: func(in ssa.Instruction) []string {
				if isPush(in) {
					return []string{"pushed"}
				}
				return nil
			}}
			mf.Run()
			for _, rt := range core.Returns(g) {
				if s, ok := mf.At(rt); ok && !s["pushed"] {
					return false
				}
			}
			return true
		}
		nLoops := 0
		for _, b := range df.Blocks {
			for _, in := range b.Instrs {
				ia, ok := in.(*ssa.IndexAddr)
				if !ok {
					continue
				}
				lf := core.AccessOf(ia.X).LastField()
				if lf != "Routes" && lf != "Splits" {
					continue
				}
				hb := loopHeaderOf(b)
				if hb == nil {
					continue
				}
				nLoops++
				mf := &core.MustFlow{F: df, Start: in, Gen: func(x ssa.Instruction) []string {
					if isPush(x) {
						return []string{"pushed"}
					}
					if ci, ok := x.(ssa.CallInstruction); ok {
						// a local helper (closure) that pushes on all of its paths
						var g *ssa.Function
						if mc, ok := ci.Common().Value.(*ssa.MakeClosure); ok {
							g, _ = mc.Fn.(*ssa.Function)
						} else {
							g = ci.Common().StaticCallee()
							if g == nil {
								// a closure held in a local variable
								for _, leaf := range core.Leaves(ci.Common().Value, core.SliceOpts{}) {
									if mc, ok := leaf.(*ssa.MakeClosure); ok {
										g, _ = mc.Fn.(*ssa.Function)
									}
								}
							}
						}
						if g != nil && g.Pkg == df.Pkg && mustPush(g) {
							return []string{"pushed"}
						}
					}
					return nil
				}}
				mf.Run()
				construct := core.FuncName(df) + "/" + lf
				if s, ok := mf.At(hb.Instrs[0]); ok && s["pushed"] {
					r.Hold("C15.3", construct, p.Pos(in.Pos()), "every "+strings.ToLower(strings.TrimSuffix(lf, "s"))+"'s next node is scheduled")
				} else {
					r.Violate("C15.3", construct, p.Pos(in.Pos()), "an outgoing edge of a "+strings.ToLower(strings.TrimSuffix(lf, "s"))+" can be left unscheduled (it is pushed only under a condition, e.g. 'not queued before'): a cycle that does not pass through the chain's start node is then never walked twice and goes undetected, and flattening the cyclic splitters afterwards does not terminate")
				}
			}
		}
		if nLoops < 2 {
			r.MissingInstance("C15.3", core.FuncName(df)+"/edges", fmt.Sprintf("only %d edge loops found in the cycle detector", nLoops))
		}
	} else {
		r.Unresolve("C15.3", "discoverychain.(*compiler).detectCircularReferences", "not found")
	}

	// ---- C15.4 map ranges in the chain compiler (everything reachable from Compile; the API-gateway
	// synthesiser in the same package builds on compiled chains and is outside the property's scope)
	n := 0
	perKey := map[string]int{}
	var compilerFns []*ssa.Function
	if cf := p.Func(dcPkg, "Compile"); cf != nil {
		for g := range reachableStatic(p, []*ssa.Function{cf}, dcPkg) {
			compilerFns = append(compilerFns, g)
		}
	} else {
		r.Unresolve("C15.4", "discoverychain.Compile", "not found")
	}
	sort.Slice(compilerFns, func(i, j int) bool { return compilerFns[i].String() < compilerFns[j].String() })
	for _, f := range compilerFns {
		for _, rl := range mapRangesIn(f) {
			n++
			base := core.FuncName(f) + "/range " + rangeName(p, rl)
			perKey[base]++
			construct := base
			if perKey[base] > 1 {
				construct = fmt.Sprintf("%s#%d", base, perKey[base])
			}
			pos := p.Pos(rl.rng.Pos())
			if !rl.rng.Pos().IsValid() {
				pos = p.FuncPos(f)
			}
			real := classifyMapRange(p, rl)
			if why := firstMatchFromMap(p, rl); why != "" {
				real = append(real, why)
			}
			if len(real) == 0 {
				r.Hold("C15.4", construct, pos, "order-insensitive loop body")
			} else {
				r.Add(core.Obligation{Rule: "C15.4", Construct: construct, Pos: pos, Decision: core.Violated, Sig: effectSig(real),
					Reason: "map iteration order can reach the compiled chain: " + strings.Join(real, "; ")})
			}
		}
	}
	r.Floor("C15.4", 4)
	_ = n
}

// firstMatchFromMap: the loop leaves early (break) and a value taken from the
// iteration is used after it, while more than one key can satisfy the exit
// condition: which entry is picked depends on the iteration order.
func firstMatchFromMap(p *core.Program, rl rangeLoop) string {
	header := rl.next.Block()
	var breaks []core.Edge
	for b := range rl.body {
		for si, s := range b.Succs {
			if rl.body[s] || s == header {
				continue
			}
			// leaving through a return is judged by the return rule
			if len(s.Instrs) > 0 {
				if _, isRet := s.Instrs[len(s.Instrs)-1].(*ssa.Return); isRet && len(s.Instrs) <= 3 {
					continue
				}
			}
			breaks = append(breaks, core.Edge{From: b, Succ: si})
		}
	}
	if len(breaks) == 0 {
		return ""
	}
	// does iteration data escape the loop?
	fromIteration := func(v ssa.Value) bool {
		hit := false
		core.Leaves(v, core.SliceOpts{ThroughCalls: true, StopAt: func(x ssa.Value) bool {
			if x == ssa.Value(rl.next) || (rl.key != nil && x == rl.key) || (rl.val != nil && x == rl.val) {
				hit = true
				return true
			}
			return false
		}})
		return hit
	}
	escapes := false
	check := func(v ssa.Value) {
		if v == nil || v.Referrers() == nil {
			return
		}
		for _, rr := range *v.Referrers() {
			if b := rr.Block(); b != nil && !rl.body[b] && b != header {
				escapes = true
			}
		}
	}
	check(rl.key)
	check(rl.val)
	for b := range rl.body {
		for _, in := range b.Instrs {
			if v, ok := in.(ssa.Value); ok && fromIteration(v) {
				check(v)
			}
		}
	}
	// … or through a variable declared outside the loop
	for b := range rl.body {
		for _, in := range b.Instrs {
			st, ok := in.(*ssa.Store)
			if !ok {
				continue
			}
			al, ok := st.Addr.(*ssa.Alloc)
			if !ok || rl.body[al.Block()] {
				continue
			}
			if fromIteration(st.Val) {
				check(al)
			}
		}
	}
	if !escapes {
		return ""
	}
	// a single equality test on the key: at most one entry can match
	nKeyEq := 0
	for b := range rl.body {
		for _, in := range b.Instrs {
			if cmp, ok := in.(*ssa.BinOp); ok && (cmp.Op == token.EQL || cmp.Op == token.NEQ) {
				for _, side := range []ssa.Value{cmp.X, cmp.Y} {
					keyOnly := false
					core.Leaves(side, core.SliceOpts{StopAt: func(x ssa.Value) bool {
						if rl.key != nil && x == rl.key {
							keyOnly = true
							return true
						}
						return false
					}})
					if keyOnly {
						nKeyEq++
					}
				}
			}
		}
	}
	if nKeyEq == 1 {
		return ""
	}
	return "the loop stops at the first entry that satisfies its condition (break at " + p.Pos(firstPos(breaks[0].From)) + ") and uses it afterwards, while several keys can satisfy it: which one is taken depends on map iteration order"
}
