package rules

import (
	"fmt"
	"go/token"
	"go/types"
	"strings"

	"golang.org/x/tools/go/ssa"

	"verifcheck/internal/core"
)

// C06.X — the "service exists" argument of the per-service index lookup.
//
// maxIndexAndWatchChForService(…, serviceExists, …) reports the extinction
// index when told the service has no instance, and the service's own index
// otherwise. Telling it "no instance" while one exists lets the reported
// index fall back to an older value. The rule: the argument is the constant
// true, or an accumulator over an iteration that is updated on EVERY
// iteration (a flag set to true, or the length of a slice appended to), so
// that it can only be false when the iteration yielded nothing.

func isLoopHeaderPhi(phi *ssa.Phi) (backIdx []int, ok bool) {
	b := phi.Block()
	for i, pr := range b.Preds {
		if b.Dominates(pr) {
			backIdx = append(backIdx, i)
		}
	}
	return backIdx, len(backIdx) > 0
}

// accumulates: v, an accumulator value, is updated on every trip of every
// loop it is carried through. kind "flag": updates are the constant true;
// kind "slice": updates are appends to the carried value (or calls that
// preserve non-emptiness).
func accumulates(p *core.Program, v ssa.Value, kind string, depth int, seen map[ssa.Value]bool) (bool, string) {
	if depth > 6 {
		return false, "value chain too deep"
	}
	if seen[v] {
		return true, ""
	}
	seen[v] = true
	switch x := v.(type) {
	case *ssa.Const:
		if kind == "flag" {
			return true, "" // initial false or an update to true
		}
		return true, "" // nil slice: nothing iterated yet
	case *ssa.Phi:
		back, isHeader := isLoopHeaderPhi(x)
		isBack := map[int]bool{}
		for _, i := range back {
			isBack[i] = true
		}
		for i, e := range x.Edges {
			if isHeader && isBack[i] {
				// the value carried round the loop: must not be the header phi itself on any path
				if carriesUnchanged(e, x, map[ssa.Value]bool{}) {
					return false, fmt.Sprintf("the accumulator is left unchanged on some iterations of the loop at %s (it is updated only under a condition)", p.Pos(firstPos(x.Block())))
				}
				if kind == "flag" && !allConstTrue(e, x, map[ssa.Value]bool{}) {
					return false, "the flag is assigned something other than true inside the loop"
				}
			}
			if ok, why := accumulates(p, e, kind, depth+1, seen); !ok {
				return false, why
			}
		}
		return true, ""
	case *ssa.Call:
		if bi, ok := x.Call.Value.(*ssa.Builtin); ok && bi.Name() == "append" && kind == "slice" {
			return accumulates(p, x.Call.Args[0], kind, depth+1, seen)
		}
		return false, "value comes from call " + core.CalleeName(&x.Call)
	case *ssa.Extract:
		call, ok := x.Tuple.(*ssa.Call)
		if !ok || kind != "slice" {
			return false, "unexpected tuple"
		}
		g := call.Call.StaticCallee()
		if g == nil || g.Blocks == nil || !strings.HasSuffix(core.FuncPkgPath(g), "/"+statePkg) {
			return false, "slice comes from " + core.CalleeName(&call.Call)
		}
		// the callee's result accumulates over one of its slice parameters; then that argument must accumulate too
		j, ok, why := resultAccumulatesOverParam(p, g, x.Index, depth+1)
		if !ok {
			return false, core.FuncName(g) + ": " + why
		}
		return accumulates(p, call.Call.Args[j], kind, depth+1, seen)
	case *ssa.Parameter:
		return false, "parameter " + x.Name()
	case *ssa.UnOp:
		if x.Op == token.NOT {
			return false, "negation"
		}
		// load of a local cell
		if a, ok := x.X.(*ssa.Alloc); ok {
			_ = a
		}
		return false, "loaded from memory"
	}
	return false, fmt.Sprintf("unrecognised value %T", v)
}

func firstPos(b *ssa.BasicBlock) token.Pos {
	for _, in := range b.Instrs {
		if in.Pos().IsValid() {
			return in.Pos()
		}
	}
	return token.NoPos
}

// carriesUnchanged: following only phis that are not loop headers, does v
// include the header phi h itself (some path left the accumulator untouched)?
func carriesUnchanged(v ssa.Value, h *ssa.Phi, seen map[ssa.Value]bool) bool {
	if v == ssa.Value(h) {
		return true
	}
	if seen[v] {
		return false
	}
	seen[v] = true
	if phi, ok := v.(*ssa.Phi); ok {
		// an inner loop's header phi whose entry value is h: the inner loop may run zero times
		for _, e := range phi.Edges {
			if carriesUnchanged(e, h, seen) {
				return true
			}
		}
	}
	return false
}

func allConstTrue(v ssa.Value, h *ssa.Phi, seen map[ssa.Value]bool) bool {
	if seen[v] {
		return true
	}
	seen[v] = true
	switch x := v.(type) {
	case *ssa.Const:
		b, ok := core.ConstBool(x)
		return ok && b
	case *ssa.Phi:
		for _, e := range x.Edges {
			if e == ssa.Value(h) {
				continue
			}
			if !allConstTrue(e, h, seen) {
				return false
			}
		}
		return true
	}
	return false
}

// resultAccumulatesOverParam: g's idx-th result, on its successful returns,
// is a slice accumulated on every trip of a loop over one of g's slice
// parameters; returns that parameter's index.
func resultAccumulatesOverParam(p *core.Program, g *ssa.Function, idx int, depth int) (int, bool, string) {
	for _, rt := range core.Returns(g) {
		if core.ClassifyReturn(rt) == core.RetFailure {
			continue
		}
		v := core.ResolveResult(rt, idx)
		if ok, why := accumulates(p, v, "slice", depth, map[ssa.Value]bool{}); !ok {
			return 0, false, why
		}
		// which parameter does the loop range over? the header phi's loop reads elements of it
		phi := headerPhiOf(v)
		if phi == nil {
			return 0, false, "result is not built in a loop"
		}
		hb := phi.Block()
		for _, b := range g.Blocks {
			if !hb.Dominates(b) {
				continue
			}
			for _, in := range b.Instrs {
				var base ssa.Value
				switch x := in.(type) {
				case *ssa.IndexAddr:
					base = x.X
				case *ssa.Index:
					base = x.X
				}
				if par, ok := base.(*ssa.Parameter); ok {
					for j, q := range g.Params {
						if q == par {
							return j, true, ""
						}
					}
				}
			}
		}
		return 0, false, "the loop does not range over a parameter"
	}
	return 0, false, "no successful return"
}

func headerPhiOf(v ssa.Value) *ssa.Phi {
	seen := map[ssa.Value]bool{}
	for i := 0; i < 8 && v != nil && !seen[v]; i++ {
		seen[v] = true
		switch x := v.(type) {
		case *ssa.Phi:
			if _, ok := isLoopHeaderPhi(x); ok {
				return x
			}
			var next ssa.Value
			for _, e := range x.Edges {
				if _, isC := e.(*ssa.Const); !isC {
					next = e
				}
			}
			v = next
		case *ssa.Call:
			if bi, ok := x.Call.Value.(*ssa.Builtin); ok && bi.Name() == "append" {
				v = x.Call.Args[0]
			} else {
				return nil
			}
		default:
			return nil
		}
	}
	return nil
}

func checkServiceExistsArgument(c *Ctx) {
	p, r := c.P, c.R
	targets := map[string]bool{"maxIndexForService": true, "maxIndexAndWatchChForService": true}
	perFn := map[string]int{}
	for _, f := range p.SrcFuncs(statePkg) {
		for _, b := range f.Blocks {
			for _, in := range b.Instrs {
				ci, ok := in.(ssa.CallInstruction)
				if !ok {
					continue
				}
				g := ci.Common().StaticCallee()
				if g == nil || !targets[g.Name()] || len(ci.Common().Args) < 3 {
					continue
				}
				arg := ci.Common().Args[2]
				base := core.FuncName(f) + "→" + g.Name()
				perFn[base]++
				construct := base
				if perFn[base] > 1 {
					construct = fmt.Sprintf("%s#%d", base, perFn[base])
				}
				pos := p.Pos(in.Pos())
				// the wrapper passes its own parameter on: its callers are judged
				if par, ok := arg.(*ssa.Parameter); ok && targets[f.Name()] {
					r.Hold("C06.X", construct, pos, "wrapper: passes parameter "+par.Name()+" on; its call sites are judged")
					continue
				}
				if k, ok := core.ConstBool(arg); ok {
					if k {
						r.Hold("C06.X", construct, pos, "claims existence: the service's own index (or the table's) is used, never the extinction index")
					} else if why, ok := belowEmptyAccumulatorEdge(p, in); ok {
						r.Hold("C06.X", construct, pos, "declared absent only below the edge on which "+why)
					} else {
						r.Violate("C06.X", construct, pos, "the service is declared absent unconditionally: the extinction index is reported even while instances exist")
					}
					continue
				}
				var ok2 bool
				var why string
				// len(slice) > 0
				if cmp, isCmp := arg.(*ssa.BinOp); isCmp && (cmp.Op == token.GTR || cmp.Op == token.NEQ) {
					if k, isK := core.ConstInt(cmp.Y); isK && k == 0 {
						if lc, isCall := cmp.X.(*ssa.Call); isCall {
							if bi, isB := lc.Call.Value.(*ssa.Builtin); isB && bi.Name() == "len" {
								ok2, why = accumulates(p, lc.Call.Args[0], "slice", 0, map[ssa.Value]bool{})
								if ok2 && headerPhiOf(sliceRoot(lc.Call.Args[0])) == nil && !fromAccumulatingCall(lc.Call.Args[0]) {
									ok2, why = false, "the slice is not built in a loop"
								}
							}
						}
					}
					if !ok2 && why == "" {
						why = "unrecognised comparison"
					}
				} else {
					ok2, why = accumulates(p, arg, "flag", 0, map[ssa.Value]bool{})
				}
				if ok2 {
					r.Hold("C06.X", construct, pos, "false only when the iteration over the service's instances yielded nothing")
				} else {
					r.Violate("C06.X", construct, pos, "the 'service exists' argument can be false although the iteration yielded instances ("+why+"): the extinction index — an older value — is then reported for a service that still exists, so the index of this query can go backwards and a blocked query misses the change")
				}
			}
		}
	}
	r.Floor("C06.X", 8)
}

func sliceRoot(v ssa.Value) ssa.Value { return v }

// fromAccumulatingCall: the slice is the (checked) result of a state helper.
func fromAccumulatingCall(v ssa.Value) bool {
	seen := map[ssa.Value]bool{}
	var visit func(v ssa.Value) bool
	visit = func(v ssa.Value) bool {
		if seen[v] {
			return false
		}
		seen[v] = true
		switch x := v.(type) {
		case *ssa.Extract:
			_, ok := x.Tuple.(*ssa.Call)
			return ok
		case *ssa.Phi:
			for _, e := range x.Edges {
				if visit(e) {
					return true
				}
			}
		case *ssa.Call:
			if bi, ok := x.Call.Value.(*ssa.Builtin); ok && bi.Name() == "append" {
				return visit(x.Call.Args[0])
			}
		}
		return false
	}
	return visit(v)
}

// belowEmptyAccumulatorEdge: the instruction is reachable only through an
// edge on which a per-iteration accumulator (a slice appended to, or a map
// updated, on every trip of the row loop) is empty.
func belowEmptyAccumulatorEdge(p *core.Program, at ssa.Instruction) (string, bool) {
	f := at.Parent()
	for _, b := range f.Blocks {
		for _, in := range b.Instrs {
			cmp, ok := in.(*ssa.BinOp)
			if !ok {
				continue
			}
			k, isK := core.ConstInt(cmp.Y)
			lc, isCall := cmp.X.(*ssa.Call)
			if !isK || k != 0 || !isCall {
				continue
			}
			bi, isB := lc.Call.Value.(*ssa.Builtin)
			if !isB || bi.Name() != "len" {
				continue
			}
			te, fe := core.CondEdges(cmp)
			var empty []core.Edge
			switch cmp.Op {
			case token.GTR, token.NEQ:
				empty = fe
			case token.EQL:
				empty = te
			default:
				continue
			}
			if len(empty) == 0 || !core.CutMakesUnreachable(f, nil, empty, at) {
				continue
			}
			x := lc.Call.Args[0]
			if _, isMap := x.Type().Underlying().(*types.Map); isMap {
				if mapUpdatedEveryTrip(x) {
					return "a map filled on every iteration over the instances is empty", true
				}
				continue
			}
			if ok, _ := accumulates(p, x, "slice", 0, map[ssa.Value]bool{}); ok && headerPhiOf(x) != nil {
				return "the slice of all iterated instances is empty", true
			}
		}
	}
	return "", false
}

func mapUpdatedEveryTrip(m ssa.Value) bool {
	if m.Referrers() == nil {
		return false
	}
	for _, rr := range *m.Referrers() {
		mu, ok := rr.(*ssa.MapUpdate)
		if !ok || mu.Map != m {
			continue
		}
		hb := loopHeaderOf(mu.Block())
		if hb == nil {
			continue
		}
		// from every in-loop successor of the header, the header is not reached again without passing the update
		okAll := true
		for si, s := range hb.Succs {
			if !reachesBlock(s, hb, nil) {
				continue // loop exit
			}
			w := &core.Walk{Stop: func(in ssa.Instruction) bool { return in == ssa.Instruction(mu) }}
			w.FromEdge(hb, si)
			if w.Reached(hb) {
				okAll = false
			}
		}
		if okAll {
			return true
		}
	}
	return false
}

func reachesBlock(from, to *ssa.BasicBlock, seen map[*ssa.BasicBlock]bool) bool {
	if seen == nil {
		seen = map[*ssa.BasicBlock]bool{}
	}
	if from == to {
		return true
	}
	if seen[from] {
		return false
	}
	seen[from] = true
	for _, s := range from.Succs {
		if reachesBlock(s, to, seen) {
			return true
		}
	}
	return false
}
