package rules

import (
	"fmt"
	"go/token"
	"go/types"
	"strings"

	"golang.org/x/tools/go/ssa"

	"verifcheck/internal/core"
)

func init() {
	register(&Rule{ID: "C03", Patterns: []string{"./agent/consul/state", "./agent/consul/fsm"}, Run: runC03})
}

const (
	tblKVs        = "kvs"
	tblTombstones = "tombstones"
	tblSessions   = "sessions"
)

// rowReads: values holding a row read from table with First/FirstWatch in f.
func rowReads(f *ssa.Function, table string) []ssa.Value {
	var out []ssa.Value
	for _, b := range f.Blocks {
		for _, in := range b.Instrs {
			op := core.AsMemdbOp(in)
			if op == nil || !op.TableKnown || op.Table != table {
				continue
			}
			call, ok := in.(*ssa.Call)
			if !ok || call.Referrers() == nil {
				continue
			}
			want := -1
			switch op.Op {
			case "First":
				want = 0
			case "FirstWatch":
				want = 1
			}
			for _, r := range *call.Referrers() {
				if ex, ok := r.(*ssa.Extract); ok && ex.Index == want {
					out = append(out, ex)
				}
			}
		}
	}
	return out
}

// aliasesOf: values in f that are the row itself (through type assertions, phis).
func aliasesOf(f *ssa.Function, roots []ssa.Value) map[ssa.Value]bool {
	isRoot := map[ssa.Value]bool{}
	for _, r := range roots {
		isRoot[r] = true
	}
	out := map[ssa.Value]bool{}
	for r := range isRoot {
		out[r] = true
	}
	for _, b := range f.Blocks {
		for _, in := range b.Instrs {
			v, ok := in.(ssa.Value)
			if !ok {
				continue
			}
			a := core.AccessOf(v)
			if len(a.Fields) == 0 && isRoot[a.Root] {
				out[v] = true
			}
		}
	}
	return out
}

// rowNilAt: is the row known nil / non-nil at block b?
func rowNilAt(aliases map[ssa.Value]bool, b *ssa.BasicBlock) core.Tri {
	for v := range aliases {
		if t := core.NilAtDeep(v, b); t != core.Unknown {
			return t
		}
		// a successful plain (non comma-ok) type assertion in a dominating block also implies non-nil
	}
	// dereference in a dominating position: a load of a field of an alias in block b itself
	return core.Unknown
}

// classifyStored describes a stored value relative to the row and the entry.
func classifyStored(val ssa.Value, aliases map[ssa.Value]bool, entry ssa.Value) string {
	if s, ok := core.ConstString(val); ok {
		return fmt.Sprintf("const:%q", s)
	}
	if n, ok := core.ConstInt(val); ok {
		return fmt.Sprintf("const:%d", n)
	}
	if bo, ok := val.(*ssa.BinOp); ok && bo.Op == token.ADD {
		if n, ok := core.ConstInt(bo.Y); ok && n == 1 {
			inner := classifyStored(bo.X, aliases, entry)
			if strings.HasPrefix(inner, "row.") {
				return inner + "+1"
			}
		}
	}
	if p, ok := val.(*ssa.Parameter); ok {
		if isUint(p.Type()) {
			return "idx"
		}
		return "param:" + p.Name()
	}
	a := core.AccessOf(val)
	if len(a.Fields) > 0 {
		if aliases[a.Root] {
			return "row." + a.LastField()
		}
		if a.Root == entry {
			return "self." + a.LastField()
		}
		// root may be an alias reached through one more assertion
		ra := core.AccessOf(a.Root)
		if len(ra.Fields) == 0 && aliases[ra.Root] {
			return "row." + a.LastField()
		}
	}
	return "other"
}

type fieldStore struct {
	st    *ssa.Store
	field string
}

// storesToFieldsOf: all stores through FieldAddr chains rooted at base
// (entry.F = v, entry.RaftIndex.CreateIndex = v).
func storesToFieldsOf(f *ssa.Function, base ssa.Value) []fieldStore {
	var out []fieldStore
	for _, b := range f.Blocks {
		for _, in := range b.Instrs {
			st, ok := in.(*ssa.Store)
			if !ok {
				continue
			}
			fa, ok := st.Addr.(*ssa.FieldAddr)
			if !ok {
				continue
			}
			// walk up FieldAddr chain
			var cur ssa.Value = fa
			last := ""
			for {
				x, ok := cur.(*ssa.FieldAddr)
				if !ok {
					break
				}
				if last == "" {
					last = core.FieldObj(x).Name()
				}
				cur = x.X
			}
			if cur == base {
				out = append(out, fieldStore{st, last})
			}
		}
	}
	return out
}

// insertsParamInto: does g (transitively, bounded) insert its parameter #pi into table?
func insertsParamInto(p *core.Program, g *ssa.Function, pi int, table string, depth int) bool {
	if g == nil || g.Blocks == nil || depth < 0 || pi >= len(g.Params) {
		return false
	}
	param := g.Params[pi]
	for _, b := range g.Blocks {
		for _, in := range b.Instrs {
			if op := core.AsMemdbOp(in); op != nil {
				if op.Op == "Insert" && op.TableKnown && op.Table == table {
					obj := op.Obj
					if mi, ok := obj.(*ssa.MakeInterface); ok {
						obj = mi.X
					}
					if obj == ssa.Value(param) {
						return true
					}
				}
				continue
			}
			if ci, ok := in.(ssa.CallInstruction); ok {
				h := ci.Common().StaticCallee()
				if h == nil || h.Pkg == nil || !core.IsConsul(h.Pkg.Pkg.Path()) {
					continue
				}
				for ai, a := range ci.Common().Args {
					if a == ssa.Value(param) && insertsParamInto(p, h, ai, table, depth-1) {
						return true
					}
				}
			}
		}
	}
	return false
}

// kvInsertCalls: instructions in f that put `obj` into table kvs: a direct
// Insert, or a call passing obj to a function that inserts that parameter.
type kvInsert struct {
	instr ssa.Instruction
	obj   ssa.Value
}

func kvInsertsIn(p *core.Program, f *ssa.Function) []kvInsert {
	var out []kvInsert
	for _, b := range f.Blocks {
		for _, in := range b.Instrs {
			if op := core.AsMemdbOp(in); op != nil {
				if op.Op == "Insert" && op.TableKnown && op.Table == tblKVs {
					obj := op.Obj
					if mi, ok := obj.(*ssa.MakeInterface); ok {
						obj = mi.X
					}
					out = append(out, kvInsert{in, obj})
				}
				continue
			}
			if ci, ok := in.(ssa.CallInstruction); ok {
				h := ci.Common().StaticCallee()
				if h == nil || h.Pkg == nil || !core.IsConsul(h.Pkg.Pkg.Path()) {
					continue
				}
				for ai, a := range ci.Common().Args {
					if _, isPtr := a.Type().Underlying().(*types.Pointer); !isPtr {
						continue
					}
					if insertsParamInto(p, h, ai, tblKVs, 3) {
						out = append(out, kvInsert{in, a})
					}
				}
			}
		}
	}
	return out
}

func runC03(c *Ctx) {
	p, r := c.P, c.R
	r.Clauses = []string{
		"C03.1 every write to tables kvs/tombstones bumps an index KV readers consult (rule C06.W restricted to these tables)",
		"C03.2 the no-op branch of a set (stored row Equal to the entry) reaches its return without any memdb write, and the object compared is the object inserted (no field of it other than ModifyIndex is assigned between the comparison and the insert)",
		"C03.3 CreateIndex of an inserted entry is the stored row's on the row-exists edge and the log index on the no-row edge, and is assigned on every path to the insert",
		"C03.4 LockIndex/Session of an inserted entry come from the stored row, a constant, or (Session only) the request below a successful session lookup; LockIndex+1 only where the row is unheld; 1 only where there is no row",
		"C03.5 every KV delete leaves a tombstone on every successful path (whole-tree delete with empty prefix excepted)",
		"C03.6 the boolean of every lock/unlock/CAS verb reaches a branch or the result at each call site",
		"C03.8 the KV check-and-set verbs compare the caller's index with the key's ModifyIndex for equality",
		"C03.7 list, tree-delete and tombstone lookup address their tables through the same prefix index with the caller's prefix unmodified",
	}
	r.NotDecided = []string{"equivalence with a sequential reference map over operation histories", "get/list content equality"}

	// ---- C03.1
	sites, _ := stateWriteSites(p)
	perKey := map[string]int{}
	for _, s := range sites {
		if s.op.Table != tblKVs && s.op.Table != tblTombstones {
			continue
		}
		if isRestoreMethod(s.fn) {
			continue
		}
		base := core.FuncName(s.fn) + "/" + s.op.Op + ":" + s.op.Table
		perKey[base]++
		construct := base
		if perKey[base] > 1 {
			construct = fmt.Sprintf("%s#%d", base, perKey[base])
		}
		pos := p.Pos(s.op.Instr.Pos())
		v := decideWriteSite(p, s.op.Table, s.op.Instr, bulkDeleteCut(s.op), 3, map[*ssa.Function]bool{})
		if v.ok {
			r.Hold("C03.1", construct, pos, v.how)
		} else {
			r.Violate("C03.1", construct, pos, "KV write without index bump: "+v.reason, v.path...)
		}
	}
	r.Floor("C03.1", 5)

	// Functions that put one of their own parameters into table kvs after looking the row up.
	for _, f := range p.SrcFuncs(statePkg) {
		if f.Parent() != nil || isRestoreMethod(f) {
			continue
		}
		ins := kvInsertsIn(p, f)
		if len(ins) == 0 {
			continue
		}
		rows := rowReads(f, tblKVs)
		if len(rows) == 0 {
			continue
		}
		aliases := aliasesOf(f, rows)
		name := core.FuncName(f)
		for _, ki := range ins {
			entry := ki.obj
			if _, isParam := entry.(*ssa.Parameter); !isParam {
				continue
			}
			stores := storesToFieldsOf(f, entry)
			checkCreateIndex(c, f, name, ki, entry, stores, aliases)
			checkLockFields(c, f, name, ki, entry, stores, aliases)
		}
		checkNoopBranch(c, f, name, ins, aliases)
	}
	r.Floor("C03.3", 1)
	r.Floor("C03.4.LockIndex", 2)
	r.Floor("C03.4.Session", 2)
	r.Floor("C03.2", 1)

	checkTombstones(c)
	checkPrefixAgreement(c)
	checkKVBoolConsumed(c)
}

// C03.3
func checkCreateIndex(c *Ctx, f *ssa.Function, name string, ki kvInsert, entry ssa.Value, stores []fieldStore, aliases map[ssa.Value]bool) {
	p, r := c.P, c.R
	n := 0
	bad := ""
	for _, fs := range stores {
		if fs.field != "CreateIndex" {
			continue
		}
		n++
		cls := classifyStored(fs.st.Val, aliases, entry)
		rn := rowNilAt(aliases, fs.st.Block())
		switch cls {
		case "row.CreateIndex":
			if rn != core.False {
				bad = fmt.Sprintf("CreateIndex taken from the row at %s where the row is not known to exist", p.Pos(fs.st.Pos()))
			}
		case "idx":
			if rn != core.True {
				bad = fmt.Sprintf("CreateIndex set to the log index at %s on a path where the key may already exist: an existing key's create index changes", p.Pos(fs.st.Pos()))
			}
		default:
			bad = fmt.Sprintf("CreateIndex assigned from %s at %s", cls, p.Pos(fs.st.Pos()))
		}
	}
	if n == 0 {
		return
	}
	// assigned on every path to the insert
	mf := &core.MustFlow{F: f, Gen: func(in ssa.Instruction) []string {
		for _, fs := range stores {
			if fs.field == "CreateIndex" && ssa.Instruction(fs.st) == in {
				return []string{"ci"}
			}
		}
		return nil
	}}
	mf.Run()
	if set, reach := mf.At(ki.instr); reach && !set["ci"] && bad == "" {
		bad = "a path reaches the kvs insert without assigning CreateIndex (the request's value would be stored)"
	}
	if bad != "" {
		r.Violate("C03.3", name, p.Pos(ki.instr.Pos()), bad)
	} else {
		r.Hold("C03.3", name, p.Pos(ki.instr.Pos()), fmt.Sprintf("%d CreateIndex assignments: row's on the exists edge, log index on the no-row edge, on every path to the insert", n))
	}
}

// sessionLookupNonNilAt: a sessions-table lookup result is known non-nil at b.
func sessionLookupNonNilAt(f *ssa.Function, b *ssa.BasicBlock) bool {
	rows := rowReads(f, tblSessions)
	if len(rows) == 0 {
		return false
	}
	al := aliasesOf(f, rows)
	return rowNilAt(al, b) == core.False
}

// C03.4
func checkLockFields(c *Ctx, f *ssa.Function, name string, ki kvInsert, entry ssa.Value, stores []fieldStore, aliases map[ssa.Value]bool) {
	p, r := c.P, c.R
	pos := p.Pos(ki.instr.Pos())
	// the row's Session loads (for the "unheld" fact)
	rowSessionEmptyAt := func(b *ssa.BasicBlock) bool {
		for _, blk := range f.Blocks {
			for _, in := range blk.Instrs {
				cmp, ok := in.(*ssa.BinOp)
				if !ok || (cmp.Op != token.EQL && cmp.Op != token.NEQ) {
					continue
				}
				var other ssa.Value
				if s, ok := core.ConstString(cmp.Y); ok && s == "" {
					other = cmp.X
				} else if s, ok := core.ConstString(cmp.X); ok && s == "" {
					other = cmp.Y
				}
				if other == nil {
					continue
				}
				if classifyStored(other, aliases, entry) != "row.Session" {
					continue
				}
				t := core.CondAt(cmp, b)
				if (cmp.Op == token.EQL && t == core.True) || (cmp.Op == token.NEQ && t == core.False) {
					return true
				}
			}
		}
		return false
	}
	var lockBad, sessBad string
	nLock, nSess := 0, 0
	for _, fs := range stores {
		switch fs.field {
		case "LockIndex":
			nLock++
			cls := classifyStored(fs.st.Val, aliases, entry)
			rn := rowNilAt(aliases, fs.st.Block())
			switch cls {
			case "row.LockIndex":
				if rn != core.False {
					lockBad = "LockIndex copied from a row not known to exist at " + p.Pos(fs.st.Pos())
				}
			case "row.LockIndex+1":
				if rn != core.False || !rowSessionEmptyAt(fs.st.Block()) {
					lockBad = "LockIndex+1 at " + p.Pos(fs.st.Pos()) + " is not confined to the edge where the stored key has no holder: re-acquisition by the holder (or a steal) would advance the lock counter"
				}
			case "const:1":
				if rn != core.True {
					lockBad = "LockIndex reset to 1 at " + p.Pos(fs.st.Pos()) + " on a path where the key may exist: handed-out lock counter values would be re-issued"
				}
			default:
				lockBad = fmt.Sprintf("LockIndex assigned from %s at %s", cls, p.Pos(fs.st.Pos()))
			}
		case "Session":
			nSess++
			cls := classifyStored(fs.st.Val, aliases, entry)
			switch cls {
			case "row.Session":
				if rowNilAt(aliases, fs.st.Block()) != core.False {
					sessBad = "Session copied from a row not known to exist at " + p.Pos(fs.st.Pos())
				}
			case `const:""`:
			default:
				sessBad = fmt.Sprintf("Session assigned from %s at %s", cls, p.Pos(fs.st.Pos()))
			}
		}
	}
	// Session on every path to the insert: either assigned here, or the request's
	// own value below a successful session lookup, or (pass-through functions
	// with an `updateSession`-style flag) the caller vouches — checked at callers.
	var flagParam *ssa.Parameter
	for _, prm := range f.Params {
		if b, ok := prm.Type().Underlying().(*types.Basic); ok && b.Kind() == types.Bool {
			flagParam = prm
		}
	}
	isSessStore := func(in ssa.Instruction) bool {
		for _, fs := range stores {
			if fs.field == "Session" && ssa.Instruction(fs.st) == in {
				return true
			}
		}
		return false
	}
	isLockStore := func(in ssa.Instruction) bool {
		for _, fs := range stores {
			if fs.field == "LockIndex" && ssa.Instruction(fs.st) == in {
				return true
			}
		}
		return false
	}
	var cut func(*ssa.BasicBlock, int) bool
	if flagParam != nil {
		te, _ := core.CondEdges(flagParam)
		m := map[core.Edge]bool{}
		for _, e := range te {
			m[e] = true
		}
		cut = func(b *ssa.BasicBlock, si int) bool { return m[core.Edge{From: b, Succ: si}] }
	}
	mf := &core.MustFlow{F: f, Cut: cut, Gen: func(in ssa.Instruction) []string {
		var out []string
		if isSessStore(in) {
			out = append(out, "session")
		}
		if isLockStore(in) {
			out = append(out, "lock")
		}
		return out
	}}
	mf.Run()
	set, reach := mf.At(ki.instr)
	// pass-through: the insert is a call into a function that looks the row up
	// itself and is told (constant false flag) to inherit the holder: the
	// inheritance is that function's obligation, checked there.
	if ci, ok := ki.instr.(ssa.CallInstruction); ok {
		if g := ci.Common().StaticCallee(); g != nil && len(rowReads(g, tblKVs)) > 0 {
			for i, prm := range g.Params {
				if b, ok := prm.Type().Underlying().(*types.Basic); ok && b.Kind() == types.Bool && i < len(ci.Common().Args) {
					if v, ok := core.ConstBool(ci.Common().Args[i]); ok && !v {
						reach = false
					}
				}
			}
		}
	}
	if sessBad == "" && reach && !set["session"] {
		if !sessionLookupNonNilAt(f, ki.instr.Block()) {
			sessBad = "a path reaches the kvs insert with the request's own Session, neither replaced by the stored holder/\"\" nor vouched for by a successful session lookup: a key can end up held by a session that does not exist"
		}
	}
	if sessBad != "" {
		r.Violate("C03.4.Session", name, pos, sessBad)
	} else {
		r.Hold("C03.4.Session", name, pos, fmt.Sprintf("%d Session assignments; every path to the insert stores the row's holder or \"\", or lies below a successful session lookup", nSess))
	}
	// LockIndex: on every path on which the Session is taken over from the row
	// (plain set), the lock counter must be taken over as well.
	if lockBad == "" && reach && set["session"] && !set["lock"] && nLock == 0 && nSess > 0 {
		lockBad = "the stored holder (Session) is inherited from the row but LockIndex is whatever the request carried: a plain set on a held key resets the lock counter"
	}
	if lockBad != "" {
		r.Violate("C03.4.LockIndex", name, pos, lockBad)
	} else {
		r.Hold("C03.4.LockIndex", name, pos, fmt.Sprintf("%d LockIndex assignments, each from the row / row+1 on the unheld edge / 1 on the no-row edge", nLock))
	}
	// call sites passing updateSession=true must vouch for the Session
	if flagParam != nil {
		fi := core.ParamIndex(flagParam)
		for _, ci := range callersOf(p, f, statePkg) {
			args := ci.Common().Args
			if fi >= len(args) {
				continue
			}
			if b, ok := core.ConstBool(args[fi]); !ok || !b {
				if !ok {
					r.Undecide("C03.4.Session", name+"<-"+core.FuncName(ci.Parent()), p.Pos(ci.Pos()), "non-constant updateSession flag")
				}
				continue
			}
			caller := ci.Parent()
			cname := name + "<-" + core.FuncName(caller)
			ei := -1
			for i, prm := range f.Params {
				if prm == entry {
					ei = i
				}
			}
			if ei < 0 || ei >= len(args) {
				continue
			}
			centry := args[ei]
			// vouched: successful session lookup dominates the call, or the caller stores "" into Session on every path
			cstores := storesToFieldsOf(caller, centry)
			mf2 := &core.MustFlow{F: caller, Gen: func(in ssa.Instruction) []string {
				for _, fs := range cstores {
					if fs.field == "Session" && ssa.Instruction(fs.st) == in {
						if s, ok := core.ConstString(fs.st.Val); ok && s == "" {
							return []string{"cleared"}
						}
					}
				}
				return nil
			}}
			mf2.Run()
			set2, _ := mf2.At(ci)
			if sessionLookupNonNilAt(caller, ci.Block()) || set2["cleared"] {
				r.Hold("C03.4.Session", cname, p.Pos(ci.Pos()), "caller sets the holder itself: below a successful session lookup, or clears it")
			} else {
				r.Violate("C03.4.Session", cname, p.Pos(ci.Pos()), "the caller asks to store the request's Session without a successful session lookup dominating the call")
			}
		}
	}
}

// C03.2
func checkNoopBranch(c *Ctx, f *ssa.Function, name string, ins []kvInsert, aliases map[ssa.Value]bool) {
	p, r := c.P, c.R
	for _, b := range f.Blocks {
		for _, in := range b.Instrs {
			call, ok := in.(*ssa.Call)
			if !ok {
				continue
			}
			callee := call.Call.StaticCallee()
			if callee == nil || callee.Name() != "Equal" || len(call.Call.Args) != 2 {
				continue
			}
			recv := core.AccessOf(call.Call.Args[0])
			if !(len(recv.Fields) == 0 && aliases[recv.Root]) && !aliases[call.Call.Args[0]] {
				continue
			}
			other := call.Call.Args[1]
			pos := p.Pos(call.Pos())
			te, fe := core.CondEdges(call)
			if len(te) == 0 {
				r.Undecide("C03.2", name, pos, "result of Equal does not feed a branch")
				continue
			}
			// (a) equal edge: no memdb write before return
			bad := ""
			for _, e := range te {
				w := &core.Walk{Visit: func(i ssa.Instruction) {
					if op := core.AsMemdbOp(i); op != nil && op.IsWrite() {
						bad = "a memdb write at " + p.Pos(i.Pos()) + " is reachable on the branch where the stored entry equals the new one: an unchanged set would advance the modify index"
					}
					if ci, ok := i.(ssa.CallInstruction); ok {
						if g := ci.Common().StaticCallee(); g != nil && mayWrite(p, g) {
							bad = "a writing call at " + p.Pos(i.Pos()) + " is reachable on the branch where the stored entry equals the new one"
						}
					}
				}}
				w.FromEdge(e.From, e.Succ)
			}
			// (b) between the comparison and the insert no compared field changes
			stores := storesToFieldsOf(f, other)
			for _, e := range fe {
				w := &core.Walk{Visit: func(i ssa.Instruction) {
					for _, fs := range stores {
						if ssa.Instruction(fs.st) == i && fs.field != "ModifyIndex" {
							bad = fmt.Sprintf("field %s of the entry is assigned at %s after it was compared with the stored row: the object compared is not the object stored, an identical write is stored again", fs.field, p.Pos(i.Pos()))
						}
					}
				}}
				w.FromEdge(e.From, e.Succ)
			}
			// (c) the comparison dominates every kvs insert of that object
			for _, ki := range ins {
				if ki.obj != other {
					continue
				}
				edges := append([]core.Edge{}, fe...)
				for al := range aliases {
					for _, cmp := range nilCmps(al) {
						cte, cfe := core.CondEdges(cmp)
						if cmp.Op == token.EQL {
							edges = append(edges, cte...)
						} else {
							edges = append(edges, cfe...)
						}
					}
				}
				if !core.CutMakesUnreachable(f, nil, edges, ki.instr) {
					bad = "the kvs insert at " + p.Pos(ki.instr.Pos()) + " is reachable without passing the not-equal edge of the comparison with the stored row"
				}
			}
			if bad != "" {
				r.Violate("C03.2", name, pos, bad)
			} else {
				r.Hold("C03.2", name, pos, "equal ⇒ return without write; compared object is the stored object; the insert lies below the not-equal edge")
			}
		}
	}
}

// nilCmps: comparisons of v with nil.
func nilCmps(v ssa.Value) []*ssa.BinOp {
	var out []*ssa.BinOp
	if v.Referrers() == nil {
		return nil
	}
	for _, r := range *v.Referrers() {
		if b, ok := r.(*ssa.BinOp); ok && (b.Op == token.EQL || b.Op == token.NEQ) {
			if (b.X == v && core.IsNilConst(b.Y)) || (b.Y == v && core.IsNilConst(b.X)) {
				out = append(out, b)
			}
		}
	}
	return out
}

// C03.5
func checkTombstones(c *Ctx) {
	p, r := c.P, c.R
	isTomb := func(in ssa.Instruction) bool {
		ci, ok := in.(ssa.CallInstruction)
		if !ok {
			return false
		}
		g := ci.Common().StaticCallee()
		if g == nil {
			return false
		}
		// a function that inserts into table tombstones
		return insertsInto(p, g, tblTombstones, 3)
	}
	var decide func(from ssa.Instruction, whole *ssa.Function, cut func(*ssa.BasicBlock, int) bool, frames int) (bool, string)
	decide = func(from ssa.Instruction, f *ssa.Function, cut func(*ssa.BasicBlock, int) bool, frames int) (bool, string) {
		// tombstone anywhere on every path through `from` to a successful return: (before) must at from, or (after) must from `from` to returns
		mfBefore := &core.MustFlow{F: f, Gen: func(in ssa.Instruction) []string {
			if isTomb(in) {
				return []string{"t"}
			}
			return nil
		}}
		mfBefore.Run()
		if set, reach := mfBefore.At(from); reach && set["t"] {
			return true, "tombstone inserted before the delete in " + core.FuncName(f)
		}
		ff := core.NewFlagFlow(from)
		mfAfter := &core.MustFlow{F: f, Start: from, Gen: func(in ssa.Instruction) []string {
			if isTomb(in) {
				return []string{"t"}
			}
			return nil
		}, Cut: func(b *ssa.BasicBlock, si int) bool {
			return ff.Infeasible(b, si) || (cut != nil && cut(b, si))
		}}
		mfAfter.Run()
		allOK, any := true, false
		for _, rt := range core.Returns(f) {
			if core.ClassifyReturn(rt) == core.RetFailure {
				continue
			}
			set, reach := mfAfter.At(rt)
			if !reach {
				continue
			}
			any = true
			if !set["t"] {
				allOK = false
			}
		}
		if any && allOK {
			return true, "tombstone inserted after the delete on every successful path in " + core.FuncName(f)
		}
		if !any {
			return true, "no successful return after the delete"
		}
		if frames == 0 {
			return false, "caller-frame bound reached in " + core.FuncName(f)
		}
		callers := callersOf(p, f, statePkg)
		if len(callers) == 0 {
			return false, "no tombstone on a successful path through the delete in " + core.FuncName(f)
		}
		for _, ci := range callers {
			if isRestoreMethod(ci.Parent()) {
				continue
			}
			ok, why := decide(ci, ci.Parent(), nil, frames-1)
			if !ok {
				return false, why
			}
		}
		return true, "in every caller"
	}
	sites, _ := stateWriteSites(p)
	n := 0
	for _, s := range sites {
		if s.op.Table != tblKVs || s.op.Op == "Insert" || isRestoreMethod(s.fn) {
			continue
		}
		n++
		construct := core.FuncName(s.fn) + "/" + s.op.Op
		cut := bulkDeleteCut(s.op)
		if s.op.Op == "DeletePrefix" && len(s.op.Args) > 0 {
			// whole-tree delete (prefix == ""): documented exception — the edge on which the prefix is empty is outside the rule
			prefix := s.op.Args[0]
			inner := cut
			emptyEdges := map[core.Edge]bool{}
			for _, b := range s.fn.Blocks {
				for _, in := range b.Instrs {
					cmp, ok := in.(*ssa.BinOp)
					if !ok || (cmp.Op != token.EQL && cmp.Op != token.NEQ) {
						continue
					}
					var other ssa.Value
					if sv, ok := core.ConstString(cmp.Y); ok && sv == "" {
						other = cmp.X
					} else if sv, ok := core.ConstString(cmp.X); ok && sv == "" {
						other = cmp.Y
					}
					if other != prefix {
						continue
					}
					te, fe := core.CondEdges(cmp)
					empty := te
					if cmp.Op == token.NEQ {
						empty = fe
					}
					for _, e := range empty {
						emptyEdges[e] = true
					}
				}
			}
			cut = func(b *ssa.BasicBlock, si int) bool {
				return emptyEdges[core.Edge{From: b, Succ: si}] || (inner != nil && inner(b, si))
			}
		}
		ok, why := decide(s.op.Instr, s.fn, cut, 3)
		if ok {
			r.Hold("C03.5", construct, p.Pos(s.op.Instr.Pos()), why)
		} else {
			r.Violate("C03.5", construct, p.Pos(s.op.Instr.Pos()), "a KV delete can complete without leaving a tombstone: list/keys indexes of the parent prefix would not advance ("+why+")")
		}
	}
	r.Floor("C03.5", 2)
}

// insertsInto: g (transitively) inserts into table.
func insertsInto(p *core.Program, g *ssa.Function, table string, depth int) bool {
	if g == nil || g.Blocks == nil {
		return false
	}
	depth = 1 << 20 // unbounded: the memo must not depend on the depth at which a function was first reached
	key := fmt.Sprintf("insertsInto:%s:%s", table, g.String())
	if v, ok := p.MemoGet(key); ok {
		return v.(bool)
	}
	p.MemoSet(key, false)
	res := false
	for _, b := range g.Blocks {
		for _, in := range b.Instrs {
			if op := core.AsMemdbOp(in); op != nil {
				if op.Op == "Insert" && op.TableKnown && op.Table == table {
					res = true
				}
				if op.Op != "Commit" {
					continue
				}
			}
			if ci, ok := in.(ssa.CallInstruction); ok {
				if h := ci.Common().StaticCallee(); h != nil && h.Pkg != nil && core.IsConsul(h.Pkg.Pkg.Path()) {
					if insertsInto(p, h, table, depth-1) {
						res = true
					}
				}
			}
		}
	}
	p.MemoSet(key, res)
	return res
}

// C03.7
func checkPrefixAgreement(c *Ctx) {
	p, r := c.P, c.R
	type use struct {
		fn    *ssa.Function
		op    *core.MemdbOp
		index string
	}
	var uses []use
	for _, f := range p.SrcFuncs(statePkg) {
		for _, b := range f.Blocks {
			for _, in := range b.Instrs {
				op := core.AsMemdbOp(in)
				if op == nil || !op.TableKnown || (op.Table != tblKVs && op.Table != tblTombstones) {
					continue
				}
				if op.Op != "Get" && op.Op != "DeletePrefix" {
					continue
				}
				if !op.IndexKnown {
					r.Undecide("C03.7", core.FuncName(f)+"/"+op.Op+":"+op.Table, p.Pos(in.Pos()), "non-constant index name")
					continue
				}
				uses = append(uses, use{f, op, op.Index})
			}
		}
	}
	names := map[string]bool{}
	for _, u := range uses {
		if strings.HasSuffix(u.index, "_prefix") {
			names[u.index] = true
		}
	}
	for _, u := range uses {
		construct := core.FuncName(u.fn) + "/" + u.op.Op + ":" + u.op.Table
		pos := p.Pos(u.op.Instr.Pos())
		if !strings.HasSuffix(u.index, "_prefix") {
			// a prefix-style operation (list under a prefix / delete tree) through a non-prefix index
			if u.op.Op == "DeletePrefix" {
				r.Violate("C03.7", construct, pos, "tree delete uses index "+u.index+" which is not the prefix index the list uses")
			}
			continue
		}
		if len(names) != 1 {
			r.Violate("C03.7", construct, pos, fmt.Sprintf("prefix operations on kvs/tombstones use different index names %v: list and tree-delete would disagree on what is under a prefix", sortedKeys(names)))
			continue
		}
		// the prefix argument is the function's own parameter, unmodified (or a Query built around it)
		okArg := false
		if len(u.op.Args) == 0 {
			r.Hold("C03.7", construct, pos, "full scan through "+u.index+" (no prefix)")
			continue
		}
		if len(u.op.Args) > 0 {
			a := u.op.Args[0]
			if mi, ok := a.(*ssa.MakeInterface); ok {
				a = mi.X
			}
			if _, isParam := a.(*ssa.Parameter); isParam {
				okArg = true
			} else if ld, ok := a.(*ssa.UnOp); ok && ld.Op == token.MUL {
				// Query{Value: prefix}: a struct local whose Value field is stored from a parameter
				if al, ok := ld.X.(*ssa.Alloc); ok {
					for _, fs := range storesToFieldsOf(u.fn, al) {
						if fs.field == "Value" {
							_, okArg = fs.st.Val.(*ssa.Parameter)
						}
					}
				}
			}
		}
		if okArg {
			r.Hold("C03.7", construct, pos, "prefix index "+u.index+" with the caller's prefix")
		} else {
			r.Violate("C03.7", construct, pos, "the prefix handed to the "+u.index+" index is not the caller's prefix unmodified")
		}
	}
	r.Floor("C03.7", 3)

	// ---- C03.8: the KV check-and-set verbs test the caller's index for equality (rule C10.8 on the KV functions)
	for _, cs := range discoverCAS(p) {
		touchesKV := false
		for _, b := range cs.fn.Blocks {
			for _, in := range b.Instrs {
				if op := core.AsMemdbOp(in); op != nil && op.TableKnown && op.Table == "kvs" {
					touchesKV = true
				}
			}
		}
		if !touchesKV {
			continue
		}
		construct := core.FuncName(cs.fn) + "/" + cs.stored
		if cs.cmp.Op == token.EQL || cs.cmp.Op == token.NEQ {
			r.Hold("C03.8", construct, p.Pos(cs.cmp.Pos()), "the caller's index is tested for equality with the key's ModifyIndex")
		} else {
			r.Violate("C03.8", construct, p.Pos(cs.cmp.Pos()), "a KV check-and-set verb compares the caller's index with the key's ModifyIndex by '"+cs.cmp.Op.String()+"': a verb carrying an index the key never had succeeds, which the sequential model refuses")
		}
	}
	r.Floor("C03.8", 3)
}

// C03.6
func checkKVBoolConsumed(c *Ctx) {
	p, r := c.P, c.R
	targets := map[string]bool{"kvsLockTxn": true, "kvsUnlockTxn": true, "kvsSetCASTxn": true, "kvsDeleteCASTxn": true, "KVSLock": true, "KVSUnlock": true, "KVSSetCAS": true, "KVSDeleteCAS": true}
	n := 0
	for _, rel := range []string{statePkg, "agent/consul/fsm"} {
		for _, f := range p.SrcFuncs(rel) {
			for _, b := range f.Blocks {
				for _, in := range b.Instrs {
					call, ok := in.(*ssa.Call)
					if !ok {
						continue
					}
					g := call.Call.StaticCallee()
					if g == nil || g.Pkg == nil || g.Pkg.Pkg.Path() != core.ConsulModulePrefix+"/"+statePkg || !targets[g.Name()] || boolResultIndex(g) < 0 {
						continue
					}
					n++
					construct := core.FuncName(f) + "→" + core.FuncName(g)
					used := false
					if call.Referrers() != nil {
						for _, rr := range *call.Referrers() {
							if ex, ok := rr.(*ssa.Extract); ok && ex.Index == boolResultIndex(g) {
								core.ForwardUses(ex, func(u ssa.Instruction, _ ssa.Value) {
									switch u.(type) {
									case *ssa.If, *ssa.Return, *ssa.Store, *ssa.MakeInterface:
										used = true
									}
								})
							}
							if _, ok := rr.(*ssa.Return); ok {
								used = true
							}
						}
					}
					if used {
						r.Hold("C03.6", construct, p.Pos(call.Pos()), "boolean consumed")
					} else {
						r.Violate("C03.6", construct, p.Pos(call.Pos()), "the success/failure boolean of a conditional KV verb is dropped")
					}
				}
			}
		}
	}
	r.Floor("C03.6", 8)
}
