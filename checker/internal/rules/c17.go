package rules

import (
	"go/types"
	"sort"
	"fmt"
	"go/token"
	"strings"

	"golang.org/x/tools/go/ssa"

	"verifcheck/internal/core"
)

func init() {
	register(&Rule{ID: "C17", Patterns: []string{"./agent/grpc-external/services/peerstream", "./agent/consul/state"}, Run: runC17})
}

const peerstreamPkg = "agent/grpc-external/services/peerstream"

func derivesFromParamNamed(v ssa.Value, name string) bool {
	for _, leaf := range core.Leaves(v, core.SliceOpts{}) {
		switch x := leaf.(type) {
		case *ssa.Parameter:
			if x.Name() == name {
				return true
			}
		case *ssa.FreeVar:
			if x.Name() == name {
				return true
			}
		}
	}
	return false
}

func runC17(c *Ctx) {
	p, r := c.P, c.R
	r.Clauses = []string{
		"C17.1 every catalog registration or deregistration issued while processing a peer's stream carries that peer's name: deregister requests take PeerName from the handler's peer parameter, register requests are built from a snapshot whose nodes, services and checks are all stamped with it",
		"C17.2 the exporting side adds a service to the set offered to a peer only below a match of one of the entry's consumers with that peer",
		"C17.3 services that are no longer exported are pruned: every previously imported service name missing from the new list is handed to the update handler with a nil export",
		"C17.6 on the exporting side, every reconciliation of the subscription state with the exported list walks the state it keeps (watched services, connect services) on every path, so that what is no longer exported is cancelled / deleted — also when the new list is empty",
		"C17.5 in every state-store function that is told which peer it works for, writes to the tables that exist only for the local cluster (coordinates, sessions, session links, KV, prepared queries) lie below the peer-name-empty edge: handling imported data never touches them",
		"C17.4 a stored instance is kept only if the received snapshot holds it on the same node: the membership tests that guard a service deregistration are keyed by the node (or nested under a node lookup)",
	}
	r.NotDecided = []string{"exact reconciliation for all prior-state/snapshot pairs", "that data of other peers is untouched (follows from C17.1 only for the requests issued here)"}

	// ---- C17.1
	nDereg, nReg := 0, 0
	for _, f := range p.SrcFuncs(peerstreamPkg) {
		for _, b := range f.Blocks {
			for _, in := range b.Instrs {
				ci, ok := in.(ssa.CallInstruction)
				if !ok || !ci.Common().IsInvoke() {
					continue
				}
				mn := ci.Common().Method.Name()
				if mn != "CatalogRegister" && mn != "CatalogDeregister" {
					continue
				}
				req := ci.Common().Args[0]
				construct := fmt.Sprintf("%s/%s%s", core.FuncName(f), mn, lineOf(p, in))
				pos := p.Pos(in.Pos())
				if mn == "CatalogDeregister" {
					nDereg++
					okStamp := false
					for _, fs := range storesToFieldsOf(f, req) {
						if fs.field == "PeerName" && derivesFromParamNamed(fs.st.Val, "peerName") {
							okStamp = true
						}
					}
					if okStamp {
						r.Hold("C17.1", construct, pos, "PeerName taken from the handler's peer parameter")
					} else {
						r.Violate("C17.1", construct, pos, "a deregistration issued while processing a peer stream does not carry that peer's name: it removes the same-named node/service/check of the local cluster (PeerName \"\") or of another peer")
					}
					continue
				}
				nReg++
				// register: the request derives from a snapshot built with the peer name
				fromSnap := false
				for _, leaf := range core.Leaves(req, core.SliceOpts{ThroughCalls: true}) {
					if call, ok := leaf.(*ssa.Call); ok {
						if g := call.Call.StaticCallee(); g != nil && g.Name() == "newHealthSnapshot" {
							for _, a := range call.Call.Args {
								if derivesFromParamNamed(a, "peerName") {
									fromSnap = true
								}
							}
						}
					}
				}
				if fromSnap {
					r.Hold("C17.1", construct, pos, "request built from the peer-stamped health snapshot")
				} else {
					r.Violate("C17.1", construct, pos, "a registration issued while processing a peer stream is not built from the snapshot stamped with the peer name")
				}
			}
		}
	}
	if hs := p.Func(peerstreamPkg, "newHealthSnapshot"); hs != nil {
		stamped := map[string]bool{}
		for _, b := range hs.Blocks {
			for _, in := range b.Instrs {
				st, ok := in.(*ssa.Store)
				if !ok {
					continue
				}
				fa, ok := st.Addr.(*ssa.FieldAddr)
				if !ok || core.FieldObj(fa).Name() != "PeerName" {
					continue
				}
				if !derivesFromParamNamed(st.Val, "peerName") {
					continue
				}
				if n := core.NamedOf(fa.X.Type()); n != nil {
					stamped[n.Obj().Name()] = true
				}
			}
		}
		for _, want := range []string{"Node", "NodeService", "HealthCheck"} {
			construct := "newHealthSnapshot/" + want
			if stamped[want] {
				r.Hold("C17.1", construct, p.FuncPos(hs), want+".PeerName = peerName")
			} else {
				r.Violate("C17.1", construct, p.FuncPos(hs), "the health snapshot no longer stamps "+want+" with the peer name: imported "+want+" objects are written into the local cluster's catalog")
			}
		}
	} else {
		r.Unresolve("C17.1", "peerstream.newHealthSnapshot", "not found")
	}
	r.Floor("C17.1", 10)

	// ---- C17.4 node-keyed membership guards the service deregistration
	for _, f := range p.SrcFuncs(peerstreamPkg) {
		if f.Parent() != nil {
			continue
		}
		for _, b := range f.Blocks {
			for _, in := range b.Instrs {
				ci, ok := in.(ssa.CallInstruction)
				if !ok || !ci.Common().IsInvoke() || ci.Common().Method.Name() != "CatalogDeregister" {
					continue
				}
				req := ci.Common().Args[0]
				isServiceDereg := false
				for _, fs := range storesToFieldsOf(f, req) {
					if fs.field == "ServiceID" {
						isServiceDereg = true
					}
				}
				if !isServiceDereg {
					continue
				}
				// accepted edges: the "absent" edge of a comma-ok map lookup that is keyed by a node name, or nested under such a lookup
				var accepted []core.Edge
				for _, bb := range f.Blocks {
					for _, x := range bb.Instrs {
						lk, ok := x.(*ssa.Lookup)
						if !ok || !lk.CommaOk || lk.Referrers() == nil {
							continue
						}
						if !nodeKeyed(lk, 0) {
							continue
						}
						for _, rr := range *lk.Referrers() {
							if ex, ok := rr.(*ssa.Extract); ok && ex.Index == 1 {
								_, fe := core.CondEdges(ex)
								accepted = append(accepted, fe...)
							}
						}
					}
				}
				construct := fmt.Sprintf("%s/service-deregister%s", core.FuncName(f), lineOf(p, in))
				// from the start of an iteration over stored instances (the function entry is a sound over-approximation)
				if len(accepted) > 0 && core.CutMakesUnreachable(f, nil, accepted, in) {
					r.Hold("C17.4", construct, p.Pos(in.Pos()), "deregistered only when a node-keyed lookup in the received snapshot misses")
				} else {
					r.Violate("C17.4", construct, p.Pos(in.Pos()), "the decision to deregister (or keep) a stored instance does not consult the snapshot by node: an instance that moved to another node is kept on its old node because its service ID still appears somewhere in the snapshot")
				}
			}
		}
	}
	r.Floor("C17.4", 2)
	checkLocalOnlyTablesUnderLocalPeer(c)
	checkExportReconcileAlwaysRuns(c)

	// ---- C17.3
	if hu := p.Func(peerstreamPkg, "(*Server).handleUpsertExportedServiceList"); hu != nil {
		var pruneCalls []ssa.Instruction
		for _, b := range hu.Blocks {
			for _, in := range b.Instrs {
				if ci, ok := in.(ssa.CallInstruction); ok {
					if g := ci.Common().StaticCallee(); g != nil && g.Name() == "handleUpdateService" {
						args := ci.Common().Args
						if len(args) > 0 && core.IsNilConst(args[len(args)-1]) {
							pruneCalls = append(pruneCalls, in)
						}
					}
				}
			}
		}
		switch {
		case len(pruneCalls) == 0:
			r.Violate("C17.3", core.FuncName(hu), p.FuncPos(hu), "no previously imported service is ever handed to the update handler with a nil export: services that are no longer exported stay in the importing catalog")
		default:
			// the prune call is guarded by the "not in the new list" edge of a lookup into the set built from the new list, and fed by the stored service list
			pc := pruneCalls[0]
			var miss []core.Edge
			for _, b := range hu.Blocks {
				for _, x := range b.Instrs {
					if lk, ok := x.(*ssa.Lookup); ok && lk.CommaOk && lk.Referrers() != nil {
						for _, rr := range *lk.Referrers() {
							if ex, ok := rr.(*ssa.Extract); ok && ex.Index == 1 {
								_, fe := core.CondEdges(ex)
								miss = append(miss, fe...)
							}
						}
					}
				}
			}
			fed := false
			for _, a := range pc.(ssa.CallInstruction).Common().Args {
				for _, leaf := range core.Leaves(a, core.SliceOpts{ThroughCalls: true}) {
					if call, ok := leaf.(*ssa.Call); ok && core.MethodNameOf(&call.Call) == "ServiceList" {
						fed = true
					}
				}
			}
			// from the "not in the new list" edge the prune call is reached on every path (no extra condition)
			skipped := false
			for _, e := range miss {
				w := &core.Walk{
					Stop: func(in ssa.Instruction) bool { return in == pc },
					Visit: func(in ssa.Instruction) {
						if _, isNext := in.(*ssa.Next); isNext {
							skipped = true
						}
						if _, isRet := in.(*ssa.Return); isRet {
							skipped = true
						}
					},
				}
				w.FromEdge(e.From, e.Succ)
			}
			direct := len(miss) > 0 && core.CutMakesUnreachable(hu, nil, miss, pc) && fed && !skipped
			// collect-then-apply form: the names are first gathered into a list (appended only
			// below the "not in the new list" edge, and on every path from it), then each is pruned
			collected := false
			if !direct && len(miss) > 0 && fed {
				var feeders []*ssa.Call
				for _, b := range hu.Blocks {
					for _, x := range b.Instrs {
						call, ok := x.(*ssa.Call)
						if !ok {
							continue
						}
						if bi, ok := call.Call.Value.(*ssa.Builtin); !ok || bi.Name() != "append" {
							continue
						}
						feeds := false
						core.ForwardUses(call, func(u ssa.Instruction, _ ssa.Value) { feeds = feeds || u == pc })
						if feeds {
							feeders = append(feeders, call)
						}
					}
				}
				collected = len(feeders) > 0
				for _, ap := range feeders {
					if !core.CutMakesUnreachable(hu, nil, miss, ap) {
						collected = false
					}
					for _, e := range miss {
						w := &core.Walk{
							Stop: func(in ssa.Instruction) bool { return in == ssa.Instruction(ap) },
							Visit: func(in ssa.Instruction) {
								switch in.(type) {
								case *ssa.Next, *ssa.Return:
									collected = false
								}
							},
						}
						w.FromEdge(e.From, e.Succ)
					}
				}
				// the prune call is the unconditional body of the loop over the collected names
				if collected {
					lp, inLoop := core.InnermostLoop(pc.Block())
					if !inLoop || (pc.Block() != lp.Header && pc.Block().Idom() != lp.Header) {
						collected = false
					}
				}
			}
			if direct || collected {
				r.Hold("C17.3", core.FuncName(hu), p.Pos(pc.Pos()), "every stored service name missing from the new list is pruned")
			} else {
				r.Violate("C17.3", core.FuncName(hu), p.Pos(pc.Pos()), "the prune of unexported services is not driven by (stored service list) minus (new export list)")
			}
		}
	} else {
		r.Unresolve("C17.3", "peerstream.(*Server).handleUpsertExportedServiceList", "not found")
	}

	// ---- C17.2 exporting side
	checkExportConsumerGuard(c)
	_ = nDereg
	_ = nReg
}

// lineOf gives the ordinal of the call among the like-named calls of its function (stable under unrelated edits).
func lineOf(p *core.Program, in ssa.Instruction) string {
	ci, ok := in.(ssa.CallInstruction)
	if !ok {
		return "?"
	}
	name := core.MethodNameOf(ci.Common())
	type pc struct {
		pos token.Pos
		in  ssa.Instruction
	}
	var all []pc
	for _, b := range in.Parent().Blocks {
		for _, x := range b.Instrs {
			if c2, ok := x.(ssa.CallInstruction); ok && core.MethodNameOf(c2.Common()) == name {
				all = append(all, pc{x.Pos(), x})
			}
		}
	}
	n := 1
	for _, o := range all {
		if o.pos < in.Pos() {
			n++
		}
	}
	return fmt.Sprintf("#%d", n)
}

// nodeKeyed: the lookup's key is a node name, or its map comes out of a lookup that is.
func nodeKeyed(lk *ssa.Lookup, depth int) bool {
	if depth > 3 {
		return false
	}
	if core.AccessOf(lk.Index).LastField() == "Node" {
		return true
	}
	// compound keys built from the node name
	for _, leaf := range core.Leaves(lk.Index, core.SliceOpts{ThroughCalls: true}) {
		if core.AccessOf(leaf).LastField() == "Node" {
			return true
		}
	}
	// nested: map obtained from another lookup
	a := core.AccessOf(lk.X)
	root := a.Root
	if ex, ok := root.(*ssa.Extract); ok {
		root = ex.Tuple
	}
	if inner, ok := root.(*ssa.Lookup); ok {
		return nodeKeyed(inner, depth+1)
	}
	return false
}

func checkExportConsumerGuard(c *Ctx) {
	p, r := c.P, c.R
	f := p.Func(statePkg, "exportedServicesForPeerTxn")
	if f == nil {
		r.Unresolve("C17.2", "state.exportedServicesForPeerTxn", "not found")
		return
	}
	// the match: consumer.Peer == peering.Name — in the function or in a predicate it calls
	matchEdges := core.GuardEdges(f, 2, func(cv core.CmpView) (bool, bool) {
		if cv.Op != token.EQL && cv.Op != token.NEQ {
			return false, false
		}
		fx, fy := core.AccessOf(cv.X).LastField(), core.AccessOf(cv.Y).LastField()
		if (fx == "Peer" && fy == "Name") || (fx == "Name" && fy == "Peer") {
			return cv.Op == token.EQL, cv.Op == token.NEQ
		}
		return false, false
	})
	if len(matchEdges) == 0 {
		r.Violate("C17.2", core.FuncName(f), p.FuncPos(f), "no comparison of an exported-services consumer with the peering's name: every service is offered to every peer")
		return
	}
	// flag phis that become true only below a match edge
	flagTrueEdges := []core.Edge{}
	for _, b := range f.Blocks {
		for _, in := range b.Instrs {
			phi, ok := in.(*ssa.Phi)
			if !ok {
				continue
			}
			if !isBoolT(phi.Type()) {
				continue
			}
			onlyUnderMatch := false
			for i, e := range phi.Edges {
				if v, ok := core.ConstBool(e); ok && v {
					pred := b.Preds[i]
					under := false
					for _, me := range matchEdges {
						if core.EdgeDominates(me.From, me.Succ, pred) || me.From.Succs[me.Succ] == pred {
							under = true
						}
					}
					onlyUnderMatch = under
					if !under {
						onlyUnderMatch = false
						break
					}
				}
			}
			if onlyUnderMatch {
				te, _ := core.CondEdges(phi)
				flagTrueEdges = append(flagTrueEdges, te...)
				// phis fed by this phi (loop exit copies)
				if phi.Referrers() != nil {
					for _, rr := range *phi.Referrers() {
						if p2, ok := rr.(*ssa.Phi); ok {
							te2, _ := core.CondEdges(p2)
							flagTrueEdges = append(flagTrueEdges, te2...)
						}
					}
				}
			}
		}
	}
	accepted := append(append([]core.Edge{}, matchEdges...), flagTrueEdges...)
	// insertions into the exported sets: MapUpdates inside the loop over the entry's services
	n := 0
	bad := ""
	for _, b := range f.Blocks {
		for _, in := range b.Instrs {
			mu, ok := in.(*ssa.MapUpdate)
			if !ok {
				continue
			}
			// maps keyed by ServiceName
			if !strings.Contains(core.ShortType(mu.Map.Type()), "structs.ServiceName]") {
				continue
			}
			n++
			if !core.CutMakesUnreachable(f, nil, accepted, in) {
				bad = p.Pos(in.Pos())
			}
		}
	}
	if n == 0 {
		r.Undecide("C17.2", core.FuncName(f), p.FuncPos(f), "no insertion into a service-name set found")
		return
	}
	if bad != "" {
		r.Violate("C17.2", core.FuncName(f), p.FuncPos(f), "a service is added to the set offered to the peer at "+bad+" on a path that does not pass a consumer match for that peer: a service is exported to a peer its entry does not name")
	} else {
		r.Hold("C17.2", core.FuncName(f), p.FuncPos(f), fmt.Sprintf("%d insertions into the exported sets, all below a consumer match", n))
	}
}

// C17.5
var localOnlyTables = map[string]bool{"coordinates": true, "sessions": true, "session_checks": true, "kvs": true, "tombstones": true, "prepared-queries": true}

func checkLocalOnlyTablesUnderLocalPeer(c *Ctx) {
	p, r := c.P, c.R
	n := 0
	perFn := map[string]int{}
	for _, f := range p.SrcFuncs(statePkg) {
		if isRestoreMethod(f) {
			continue
		}
		// does the function know a peer?
		hasPeer := false
		for _, prm := range f.Params {
			if strings.Contains(strings.ToLower(prm.Name()), "peer") && core.ShortType(prm.Type()) == "string" {
				hasPeer = true
			}
		}
		empty, _ := emptyStringEdges(f, isPeerValue)
		if len(empty) > 0 {
			hasPeer = true
		}
		if !hasPeer {
			continue
		}
		var emptyEdges []core.Edge
		for e := range empty {
			emptyEdges = append(emptyEdges, e)
		}
		for _, b := range f.Blocks {
			for _, in := range b.Instrs {
				op := core.AsMemdbOp(in)
				if op == nil {
					// a helper without a peer parameter that writes a local-only table
					ci, ok := in.(ssa.CallInstruction)
					if !ok {
						continue
					}
					g := ci.Common().StaticCallee()
					if g == nil || g.Blocks == nil || !strings.HasSuffix(core.FuncPkgPath(g), "/"+statePkg) {
						continue
					}
					peerAware := false
					for _, prm := range g.Params {
						if strings.Contains(strings.ToLower(prm.Name()), "peer") {
							peerAware = true
						}
					}
					if ge, _ := emptyStringEdges(g, isPeerValue); len(ge) > 0 {
						peerAware = true
					}
					if peerAware {
						continue
					}
					var ts []string
					for t := range localOnlyTables {
						if insertsInto(p, g, t, 0) || deletesFrom(p, g, t, 0) {
							ts = append(ts, t)
						}
					}
					sort.Strings(ts)
					if len(ts) > 0 {
						op = &core.MemdbOp{Op: "call " + g.Name(), Table: strings.Join(ts, "+"), TableKnown: true}
					}
					if op == nil {
						continue
					}
				} else if !op.IsWrite() || !op.TableKnown || !localOnlyTables[op.Table] {
					continue
				}
				n++
				base := core.FuncName(f) + "/" + op.Op + ":" + op.Table
				perFn[base]++
				construct := base
				if perFn[base] > 1 {
					construct = fmt.Sprintf("%s#%d", base, perFn[base])
				}
				if len(emptyEdges) > 0 && core.CutMakesUnreachable(f, nil, emptyEdges, in) {
					r.Hold("C17.5", construct, p.Pos(in.Pos()), "only below the peer-name-empty edge")
				} else {
					r.Violate("C17.5", construct, p.Pos(in.Pos()), fmt.Sprintf("table %s holds data of the local cluster only, but this %s is reachable while the function works for a peer: removing imported data (an imported node that is no longer exported, a deleted peering) modifies the local row with the same key", op.Table, op.Op))
				}
			}
		}
	}
	r.Floor("C17.5", 3)
}

// C17.6
func checkExportReconcileAlwaysRuns(c *Ctx) {
	p, r := c.P, c.R
	n := 0
	for _, f := range p.SrcFuncs("agent/grpc-external/services/peerstream") {
		if f.Parent() != nil || !strings.HasPrefix(f.Name(), "sync") {
			continue
		}
		// the walks over the maps the subscription state keeps, whose bodies delete from that map
		var walks []ssa.Instruction
		for _, b := range f.Blocks {
			for _, in := range b.Instrs {
				rg, ok := in.(*ssa.Range)
				if !ok {
					continue
				}
				a := core.AccessOf(rg.X)
				if _, isMap := rg.X.Type().Underlying().(*types.Map); !isMap || len(a.Fields) == 0 {
					continue
				}
				// deletes from the same map somewhere in the function
				deletes := false
				for _, bb := range f.Blocks {
					for _, y := range bb.Instrs {
						if call, ok := y.(*ssa.Call); ok {
							if bi, ok := call.Call.Value.(*ssa.Builtin); ok && bi.Name() == "delete" && core.AccessOf(call.Call.Args[0]).LastField() == a.LastField() {
								deletes = true
							}
						}
					}
				}
				if deletes {
					walks = append(walks, in)
				}
			}
		}
		if len(walks) == 0 {
			continue
		}
		n++
		name := core.FuncName(f)
		mf := &core.MustFlow{F: f, Gen: func(in ssa.Instruction) []string {
			for _, w := range walks {
				if in == w {
					return []string{"walked"}
				}
			}
			return nil
		}}
		mf.Run()
		bad := ""
		for _, rt := range core.Returns(f) {
			if s, ok := mf.At(rt); ok && !s["walked"] {
				bad = p.Pos(rt.Pos())
			}
		}
		if bad != "" {
			r.Violate("C17.6", name, p.FuncPos(f), "the reconciliation can return (at "+bad+") without walking the state it keeps: when the peer loses its last exported service the watch on it is never cancelled, and every later change of that service is still sent to — and upserted by — a peer it is no longer exported to")
		} else {
			r.Hold("C17.6", name, p.FuncPos(f), "the kept state is walked (and pruned) on every path")
		}
	}
	r.Floor("C17.6", 2)
}
