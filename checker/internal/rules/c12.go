package rules

import (
	"fmt"
	"go/token"
	"go/types"
	"sort"
	"strings"

	"golang.org/x/tools/go/ssa"

	"verifcheck/internal/core"
)

func init() {
	register(&Rule{ID: "C12", Patterns: []string{"./agent/consul", "./agent/connect", "./agent/connect/ca", "./agent/consul/state"}, Run: runC12})
}

// nilErrEdges: edges on which the error produced by instruction in is nil.
func nilErrEdges(in ssa.Instruction) []core.Edge {
	var errV ssa.Value
	if v, ok := in.(ssa.Value); ok {
		if core.IsErrorType(v.Type()) {
			errV = v
		} else if v.Referrers() != nil {
			for _, rr := range *v.Referrers() {
				if ex, ok := rr.(*ssa.Extract); ok && core.IsErrorType(ex.Type()) {
					errV = ex
				}
			}
		}
	}
	if errV == nil {
		return nil
	}
	var out []core.Edge
	for _, cmp := range nilCmps(errV) {
		te, fe := core.CondEdges(cmp)
		if cmp.Op == token.EQL {
			out = append(out, te...)
		} else {
			out = append(out, fe...)
		}
	}
	return out
}

// fieldLoadOf: v is a load of (a field of …) base reached only through
// FieldAddr steps; returns the outermost field name.
func fieldLoadOf(v ssa.Value, base ssa.Value) (string, bool) {
	u, ok := v.(*ssa.UnOp)
	if !ok || u.Op != token.MUL {
		return "", false
	}
	fa, ok := u.X.(*ssa.FieldAddr)
	if !ok {
		return "", false
	}
	name := core.FieldObj(fa).Name()
	var x ssa.Value = fa.X
	for {
		if x == base {
			return name, true
		}
		switch y := x.(type) {
		case *ssa.FieldAddr:
			x = y.X
		case *ssa.UnOp:
			if y.Op != token.MUL {
				return "", false
			}
			x = y.X
		default:
			return "", false
		}
	}
}

// serialFromCounter: the *big.Int stored as SerialNumber is set (SetUint64)
// from the replicated serial counter, directly or through a parameter that
// every caller fills from the counter.
func serialFromCounter(p *core.Program, f *ssa.Function, sn ssa.Value, depth int) (bool, string) {
	if depth > 3 {
		return false, "call chain too deep"
	}
	isCounter := func(v ssa.Value) (bool, *ssa.Parameter) {
		var par *ssa.Parameter
		from := false
		for _, leaf := range core.Leaves(v, core.SliceOpts{}) {
			switch x := leaf.(type) {
			case *ssa.Call:
				if core.MethodNameOf(&x.Call) == "incrementAndGetNextSerialNumber" {
					from = true
					continue
				}
				return false, nil
			case *ssa.Parameter:
				par = x
			default:
				return false, nil
			}
		}
		return from, par
	}
	var judge func(f *ssa.Function, v ssa.Value, depth int) (bool, string)
	judge = func(f *ssa.Function, v ssa.Value, depth int) (bool, string) {
		from, par := isCounter(v)
		if par == nil {
			if from {
				return true, ""
			}
			return false, "value does not come from incrementAndGetNextSerialNumber"
		}
		if depth > 3 {
			return false, "call chain too deep"
		}
		idx := -1
		for i, q := range f.Params {
			if q == par {
				idx = i
			}
		}
		callers := callersOf(p, f, "agent/connect/ca")
		if idx < 0 || len(callers) == 0 {
			return false, "serial comes from parameter " + par.Name() + " with no resolvable caller"
		}
		for _, ci := range callers {
			args := ci.Common().Args
			if idx >= len(args) {
				return false, "caller shape"
			}
			if ok, why := judge(ci.Parent(), args[idx], depth+1); !ok {
				return false, "caller " + core.FuncName(ci.Parent()) + ": " + why
			}
		}
		return true, ""
	}
	// sn is a pointer; find SetUint64 calls on it
	n := 0
	for _, b := range f.Blocks {
		for _, in := range b.Instrs {
			call, ok := in.(*ssa.Call)
			if !ok || core.MethodNameOf(&call.Call) != "SetUint64" || len(call.Call.Args) != 2 || call.Call.Args[0] != sn {
				continue
			}
			n++
			if ok, why := judge(f, call.Call.Args[1], depth); !ok {
				return false, why
			}
		}
	}
	if n == 0 {
		return false, "the serial number is not set with SetUint64 on the template's own big.Int"
	}
	return true, ""
}

func runC12(c *Ctx) {
	p, r := c.P, c.R
	r.Clauses = []string{
		"C12.1 a CSR is parsed only when it carries exactly one URI and no e-mail SAN, and is signed only below a successful parse",
		"C12.2 every identity kind (implementation of connect.CertURI) either has a case whose path to signing passes the matching …WriteAllowed check on the identity's own name with its error returned, or falls to the rejecting default; the signing step checks the trust domain (CanSign) for every kind it accepts, or rewrites it (agents)",
		"C12.3 service, mesh-gateway and server identities are signed only below the datacenter-equal edge",
		"C12.4 every certificate template of the built-in provider takes its serial number from the replicated serial counter; leaf templates are not CAs",
		"C12.7 the identity the CA authorizes is the decoded one: no field of a parsed SPIFFE identity derives from an always-escaped form of the URI path (EscapedPath, String, RequestURI) except through url.PathUnescape, and where it derives from RawPath the unescape is guarded by the same RawPath test that selected it",
		"C12.5 the roots table is written only by the CAS setter and by restore; the setter rejects a set without exactly one active root before writing",
		"C12.6 no function of agent/consul writes through a pointer that a state-store reader hands out as the stored row itself (rows are immutable outside a Raft apply; CA rotation works on copies)",
	}
	r.NotDecided = []string{"that the issued certificate carries exactly the authorised identity after the provider's template handling", "chain verification against the active root"}

	f := p.Func("agent/consul", "(*CAManager).AuthorizeAndSignCertificate")
	if f == nil {
		r.Unresolve("C12.1", "consul.(*CAManager).AuthorizeAndSignCertificate", "not found")
		return
	}
	name := core.FuncName(f)
	parse := callsTo(f, func(cm *ssa.CallCommon) bool { return strings.HasSuffix(core.CalleeName(cm), "connect.ParseCertURI") })
	sign := callsTo(f, func(cm *ssa.CallCommon) bool { return core.MethodNameOf(cm) == "SignCertificate" })
	if len(parse) == 0 || len(sign) == 0 {
		r.Violate("C12.1", name, p.FuncPos(f), fmt.Sprintf("structure not found: ParseCertURI=%d SignCertificate=%d", len(parse), len(sign)))
		return
	}
	// ---- C12.1
	var oneURI, noEmail []core.Edge
	for _, b := range f.Blocks {
		for _, in := range b.Instrs {
			cmp, ok := in.(*ssa.BinOp)
			if !ok {
				continue
			}
			lc, ok := cmp.X.(*ssa.Call)
			if !ok {
				continue
			}
			bi, ok := lc.Call.Value.(*ssa.Builtin)
			if !ok || bi.Name() != "len" {
				continue
			}
			field := core.AccessOf(lc.Call.Args[0]).LastField()
			k, isK := core.ConstInt(cmp.Y)
			te, fe := core.CondEdges(cmp)
			switch {
			case field == "URIs" && isK && k == 1 && cmp.Op == token.NEQ:
				oneURI = append(oneURI, fe...)
			case field == "URIs" && isK && k == 1 && cmp.Op == token.EQL:
				oneURI = append(oneURI, te...)
			case field == "EmailAddresses" && isK && k == 0 && cmp.Op == token.GTR:
				noEmail = append(noEmail, fe...)
			case field == "EmailAddresses" && isK && k == 0 && (cmp.Op == token.EQL):
				noEmail = append(noEmail, te...)
			case field == "EmailAddresses" && isK && k == 0 && (cmp.Op == token.NEQ):
				noEmail = append(noEmail, fe...)
			}
		}
	}
	bad := ""
	if len(oneURI) == 0 || !core.CutMakesUnreachable(f, nil, oneURI, parse[0]) {
		bad = "the CSR is parsed on a path where it does not carry exactly one URI: a certificate can be issued with additional, unauthorised identities"
	}
	if bad == "" && (len(noEmail) == 0 || !core.CutMakesUnreachable(f, nil, noEmail, parse[0])) {
		bad = "a CSR with e-mail SANs is not rejected before parsing"
	}
	if bad == "" && !core.CutMakesUnreachable(f, nil, nilErrEdges(parse[0]), sign[0]) {
		bad = "signing is reachable although ParseCertURI failed"
	}
	if bad != "" {
		r.Violate("C12.1", name, p.FuncPos(f), bad)
	} else {
		r.Hold("C12.1", name, p.FuncPos(f), "exactly one URI ∧ no e-mail SAN ⇒ parse ⇒ (success) ⇒ sign")
	}

	// ---- C12.2 / C12.3: the cases
	want := map[string]struct {
		method string
		field  string
		dc     bool
	}{
		"SpiffeIDService":     {"ServiceWriteAllowed", "Service", true},
		"SpiffeIDAgent":       {"NodeWriteAllowed", "Agent", false},
		"SpiffeIDMeshGateway": {"MeshWriteAllowed", "", true},
		"SpiffeIDServer":      {"ACLWriteAllowed", "", true},
	}
	// implementations of connect.CertURI
	var impls []string
	if pk := p.Pkg("agent/connect"); pk != nil {
		if iface, ok := pk.Types.Scope().Lookup("CertURI").Type().Underlying().(*types.Interface); ok {
			for _, n := range pk.Types.Scope().Names() {
				tn, ok := pk.Types.Scope().Lookup(n).(*types.TypeName)
				if !ok || tn.IsAlias() {
					continue
				}
				if _, isIface := tn.Type().Underlying().(*types.Interface); isIface {
					continue
				}
				if types.Implements(tn.Type(), iface) || types.Implements(types.NewPointer(tn.Type()), iface) {
					impls = append(impls, n)
				}
			}
		}
	}
	sort.Strings(impls)
	r.Analysed["certuri_implementations"] = impls
	cases := map[string]*ssa.TypeAssert{}
	for _, b := range f.Blocks {
		for _, in := range b.Instrs {
			if ta, ok := in.(*ssa.TypeAssert); ok && ta.CommaOk {
				if n := core.NamedOf(ta.AssertedType); n != nil {
					cases[n.Obj().Name()] = ta
				}
			}
		}
	}
	for _, impl := range impls {
		construct := name + "/" + impl
		ta, hasCase := cases[impl]
		w, known := want[impl]
		if !hasCase {
			r.Hold("C12.2", construct, p.FuncPos(f), "no case: falls to the rejecting default")
			continue
		}
		if !known {
			r.Violate("C12.2", construct, p.Pos(ta.Pos()), "identity kind "+impl+" has a case in the authorization switch but no frozen expectation of which ACL check guards it: review and extend the table")
			continue
		}
		// the case edge
		var okV, val ssa.Value
		if ta.Referrers() != nil {
			for _, rr := range *ta.Referrers() {
				if ex, ok := rr.(*ssa.Extract); ok {
					if ex.Index == 1 {
						okV = ex
					} else {
						val = ex
					}
				}
			}
		}
		if okV == nil {
			r.Undecide("C12.2", construct, p.Pos(ta.Pos()), "type-switch case without ok value")
			continue
		}
		te, _ := core.CondEdges(okV)
		if len(te) == 0 {
			r.Undecide("C12.2", construct, p.Pos(ta.Pos()), "type-switch case does not branch")
			continue
		}
		caseBad := ""
		for _, e := range te {
			// authorization call reachable from the case edge, with the right method and argument
			var authCalls []ssa.Instruction
			w1 := &core.Walk{Visit: func(in ssa.Instruction) {
				if ci, ok := in.(ssa.CallInstruction); ok && core.MethodNameOf(ci.Common()) == w.method {
					authCalls = append(authCalls, in)
				}
			}, Stop: func(in ssa.Instruction) bool { return in == sign[0] }}
			w1.FromEdge(e.From, e.Succ)
			if len(authCalls) == 0 {
				caseBad = "no " + w.method + " check on the path from this case to signing"
				continue
			}
			ac := authCalls[0]
			if w.field != "" {
				okArg := false
				for _, a := range ac.(ssa.CallInstruction).Common().Args {
					if fn, ok := fieldLoadOf(a, val); ok && fn == w.field {
						okArg = true
					}
				}
				if !okArg {
					caseBad = w.method + " is not asked about the " + w.field + " of the identity in the CSR: the token's write permission on one name authorises a certificate for another"
					continue
				}
			}
			// signing unreachable from the case edge once the nil-error edges of the check are cut
			cut := map[core.Edge]bool{}
			for _, ne := range nilErrEdges(ac) {
				cut[ne] = true
			}
			reach := false
			w2 := &core.Walk{Cut: func(b *ssa.BasicBlock, si int) bool { return cut[core.Edge{From: b, Succ: si}] },
				Visit: func(in ssa.Instruction) { reach = reach || in == sign[0] }}
			w2.FromEdge(e.From, e.Succ)
			if reach || len(cut) == 0 {
				caseBad = "signing is reachable from this case on a path where " + w.method + " did not succeed"
			}
			// C12.3 datacenter
			if w.dc {
				dcCut := map[core.Edge]bool{}
				for _, cmp := range core.Comparisons(f, 2) {
					if cmp.Op != token.EQL && cmp.Op != token.NEQ {
						continue
					}
					fx, okx := fieldLoadOf(cmp.X, val)
					fy, oky := fieldLoadOf(cmp.Y, val)
					if !(okx && fx == "Datacenter") && !(oky && fy == "Datacenter") {
						continue
					}
					// the other side is the server's own configured datacenter
					other := cmp.Y
					if oky && fy == "Datacenter" {
						other = cmp.X
					}
					if oa := core.AccessOf(other); oa.LastField() != "Datacenter" || !strings.Contains(strings.Join(oa.Fields, "."), "serverConf") {
						continue
					}
					eq := cmp.True
					if cmp.Op == token.NEQ {
						eq = cmp.False
					}
					for _, x := range eq {
						dcCut[x] = true
					}
				}
				reachDC := false
				w3 := &core.Walk{Cut: func(b *ssa.BasicBlock, si int) bool { return dcCut[core.Edge{From: b, Succ: si}] },
					Visit: func(in ssa.Instruction) { reachDC = reachDC || in == sign[0] }}
				w3.FromEdge(e.From, e.Succ)
				if len(dcCut) == 0 || reachDC {
					r.Violate("C12.3", construct, p.Pos(ta.Pos()), "an identity of this kind naming another datacenter can be signed: the datacenter of the CSR is not compared with ours on every path to signing")
				} else {
					r.Hold("C12.3", construct, p.Pos(ta.Pos()), "signed only below Datacenter == local datacenter")
				}
			}
		}
		if caseBad != "" {
			r.Violate("C12.2", construct, p.Pos(ta.Pos()), caseBad)
		} else {
			r.Hold("C12.2", construct, p.Pos(ta.Pos()), w.method+" on the identity's own name, error returned, before signing")
		}
	}
	r.Floor("C12.2", 5)
	r.Floor("C12.3", 3)
	checkCanSignEquality(c)

	// the signing step: CanSign for every accepted kind (agents: trust-domain rewrite)
	if sf := p.Func("agent/consul", "(*CAManager).SignCertificate"); sf != nil {
		provSign := callsTo(sf, func(cm *ssa.CallCommon) bool { return cm.IsInvoke() && cm.Method.Name() == "Sign" })
		if len(provSign) == 0 {
			r.Unresolve("C12.2", core.FuncName(sf)+"/provider.Sign", "provider Sign call not found")
		} else {
			var canSignTrue []core.Edge
			for _, in := range callsTo(sf, func(cm *ssa.CallCommon) bool { return core.MethodNameOf(cm) == "CanSign" }) {
				te, _ := core.CondEdges(in.(ssa.Value))
				canSignTrue = append(canSignTrue, te...)
			}
			for _, b := range sf.Blocks {
				for _, in := range b.Instrs {
					ta, ok := in.(*ssa.TypeAssert)
					if !ok || !ta.CommaOk || ta.Referrers() == nil {
						continue
					}
					n := core.NamedOf(ta.AssertedType)
					if n == nil {
						continue
					}
					var okV ssa.Value
					for _, rr := range *ta.Referrers() {
						if ex, ok := rr.(*ssa.Extract); ok && ex.Index == 1 {
							okV = ex
						}
					}
					if okV == nil {
						continue
					}
					te, _ := core.CondEdges(okV)
					construct := core.FuncName(sf) + "/" + n.Obj().Name()
					if n.Obj().Name() == "SpiffeIDAgent" {
						// the host of the agent identity is overwritten with the signing trust domain
						rewrites := false
						for _, bb := range sf.Blocks {
							for _, x := range bb.Instrs {
								if st, ok := x.(*ssa.Store); ok {
									if fa, ok := st.Addr.(*ssa.FieldAddr); ok && core.FieldObj(fa).Name() == "Host" {
										if call, ok := st.Val.(*ssa.Call); ok && core.MethodNameOf(&call.Call) == "Host" {
											rewrites = true
										}
									}
								}
							}
						}
						if rewrites {
							r.Hold("C12.2", construct, p.Pos(ta.Pos()), "agent identities get the cluster's trust domain written in")
						} else {
							r.Violate("C12.2", construct, p.Pos(ta.Pos()), "agent identities are neither checked with CanSign nor rewritten to the cluster's trust domain")
						}
						continue
					}
					cut := map[core.Edge]bool{}
					for _, e := range canSignTrue {
						cut[e] = true
					}
					reach := false
					for _, e := range te {
						w := &core.Walk{Cut: func(b *ssa.BasicBlock, si int) bool { return cut[core.Edge{From: b, Succ: si}] },
							Visit: func(x ssa.Instruction) { reach = reach || x == provSign[0] }}
						w.FromEdge(e.From, e.Succ)
					}
					if len(te) == 0 {
						continue
					}
					if reach {
						r.Violate("C12.2", construct, p.Pos(ta.Pos()), "an identity of this kind reaches the provider's Sign without a successful CanSign: a certificate for another trust domain can be issued")
					} else {
						r.Hold("C12.2", construct, p.Pos(ta.Pos()), "signed only below CanSign")
					}
				}
			}
		}
	}

	checkCertTemplates(c)
	checkRootsTable(c)
	checkNoInPlaceMutationOfRows(c)
	checkIdentityUnescaped(c)
}

// C12.4
func checkCertTemplates(c *Ctx) {
	p, r := c.P, c.R
	n := 0
	for _, f := range p.SrcFuncs("agent/connect/ca") {
		if f.Signature.Recv() == nil {
			continue
		}
		if nt := core.NamedOf(f.Signature.Recv().Type()); nt == nil || nt.Obj().Name() != "ConsulProvider" {
			continue
		}
		creates := callsTo(f, func(cm *ssa.CallCommon) bool { return core.CalleeName(cm) == "crypto/x509.CreateCertificate" })
		if len(creates) == 0 {
			continue
		}
		n++
		name := core.FuncName(f)
		// stores to SerialNumber of x509.Certificate templates
		okSerial, isCA, hasSerial, serialWhy := true, false, false, ""
		for _, b := range f.Blocks {
			for _, in := range b.Instrs {
				st, ok := in.(*ssa.Store)
				if !ok {
					continue
				}
				fa, ok := st.Addr.(*ssa.FieldAddr)
				if !ok {
					continue
				}
				nt := core.NamedOf(fa.X.Type())
				if nt == nil || nt.Obj().Name() != "Certificate" {
					continue
				}
				switch core.FieldObj(fa).Name() {
				case "SerialNumber":
					hasSerial = true
					if ok, why := serialFromCounter(p, f, st.Val, 0); !ok {
						okSerial = false
						serialWhy = why
					}
				case "IsCA":
					if v, ok := core.ConstBool(st.Val); ok && v {
						isCA = true
					}
				}
			}
		}
		// leaf = the method named Sign (signs a service/agent CSR)
		switch {
		case hasSerial && !okSerial:
			r.Violate("C12.4", name, p.FuncPos(f), "a certificate template takes its serial number from something other than the replicated serial counter ("+serialWhy+"): serial numbers can repeat across leaders")
		case f.Name() == "Sign" && isCA:
			r.Violate("C12.4", name, p.FuncPos(f), "the leaf template is marked IsCA: every workload certificate could sign further certificates")
		case !hasSerial:
			// the template is passed in (cross-signing): serial assigned on the passed template
			r.Hold("C12.4", name, p.FuncPos(f), "no template built here")
		default:
			r.Hold("C12.4", name, p.FuncPos(f), "serial from the replicated counter"+map[bool]string{true: "; CA template", false: "; not a CA"}[isCA])
		}
	}
	r.Floor("C12.4", 3)
}

// C12.5
func checkRootsTable(c *Ctx) {
	p, r := c.P, c.R
	sites, _ := stateWriteSites(p)
	writers := map[*ssa.Function]bool{}
	for _, s := range sites {
		if s.op.Table == "connect-ca-roots" {
			writers[s.fn] = true
		}
	}
	for f := range writers {
		name := core.FuncName(f)
		if isRestoreMethod(f) {
			r.Hold("C12.5", name, p.FuncPos(f), "restore path")
			continue
		}
		// the active-count rejection dominates every write
		var okEdges []core.Edge
		for _, b := range f.Blocks {
			for _, in := range b.Instrs {
				cmp, ok := in.(*ssa.BinOp)
				if !ok || (cmp.Op != token.NEQ && cmp.Op != token.EQL) {
					continue
				}
				if k, ok := core.ConstInt(cmp.Y); !ok || k != 1 {
					continue
				}
				if _, isPhi := cmp.X.(*ssa.Phi); !isPhi {
					continue
				}
				te, fe := core.CondEdges(cmp)
				if cmp.Op == token.NEQ {
					okEdges = append(okEdges, fe...)
				} else {
					okEdges = append(okEdges, te...)
				}
			}
		}
		bad := ""
		for _, s := range sites {
			if s.fn != f || s.op.Table != "connect-ca-roots" {
				continue
			}
			if len(okEdges) == 0 || !core.CutMakesUnreachable(f, nil, okEdges, s.op.Instr) {
				bad = p.Pos(s.op.Instr.Pos())
			}
		}
		if bad != "" {
			r.Violate("C12.5", name, p.FuncPos(f), "the roots table is written at "+bad+" on a path that does not pass the exactly-one-active-root check: the cluster can end up with zero or two active roots")
		} else {
			r.Hold("C12.5", name, p.FuncPos(f), "writes only below active count == 1; delete-all, inserts and index bump in one transaction")
		}
	}
	r.Floor("C12.5", 2)
}

// rawRowTypes: the named types T such that g hands out *T (or a slice of
// *T) that is the very object stored in memdb — the result derives from a
// memdb read (First/Last/LongestPrefix or an iterator's Next) without an
// intervening copy — possibly through other state-package functions.
func rawRowTypes(p *core.Program, g *ssa.Function, onStack map[*ssa.Function]bool) map[string]bool {
	if g == nil {
		return nil
	}
	key := "rawRowTypes:" + core.FuncName(g)
	if v, ok := p.MemoGet(key); ok {
		return v.(map[string]bool)
	}
	out := map[string]bool{}
	if g.Blocks == nil || onStack[g] {
		return out
	}
	onStack[g] = true
	defer delete(onStack, g)
	rowType := func(t types.Type) string {
		if sl, ok := t.Underlying().(*types.Slice); ok {
			t = sl.Elem()
		}
		if pt, ok := t.Underlying().(*types.Pointer); ok {
			if nt := core.NamedOf(pt.Elem()); nt != nil {
				if _, isStruct := nt.Underlying().(*types.Struct); isStruct {
					return nt.Obj().Name()
				}
			}
		}
		return ""
	}
	for _, b := range g.Blocks {
		ret, ok := b.Instrs[len(b.Instrs)-1].(*ssa.Return)
		if !ok {
			continue
		}
		for i := range ret.Results {
			rv := core.ResolveResult(ret, i)
			tn := rowType(rv.Type())
			if tn == "" {
				continue
			}
			for _, leaf := range core.Leaves(rv, core.SliceOpts{}) {
				call, ok := leaf.(*ssa.Call)
				if !ok {
					continue
				}
				if op := core.AsMemdbOp(call); op != nil && op.IsRead() {
					out[tn] = true
					continue
				}
				if call.Call.IsInvoke() && call.Call.Method.Name() == "Next" && strings.Contains(core.ShortType(call.Call.Value.Type()), "ResultIterator") {
					out[tn] = true
					continue
				}
				h := call.Call.StaticCallee()
				if h == nil || h.Blocks == nil {
					continue
				}
				if strings.HasSuffix(core.FuncPkgPath(h), "/agent/consul/state") {
					if rawRowTypes(p, h, onStack)[tn] {
						out[tn] = true
					}
					continue
				}
				// a selector outside the state package (roots.Active()): its result is one of its
				// arguments' elements; judge the arguments
				passThrough := true
				for _, hb := range h.Blocks {
					if hret, ok := hb.Instrs[len(hb.Instrs)-1].(*ssa.Return); ok {
						for i := range hret.Results {
							for _, hl := range core.Leaves(core.ResolveResult(hret, i), core.SliceOpts{}) {
								switch hl.(type) {
								case *ssa.Parameter, *ssa.Const:
								default:
									passThrough = false
								}
							}
						}
					}
				}
				if !passThrough {
					continue
				}
				for _, a := range call.Call.Args {
					if rowType(a.Type()) != tn {
						continue
					}
					for _, al := range core.Leaves(a, core.SliceOpts{}) {
						if ac, ok := al.(*ssa.Call); ok {
							if ah := ac.Call.StaticCallee(); ah != nil && strings.HasSuffix(core.FuncPkgPath(ah), "/agent/consul/state") && rawRowTypes(p, ah, onStack)[tn] {
								out[tn] = true
							}
						}
					}
				}
			}
		}
	}
	if len(onStack) == 1 {
		p.MemoSet(key, out)
	}
	return out
}

// C12.6
func checkNoInPlaceMutationOfRows(c *Ctx) {
	p, r := c.P, c.R
	n := 0
	nFns := 0
	readers := map[string]bool{}
	for _, f := range p.SrcFuncs("agent/consul") {
		nFns++
		for _, b := range f.Blocks {
			for _, in := range b.Instrs {
				st, ok := in.(*ssa.Store)
				if !ok {
					continue
				}
				fa, ok := st.Addr.(*ssa.FieldAddr)
				if !ok {
					continue
				}
				// the object written through: the pointer the outermost field is addressed from
				base := fa.X
				if _, isAlloc := base.(*ssa.Alloc); isAlloc {
					continue
				}
				pt, ok := base.Type().Underlying().(*types.Pointer)
				if !ok {
					continue
				}
				nt := core.NamedOf(pt.Elem())
				if nt == nil {
					continue
				}
				// does the base pointer come out of a state-store read that hands out the stored row itself?
				fromStore := ""
				for _, leaf := range core.Leaves(base, core.SliceOpts{}) {
					call, ok := leaf.(*ssa.Call)
					if !ok {
						continue
					}
					g := call.Call.StaticCallee()
					if g == nil || g.Signature.Recv() == nil || !strings.HasSuffix(core.FuncPkgPath(g), "/agent/consul/state") {
						continue
					}
					if rawRowTypes(p, g, map[*ssa.Function]bool{})[nt.Obj().Name()] {
						fromStore = g.Name()
						readers[g.Name()] = true
					}
				}
				if fromStore == "" {
					continue
				}
				n++
				r.Violate("C12.6", core.FuncName(f)+"/"+nt.Obj().Name()+"."+core.FieldObj(fa).Name(), p.Pos(st.Pos()), fmt.Sprintf("field %s of the %s handed out by state.%s is assigned in place: that object is the row held in the leader's state store, so it changes without a Raft apply (for CA roots: the active root is deactivated before — and even if — the rotation commits, and only on this server)", core.FieldObj(fa).Name(), nt.Obj().Name(), fromStore))
			}
		}
	}
	// containers (maps, slices) that belong to a handed-out row: updating, deleting from, overwriting an
	// element of, or sorting them in place changes the stored row just the same
	for _, f := range p.SrcFuncs("agent/consul") {
		for _, b := range f.Blocks {
			for _, in := range b.Instrs {
				var container ssa.Value
				what := ""
				switch x := in.(type) {
				case *ssa.MapUpdate:
					container, what = x.Map, "map update"
				case *ssa.Call:
					if bi, ok := x.Call.Value.(*ssa.Builtin); ok && bi.Name() == "delete" {
						container, what = x.Call.Args[0], "delete from map"
					} else if cn := core.MethodNameOf(&x.Call); core.CalleePkgPath(&x.Call) == "sort" && !strings.Contains(cn, "Sorted") && !strings.HasPrefix(cn, "Search") && len(x.Call.Args) > 0 {
						container, what = x.Call.Args[0], "in-place sort"
						if mi, ok := container.(*ssa.MakeInterface); ok {
							container = mi.X
						}
						if ct, ok := container.(*ssa.ChangeType); ok {
							container = ct.X
						}
					}
				case *ssa.Store:
					if ia, ok := x.Addr.(*ssa.IndexAddr); ok {
						if _, isSlice := ia.X.Type().Underlying().(*types.Slice); isSlice {
							container, what = ia.X, "slice element store"
						}
					}
				}
				if container == nil {
					continue
				}
				// the container is a field of a row pointer
				ld, ok := container.(*ssa.UnOp)
				if !ok || ld.Op != token.MUL {
					continue
				}
				fa, ok := ld.X.(*ssa.FieldAddr)
				if !ok {
					continue
				}
				pt, ok := fa.X.Type().Underlying().(*types.Pointer)
				if !ok {
					continue
				}
				nt := core.NamedOf(pt.Elem())
				if nt == nil {
					continue
				}
				fromStore := ""
				for _, leaf := range core.Leaves(fa.X, core.SliceOpts{}) {
					call, ok := leaf.(*ssa.Call)
					if !ok {
						continue
					}
					g := call.Call.StaticCallee()
					if g == nil || g.Signature.Recv() == nil || !strings.HasSuffix(core.FuncPkgPath(g), "/agent/consul/state") {
						continue
					}
					if rawRowTypes(p, g, map[*ssa.Function]bool{})[nt.Obj().Name()] {
						fromStore = g.Name()
					}
				}
				if fromStore == "" {
					continue
				}
				n++
				r.Violate("C12.6", core.FuncName(f)+"/"+nt.Obj().Name()+"."+core.FieldObj(fa).Name()+"/"+strings.ReplaceAll(what, " ", "-"), p.Pos(in.Pos()), fmt.Sprintf("%s on field %s of the %s handed out by state.%s: that container belongs to the row held in the state store, so the row changes without a Raft apply, on this server only", what, core.FieldObj(fa).Name(), nt.Obj().Name(), fromStore))
			}
		}
	}
	// the readers the CA manager relies on are recognised as handing out stored rows (positive instance: the rule can fire)
	sp := p.Pkg("agent/consul/state")
	for _, rd := range []struct{ fn, typ string }{{"(*Store).CARoots", "CARoot"}, {"(*Store).CARootActive", "CARoot"}, {"(*Store).CAConfig", "CAConfiguration"}} {
		g := p.Func("agent/consul/state", rd.fn)
		if g == nil || sp == nil {
			r.Unresolve("C12.6", "state."+rd.fn, "reader not found")
			continue
		}
		if rawRowTypes(p, g, map[*ssa.Function]bool{})[rd.typ] {
			r.Hold("C12.6", "state."+rd.fn+"/hands-out-row", p.FuncPos(g), "recognised as handing out the stored "+rd.typ+"; no caller in agent/consul writes through it")
		} else {
			r.Hold("C12.6", "state."+rd.fn+"/hands-out-copy", p.FuncPos(g), "returns a copy")
		}
	}
	if n == 0 {
		r.Hold("C12.6", "agent/consul", "", fmt.Sprintf("%d functions: no store through a pointer to a row handed out by the state store", nFns))
	}
	if nFns < 1000 {
		r.MissingInstance("C12.6", "<functions>", fmt.Sprintf("only %d functions found", nFns))
	}
}

// C12.7
func checkIdentityUnescaped(c *Ctx) {
	p, r := c.P, c.R
	f := p.Func("agent/connect", "ParseCertURI")
	if f == nil {
		r.Unresolve("C12.7", "connect.ParseCertURI", "not found")
		return
	}
	isUnescape := func(v ssa.Value) bool {
		call, ok := v.(*ssa.Call)
		return ok && strings.HasSuffix(core.CalleeName(&call.Call), "url.PathUnescape")
	}
	// the RawPath != "" tests
	var rawNonEmpty []core.Edge
	for _, b := range f.Blocks {
		for _, in := range b.Instrs {
			cmp, ok := in.(*ssa.BinOp)
			if !ok || (cmp.Op != token.NEQ && cmp.Op != token.EQL) {
				continue
			}
			if s, ok := core.ConstString(cmp.Y); !ok || s != "" {
				continue
			}
			if core.AccessOf(cmp.X).LastField() != "RawPath" {
				continue
			}
			te, fe := core.CondEdges(cmp)
			if cmp.Op == token.NEQ {
				rawNonEmpty = append(rawNonEmpty, te...)
			} else {
				rawNonEmpty = append(rawNonEmpty, fe...)
			}
		}
	}
	n := 0
	perType := map[string]int{}
	for _, b := range f.Blocks {
		for _, in := range b.Instrs {
			st, ok := in.(*ssa.Store)
			if !ok {
				continue
			}
			fa, ok := st.Addr.(*ssa.FieldAddr)
			if !ok {
				continue
			}
			nt := core.NamedOf(fa.X.Type())
			if nt == nil || !strings.HasPrefix(nt.Obj().Name(), "SpiffeID") {
				continue
			}
			if bt, ok := st.Val.Type().Underlying().(*types.Basic); !ok || bt.Kind() != types.String {
				continue
			}
			n++
			construct := "connect.ParseCertURI/" + nt.Obj().Name() + "." + core.FieldObj(fa).Name()
			perType[construct]++
			bad := ""
			usesRaw := false
			for _, leaf := range core.Leaves(st.Val, core.SliceOpts{ThroughCalls: true, StopAt: isUnescape}) {
				switch x := leaf.(type) {
				case *ssa.Call:
					if isUnescape(x) {
						continue
					}
					switch core.MethodNameOf(&x.Call) {
					case "EscapedPath", "RequestURI", "String":
						if strings.Contains(core.ShortType(x.Call.Args[0].Type()), "url.URL") {
							bad = "derives from (*url.URL)." + core.MethodNameOf(&x.Call) + "(), which is always percent-encoded, on a path that does not pass url.PathUnescape"
						}
					}
				case *ssa.UnOp:
					if core.AccessOf(x).LastField() == "RawPath" {
						usesRaw = true
					}
				}
			}
			if bad == "" && usesRaw {
				// the unescape calls feeding this field lie below a RawPath != "" edge, and the raw text reaches the field only …
				okGuard := len(rawNonEmpty) > 0
				for _, leaf := range core.Leaves(st.Val, core.SliceOpts{}) {
					if call, ok := leaf.(*ssa.Call); ok && isUnescape(call) {
						if !core.CutMakesUnreachable(f, nil, rawNonEmpty, call) {
							okGuard = false
						}
					}
				}
				hasUnescape := false
				for _, leaf := range core.Leaves(st.Val, core.SliceOpts{}) {
					if call, ok := leaf.(*ssa.Call); ok && isUnescape(call) {
						hasUnescape = true
					}
				}
				if !hasUnescape {
					bad = "derives from the percent-encoded RawPath and is never unescaped"
				} else if !okGuard {
					bad = "is unescaped under a condition other than the RawPath test that selected the encoded path"
				}
			}
			if bad != "" {
				r.Violate("C12.7", construct, p.Pos(st.Pos()), "the identity field "+bad+": the ACL and datacenter checks run on the encoded text (service \"web%20x\") while the certificate carries the URI that verifiers decode (\"web x\") — a token with write on one name obtains a certificate for another")
			} else {
				r.Hold("C12.7", construct, p.Pos(st.Pos()), "decoded wherever the encoded path is used")
			}
		}
	}
	r.Floor("C12.7", 8)
}


// C12.8: the trust-domain allowlist answers true only on an exact string equality between the
// identity in the request and the signer's own (host for workloads, URI for CA certificates) —
// not on a prefix, suffix or containment test, which would admit "<trust-domain>.evil.example".
func checkCanSignEquality(c *Ctx) {
	p, r := c.P, c.R
	n := 0
	for _, f := range p.SrcFuncs("agent/connect") {
		if f.Name() != "CanSign" || f.Signature.Recv() == nil || f.Signature.Results().Len() != 1 || !isBoolT(f.Signature.Results().At(0).Type()) {
			continue
		}
		n++
		name := core.FuncName(f)
		isStr := func(v ssa.Value) bool {
			b, ok := v.Type().Underlying().(*types.Basic)
			return ok && b.Kind() == types.String
		}
		ok := core.PredicateTrueOnlyBelow(f, func(cv core.CmpView) (bool, bool) {
			if !isStr(cv.X) || !isStr(cv.Y) {
				return false, false
			}
			if _, isK := cv.X.(*ssa.Const); isK {
				return false, false
			}
			if _, isK := cv.Y.(*ssa.Const); isK {
				return false, false
			}
			return cv.Op == token.EQL, cv.Op == token.NEQ
		})
		if ok {
			r.Hold("C12.8", name, p.FuncPos(f), "signable only on an exact equality of the two identities' host / URI")
		} else {
			r.Violate("C12.8", name, p.FuncPos(f), "the trust-domain check can answer true without an exact equality between the requested identity's host and ours (a prefix/contains test, a helper that is not an equality, or an unconditional true): an identity in a foreign trust domain that merely shares a prefix gets a certificate chaining to our root")
		}
	}
	if n == 0 {
		r.Unresolve("C12.8", "connect.(SpiffeIDSigning).CanSign", "not found")
	}
	r.Floor("C12.8", 1)
}
