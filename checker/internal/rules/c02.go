package rules

import (
	"encoding/json"
	"path/filepath"
	"os"
	"fmt"
	"go/ast"
	"go/constant"
	"go/token"
	"go/types"
	"sort"
	"strings"

	"golang.org/x/tools/go/ssa"

	"verifcheck/internal/core"
)

func init() {
	register(&Rule{ID: "C02", Patterns: []string{"./agent/consul/state", "./agent/consul/fsm"}, Run: runC02})
}

// messageTypeNames: value → constant name, from the const block of package
// structs that declares RegisterRequestType (only the first constant of that
// block is typed, so the block is the enumeration).
func messageTypeNames(p *core.Program) map[int64]string {
	out := map[int64]string{}
	pk := p.Pkg("agent/structs")
	if pk == nil {
		return out
	}
	for _, file := range pk.Syntax {
		for _, d := range file.Decls {
			gd, ok := d.(*ast.GenDecl)
			if !ok || gd.Tok != token.CONST {
				continue
			}
			has := false
			for _, sp := range gd.Specs {
				for _, n := range sp.(*ast.ValueSpec).Names {
					if n.Name == "RegisterRequestType" {
						has = true
					}
				}
			}
			if !has {
				continue
			}
			for _, sp := range gd.Specs {
				for _, n := range sp.(*ast.ValueSpec).Names {
					if k, ok := pk.TypesInfo.Defs[n].(*types.Const); ok && k.Val().Kind() == constant.Int {
						v, _ := constant.Int64Val(k.Val())
						out[v] = n.Name
					}
				}
			}
		}
	}
	return out
}

// kindByteOfWrite: sink.Write([]byte{byte(K)}) → K.
func kindByteOfWrite(in ssa.Instruction) (int64, bool) {
	ci, ok := in.(ssa.CallInstruction)
	if !ok || core.MethodNameOf(ci.Common()) != "Write" {
		return 0, false
	}
	args := core.CallArgs(ci.Common())
	if len(args) != 1 {
		return 0, false
	}
	elems := core.UnpackVariadic(args[0])
	if len(elems) != 1 {
		return 0, false
	}
	return core.ConstInt(elems[0])
}

type persisted struct {
	kind int64
	typ  types.Type
	fn   *ssa.Function
	pos  token.Pos
}

type restorer struct {
	kind int64
	fn   *ssa.Function
	typ  types.Type
	pos  token.Pos
}

func derefType(t types.Type) types.Type {
	for {
		pt, ok := types.Unalias(t).Underlying().(*types.Pointer)
		if !ok {
			return t
		}
		t = pt.Elem()
	}
}

func runC02(c *Ctx) {
	p, r := c.P, c.R
	r.Clauses = []string{
		"C02.1 every record kind a persister writes has a restorer (registered or handled inline) that decodes the same type, and every restorer's kind is written by some persister",
		"C02.2 every table of the schema is persisted and restored, or rebuilt on restore (derived), or listed with a reason",
		"C02.3 restorers whose records follow the index records in the stream never lower an index row (max-merge only)",
		"C02.4 FSM.Restore swaps the state in only after the restore transaction committed, aborts by defer, swaps and refreshes subscriptions under the state lock, abandons the old store afterwards; no restorer opens or commits a transaction of its own",
		"C02.5 the registration restorer goes through the same registration function as the online path, so derived catalog tables are rebuilt by their maintainers",
		"C02.7 for every restorer that reads a table restored by another record kind, the order of the two in the snapshot stream is the reviewed one (rules/c02_restore_order.json)",
		"C02.8 every method of the point-in-time state.Snapshot reads through the snapshot's own transaction: no table read on another transaction and no call into a Store method that opens one (the stream must be one consistent cut)",
		"C02.6 the restore-side rebuild of the peering secret UUID table adds, on every path on which it is non-empty, every secret the online delete path frees",
	}
	r.NotDecided = []string{"that restored content equals persisted content for every state (needs the round trip)", "create/modify index equality per row", "query-result equality after the cut"}

	names := messageTypeNames(p)
	nameOf := func(k int64) string {
		if n, ok := names[k]; ok {
			return n
		}
		return fmt.Sprintf("type-%d", k)
	}

	// ---- persisters: functions of package fsm reachable from persistCE
	persistCE := p.Func(fsmPkg, "persistCE")
	if persistCE == nil {
		r.Unresolve("C02.1", "fsm.persistCE", "not found")
		return
	}
	persistReach := reachableStatic(p, []*ssa.Function{persistCE}, fsmPkg)
	var writes []persisted
	for f := range persistReach {
		for _, b := range f.Blocks {
			for i, in := range b.Instrs {
				k, ok := kindByteOfWrite(in)
				if !ok {
					continue
				}
				// the next Encode on the path: search forward in the walk
				var encT types.Type
				w := &core.Walk{
					Stop: func(x ssa.Instruction) bool {
						if ci, ok := x.(ssa.CallInstruction); ok && core.MethodNameOf(ci.Common()) == "Encode" {
							return true
						}
						_, isW := kindByteOfWrite(x)
						return isW && x != in
					},
					Visit: func(x ssa.Instruction) {
						if encT != nil {
							return
						}
						if ci, ok := x.(ssa.CallInstruction); ok && core.MethodNameOf(ci.Common()) == "Encode" {
							args := core.CallArgs(ci.Common())
							if len(args) == 1 {
								v := args[0]
								if mi, ok := v.(*ssa.MakeInterface); ok {
									v = mi.X
								}
								encT = v.Type()
							}
						}
					},
				}
				_ = i
				w.FromInstr(in)
				writes = append(writes, persisted{k, encT, f, in.Pos()})
			}
		}
	}
	// ---- restorers
	var restorers []restorer
	reg := p.Func(fsmPkg, "registerRestorer")
	scan := func(f *ssa.Function) {
		for _, b := range f.Blocks {
			for _, in := range b.Instrs {
				call, ok := in.(*ssa.Call)
				if !ok || reg == nil || call.Call.StaticCallee() != reg || len(call.Call.Args) != 2 {
					continue
				}
				k, ok := core.ConstInt(call.Call.Args[0])
				if !ok {
					continue
				}
				h := resolveFuncValue(call.Call.Args[1])
				if h == nil {
					r.Unresolve("C02.1", "restorer:"+nameOf(k), "restorer is not a static function value")
					continue
				}
				var decT types.Type
				for _, bb := range h.Blocks {
					for _, x := range bb.Instrs {
						if ci, ok := x.(ssa.CallInstruction); ok && core.MethodNameOf(ci.Common()) == "Decode" && decT == nil {
							args := core.CallArgs(ci.Common())
							if len(args) == 1 {
								v := args[0]
								if mi, ok := v.(*ssa.MakeInterface); ok {
									v = mi.X
								}
								decT = v.Type()
							}
						}
					}
				}
				restorers = append(restorers, restorer{k, h, decT, in.Pos()})
			}
		}
	}
	for _, f := range p.SrcFuncs(fsmPkg) {
		scan(f)
	}
	if sp := p.SSAPkg(fsmPkg); sp != nil {
		if initf := sp.Func("init"); initf != nil {
			scan(initf)
		}
	}
	// de-dup restorers by kind+fn
	{
		seen := map[string]bool{}
		var u []restorer
		for _, x := range restorers {
			k := fmt.Sprintf("%d/%s", x.kind, x.fn.String())
			if !seen[k] {
				seen[k] = true
				u = append(u, x)
			}
		}
		restorers = u
	}
	// inline kinds handled by FSM.Restore's handler closure: msg == const
	inline := map[int64]bool{}
	if fr := p.Func(fsmPkg, "(*FSM).Restore"); fr != nil {
		for _, a := range fr.AnonFuncs {
			for _, b := range a.Blocks {
				for _, in := range b.Instrs {
					if cmp, ok := in.(*ssa.BinOp); ok && cmp.Op == token.EQL {
						if nt, ok := types.Unalias(cmp.X.Type()).(*types.Named); ok && nt.Obj().Name() == "MessageType" {
							if k, ok := core.ConstInt(cmp.Y); ok {
								inline[k] = true
							}
						}
					}
				}
			}
		}
	}
	restorerByKind := map[int64]restorer{}
	for _, x := range restorers {
		restorerByKind[x.kind] = x
	}
	writtenKinds := map[int64][]persisted{}
	for _, w := range writes {
		writtenKinds[w.kind] = append(writtenKinds[w.kind], w)
	}
	r.Analysed["persisted_kinds"] = len(writtenKinds)
	r.Analysed["restorers"] = len(restorers)
	r.Analysed["inline_kinds"] = len(inline)
	var kinds []int64
	for k := range writtenKinds {
		kinds = append(kinds, k)
	}
	sort.Slice(kinds, func(i, j int) bool { return kinds[i] < kinds[j] })
	// typeCompat: frozen, confirmed field by field
	compatOK := map[string]string{
		"TombstoneRequestType":       "tombstones travel as DirEntry (key + index) and are decoded as DirEntry",
		"ServiceVirtualIPRequestType": "decoded through the compatibility struct that carries the same msgpack field names",
	}
	for _, k := range kinds {
		ws := writtenKinds[k]
		construct := "kind:" + nameOf(k)
		pos := p.Pos(ws[0].pos)
		rs, ok := restorerByKind[k]
		switch {
		case !ok && inline[k]:
			r.Hold("C02.1", construct, pos, "written by "+core.FuncName(ws[0].fn)+", handled inline by FSM.Restore")
		case !ok:
			r.Violate("C02.1", construct, pos, "record kind "+nameOf(k)+" is written to snapshots by "+core.FuncName(ws[0].fn)+" but no restorer is registered for it: restore fails with 'Unrecognized msg type' (or the data is lost)")
		default:
			bad := ""
			for _, w := range ws {
				if w.typ == nil || rs.typ == nil {
					bad = "cannot determine the encoded/decoded type"
					continue
				}
				et, dt := derefType(w.typ), derefType(rs.typ)
				if !types.Identical(et, dt) {
					if why, ok := compatOK[nameOf(k)]; ok {
						_ = why
						continue
					}
					bad = fmt.Sprintf("persister %s encodes %s but restorer %s decodes %s", core.FuncName(w.fn), core.ShortType(et), core.FuncName(rs.fn), core.ShortType(dt))
				}
			}
			if bad != "" {
				r.Violate("C02.1", construct, pos, bad)
			} else {
				r.Hold("C02.1", construct, pos, fmt.Sprintf("%d write site(s), restorer %s, same type", len(ws), core.FuncName(rs.fn)))
			}
		}
	}
	for _, rs := range restorers {
		if _, ok := writtenKinds[rs.kind]; !ok {
			r.Violate("C02.1", "restorer-without-persister:"+nameOf(rs.kind), p.Pos(rs.pos), "a restorer is registered for "+nameOf(rs.kind)+" but no persister writes that kind: the data it would restore is never saved")
		}
	}
	r.Floor("C02.1", 26)

	// ---- C02.2 tables
	tables := schemaTables(p)
	r.Analysed["schema_tables"] = len(tables)
	snapReads := map[string]bool{}
	restWrites := map[string]bool{}
	for _, f := range p.SrcFuncs(statePkg) {
		if f.Parent() != nil || f.Signature.Recv() == nil {
			continue
		}
		n := core.NamedOf(f.Signature.Recv().Type())
		if n == nil {
			continue
		}
		switch n.Obj().Name() {
		case "Snapshot":
			for _, t := range tables {
				if readsTable(p, f, t, "", 0) {
					snapReads[t] = true
				}
			}
		case "Restore":
			for _, t := range tables {
				if insertsInto(p, f, t, 0) {
					restWrites[t] = true
				}
			}
		}
	}
	listed := map[string]string{
		"census_snapshots": "no CE command writes it (the only producer has no caller); nothing to lose",
	}
	for _, t := range tables {
		construct := "table:" + t
		switch {
		case snapReads[t] && restWrites[t]:
			r.Hold("C02.2", construct, "", "persisted (a Snapshot method reads it) and restored (a Restore method inserts into it)")
		case !snapReads[t] && restWrites[t]:
			r.Hold("C02.2", construct, "", "derived: not persisted, rebuilt by a Restore method / the restore transaction's commit")
		case listed[t] != "":
			r.Add(core.Obligation{Rule: "C02.2", Construct: construct, Decision: core.Holds, Reason: listed[t], Exception: "listed"})
		case snapReads[t] && !restWrites[t]:
			r.Violate("C02.2", construct, "", "table "+t+" is read by a snapshot method but no restore method ever inserts into it: its rows are lost on restore")
		default:
			r.Violate("C02.2", construct, "", "table "+t+" of the schema is neither persisted nor rebuilt on restore: its rows are lost across a snapshot")
		}
	}
	r.Floor("C02.2", 36)

	// ---- C02.3 restorers after the index records
	persistIndexCall, order := persistOrder(p, persistCE)
	if persistIndexCall == nil {
		r.Unresolve("C02.3", "fsm.persistCE/persistIndex", "cannot find the persister of the index table in persistCE")
	} else {
		lateKinds := map[int64]bool{}
		for _, call := range order {
			g := call.Common().StaticCallee()
			if g == nil {
				continue
			}
			if !persistIndexCall.Block().Dominates(call.Block()) || call == persistIndexCall {
				continue
			}
			if call.Block() == persistIndexCall.Block() {
				continue
			}
			for f := range reachableStatic(p, []*ssa.Function{g}, fsmPkg) {
				for _, w := range writes {
					if w.fn == f {
						lateKinds[w.kind] = true
					}
				}
			}
		}
		var lk []int64
		for k := range lateKinds {
			lk = append(lk, k)
		}
		sort.Slice(lk, func(i, j int) bool { return lk[i] < lk[j] })
		for _, k := range lk {
			rs, ok := restorerByKind[k]
			if !ok {
				continue
			}
			construct := "late-restorer:" + nameOf(k)
			bad := ""
			for f, path := range reachableConsul(p, rs.fn) {
				for _, b := range f.Blocks {
					for _, in := range b.Instrs {
						op := core.AsMemdbOp(in)
						if op == nil || op.Op != "Insert" || !op.TableKnown || op.Table != indexTableName {
							continue
						}
						if !isMaxMergeSetter(f) {
							bad = fmt.Sprintf("%s overwrites an index row at %s (reached via %s): the verbatim index rows restored earlier in the stream are lowered, so queries report a smaller index after restore", core.FuncName(f), p.Pos(in.Pos()), strings.Join(path, " → "))
						}
					}
				}
			}
			if bad != "" {
				r.Violate("C02.3", construct, p.FuncPos(rs.fn), bad)
			} else {
				r.Hold("C02.3", construct, p.FuncPos(rs.fn), "index rows are only raised (max-merge) or not touched")
			}
		}
		r.Floor("C02.3", 3)
	}

	// ---- C02.7 restore-order dependences: a restorer that re-runs online logic reads tables
	// that other record kinds restore; whether those are already present when it runs is decided
	// by the order of the snapshot stream. The direction of every such pair is compared with the
	// reviewed reference table (rules/c02_restore_order.json).
	{
		pos := map[int64]int{}
		for i, call := range order {
			g := call.Common().StaticCallee()
			if g == nil {
				continue
			}
			for f := range reachableStatic(p, []*ssa.Function{g}, fsmPkg) {
				for _, w := range writes {
					if w.fn == f {
						if _, ok := pos[w.kind]; !ok {
							pos[w.kind] = i
						}
					}
				}
			}
		}
		reads := map[int64]core.StrSet{}
		writesT := map[int64]core.StrSet{}
		owners := map[string][]int64{}
		var kinds []int64
		for k, rs := range restorerByKind {
			kinds = append(kinds, k)
			reads[k], writesT[k] = core.StrSet{}, core.StrSet{}
			for f := range reachableConsul(p, rs.fn) {
				if !strings.HasSuffix(core.FuncPkgPath(f), "/"+statePkg) {
					continue
				}
				for _, b := range f.Blocks {
					for _, in := range b.Instrs {
						op := core.AsMemdbOp(in)
						if op == nil || !op.TableKnown || op.Table == indexTableName {
							continue
						}
						if op.IsRead() {
							reads[k][op.Table] = true
						}
						if op.Op == "Insert" {
							writesT[k][op.Table] = true
						}
					}
				}
			}
		}
		sort.Slice(kinds, func(i, j int) bool { return kinds[i] < kinds[j] })
		for _, k := range kinds {
			for t := range writesT[k] {
				owners[t] = append(owners[t], k)
			}
		}
		current := map[string]string{}
		for _, k := range kinds {
			pk, ok := pos[k]
			if !ok {
				continue
			}
			for _, t := range reads[k].Keys() {
				if writesT[k][t] {
					continue
				}
				for _, k2 := range owners[t] {
					p2, ok := pos[k2]
					if !ok || k2 == k {
						continue
					}
					dir := "after"
					if p2 < pk {
						dir = "before"
					} else if p2 == pk {
						dir = "same"
					}
					current[fmt.Sprintf("%s reads %s (restored by %s)", nameOf(k), t, nameOf(k2))] = dir
				}
			}
		}
		ref := map[string]string{}
		if b, err := os.ReadFile(filepath.Join(c.VerifDir, "rules", "c02_restore_order.json")); err == nil {
			var doc struct {
				Pairs map[string]string `json:"pairs"`
			}
			if json.Unmarshal(b, &doc) == nil {
				ref = doc.Pairs
			}
		}
		var keys []string
		for k := range current {
			keys = append(keys, k)
		}
		sort.Strings(keys)
		r.Analysed["restore_order_pairs"] = current
		var fresh []string
		for _, k := range keys {
			want, known := ref[k]
			switch {
			case !known:
				fresh = append(fresh, k+": "+current[k])
			case want == current[k]:
				r.Hold("C02.7", k, "", "that table's records come "+map[string]string{"before": "before", "after": "after", "same": "in the same persister as"}[want]+" this restorer's records, as reviewed")
			default:
				r.Violate("C02.7", k, "", fmt.Sprintf("the snapshot stream now has the records of that table %s this restorer's records (reviewed order: %s): the online logic the restorer re-runs sees a different state than it did when the reference was reviewed — e.g. the registration restorer allocating virtual IPs because the virtual-ips feature flag is already visible — so restore no longer reproduces the persisted state", current[k], want))
			}
		}
		if len(fresh) > 0 {
			r.Notes = append(r.Notes, "restore-order pairs not in the reviewed reference (not judged): "+strings.Join(fresh, "; "))
		}
		r.Floor("C02.7", 5)
	}

	checkSnapshotReadsOwnTxn(c)
	checkFSMRestore(c, restorers2funcs(restorers))
	checkRegistrationShared(c)
	checkSecretUUIDRebuild(c)
}

func restorers2funcs(rs []restorer) []*ssa.Function {
	var out []*ssa.Function
	for _, x := range rs {
		out = append(out, x.fn)
	}
	return out
}

// reachableConsul: static-call closure from f inside the consul modules.
func reachableConsul(p *core.Program, root *ssa.Function) map[*ssa.Function][]string {
	out := map[*ssa.Function][]string{}
	var visit func(f *ssa.Function, path []string)
	visit = func(f *ssa.Function, path []string) {
		if f == nil || f.Blocks == nil {
			return
		}
		if _, ok := out[f]; ok {
			return
		}
		path = append(append([]string{}, path...), core.FuncName(f))
		out[f] = path
		for _, b := range f.Blocks {
			for _, in := range b.Instrs {
				if ci, ok := in.(ssa.CallInstruction); ok {
					if g := ci.Common().StaticCallee(); g != nil && core.IsConsul(core.FuncPkgPath(g)) {
						visit(g, path)
					}
				}
			}
		}
	}
	visit(root, nil)
	return out
}

// isMaxMergeSetter: the function inserts into the index table only after
// reading the current row and comparing the new value with it (<= returns).
func isMaxMergeSetter(f *ssa.Function) bool {
	readsIndex := false
	hasLE := false
	for _, b := range f.Blocks {
		for _, in := range b.Instrs {
			if op := core.AsMemdbOp(in); op != nil && op.IsRead() && op.TableKnown && op.Table == indexTableName {
				readsIndex = true
			}
			if cmp, ok := in.(*ssa.BinOp); ok && (cmp.Op == token.LEQ || cmp.Op == token.LSS || cmp.Op == token.GTR || cmp.Op == token.GEQ) {
				if core.AccessOf(cmp.X).LastField() == "Value" || core.AccessOf(cmp.Y).LastField() == "Value" {
					hasLE = true
				}
			}
		}
	}
	return readsIndex && hasLE
}

// schemaTables: names of all memdb.TableSchema literals built in package state.
func schemaTables(p *core.Program) []string {
	set := map[string]bool{}
	for _, f := range p.SrcFuncs(statePkg) {
		for _, b := range f.Blocks {
			for _, in := range b.Instrs {
				st, ok := in.(*ssa.Store)
				if !ok {
					continue
				}
				fa, ok := st.Addr.(*ssa.FieldAddr)
				if !ok || core.FieldObj(fa) == nil || core.FieldObj(fa).Name() != "Name" {
					continue
				}
				if n := core.NamedOf(fa.X.Type()); n == nil || n.Obj().Name() != "TableSchema" {
					continue
				}
				if s, ok := core.ConstString(st.Val); ok {
					set[s] = true
				} else if pi := core.ParamIndex(st.Val); pi >= 0 {
					// schema helper taking the table name as a parameter: constant at its call sites
					for _, ci := range callersOf(p, f, statePkg) {
						if pi < len(ci.Common().Args) {
							if s, ok := core.ConstString(ci.Common().Args[pi]); ok {
								set[s] = true
							}
						}
					}
				}
			}
		}
	}
	return sortedKeys(set)
}

// persistOrder: the persist* calls of persistCE in order, and the one that
// persists the index table.
func persistOrder(p *core.Program, persistCE *ssa.Function) (ssa.CallInstruction, []ssa.CallInstruction) {
	var order []ssa.CallInstruction
	var idxCall ssa.CallInstruction
	for _, b := range persistCE.Blocks {
		for _, in := range b.Instrs {
			ci, ok := in.(ssa.CallInstruction)
			if !ok {
				continue
			}
			g := ci.Common().StaticCallee()
			if g == nil || core.FuncPkgPath(g) != core.ConsulModulePrefix+"/"+fsmPkg {
				continue
			}
			order = append(order, ci)
			// persister of the index table: calls (*state.Snapshot).Indexes (reads table index)
			for _, bb := range g.Blocks {
				for _, x := range bb.Instrs {
					if c2, ok := x.(ssa.CallInstruction); ok {
						if h := c2.Common().StaticCallee(); h != nil && h.Signature.Recv() != nil {
							if n := core.NamedOf(h.Signature.Recv().Type()); n != nil && n.Obj().Name() == "Snapshot" && readsTable(p, h, indexTableName, "", 0) {
								idxCall = ci
							}
						}
					}
				}
			}
		}
	}
	return idxCall, order
}

// C02.4
func checkFSMRestore(c *Ctx, restorerFns []*ssa.Function) {
	p, r := c.P, c.R
	f := p.Func(fsmPkg, "(*FSM).Restore")
	if f == nil {
		r.Unresolve("C02.4", "fsm.(*FSM).Restore", "not found")
		return
	}
	name := core.FuncName(f)
	var commit, swap, refresh, abandon, lock, unlock ssa.Instruction
	deferAbort := false
	for _, b := range f.Blocks {
		for _, in := range b.Instrs {
			switch x := in.(type) {
			case *ssa.Defer:
				if core.MethodNameOf(&x.Call) == "Abort" {
					if g := x.Call.StaticCallee(); g != nil && g.Signature.Recv() != nil {
						if n := core.NamedOf(g.Signature.Recv().Type()); n != nil && n.Obj().Name() == "Restore" {
							deferAbort = true
						}
					}
				}
			case *ssa.Store:
				if fa, ok := x.Addr.(*ssa.FieldAddr); ok && core.FieldObj(fa) != nil && core.FieldObj(fa).Name() == "state" {
					swap = in
				}
			case *ssa.Call:
				mn := core.MethodNameOf(&x.Call)
				g := x.Call.StaticCallee()
				switch {
				case mn == "Commit" && g != nil && g.Signature.Recv() != nil && core.NamedOf(g.Signature.Recv().Type()) != nil && core.NamedOf(g.Signature.Recv().Type()).Obj().Name() == "Restore":
					commit = in
				case mn == "RefreshAllTopics":
					refresh = in
				case mn == "Abandon":
					abandon = in
				case mn == "Lock" && g != nil && strings.Contains(g.String(), "sync."):
					lock = in
				case mn == "Unlock" && g != nil && strings.Contains(g.String(), "sync."):
					unlock = in
				}
			}
		}
	}
	pos := p.FuncPos(f)
	if commit == nil || swap == nil || refresh == nil || abandon == nil || lock == nil || unlock == nil {
		r.Violate("C02.4", name, pos, fmt.Sprintf("structure not found: commit=%v swap=%v refresh=%v abandon=%v lock=%v unlock=%v", commit != nil, swap != nil, refresh != nil, abandon != nil, lock != nil, unlock != nil))
		return
	}
	bad := ""
	if !deferAbort {
		bad = "the restore transaction is not aborted by defer"
	}
	// commit success dominates the swap
	var errV ssa.Value = commit.(ssa.Value)
	var nilEdges []core.Edge
	for _, cmp := range nilCmps(errV) {
		te, fe := core.CondEdges(cmp)
		if cmp.Op == token.EQL {
			nilEdges = append(nilEdges, te...)
		} else {
			nilEdges = append(nilEdges, fe...)
		}
	}
	if len(nilEdges) == 0 || !core.CutMakesUnreachable(f, nil, nilEdges, swap) {
		bad = "the new state store can be swapped in on a path where restore.Commit() did not succeed: a half-restored store becomes visible"
	}
	// without a publisher there is nothing to refresh: the Publisher == nil edges are out of scope
	noPub := map[core.Edge]bool{}
	for _, b := range f.Blocks {
		for _, in := range b.Instrs {
			cmp, ok := in.(*ssa.BinOp)
			if !ok || (cmp.Op != token.EQL && cmp.Op != token.NEQ) || !core.IsNilConst(cmp.Y) {
				continue
			}
			if core.AccessOf(cmp.X).LastField() != "Publisher" {
				continue
			}
			te, fe := core.CondEdges(cmp)
			e := te
			if cmp.Op == token.NEQ {
				e = fe
			}
			for _, x := range e {
				noPub[x] = true
			}
		}
	}
	mf := &core.MustFlow{F: f, Cut: func(b *ssa.BasicBlock, si int) bool { return noPub[core.Edge{From: b, Succ: si}] }, Gen: func(in ssa.Instruction) []string {
		switch in {
		case lock:
			return []string{"lock"}
		case unlock:
			return []string{"unlock"}
		case swap:
			return []string{"swap"}
		case refresh:
			return []string{"refresh"}
		case abandon:
			return []string{"abandon"}
		}
		return nil
	}}
	mf.Run()
	if s, _ := mf.At(swap); !s["lock"] || s["unlock"] {
		bad = "the state swap is not under the state lock"
	}
	if s, _ := mf.At(refresh); !s["lock"] || s["unlock"] || !s["swap"] {
		bad = "subscriptions are not refreshed under the state lock after the swap: a subscriber can get a snapshot of the old data and events of the new"
	}
	for _, rt := range core.Returns(f) {
		if core.ClassifyReturn(rt) == core.RetFailure {
			continue
		}
		if s, reach := mf.At(rt); reach && (!s["swap"] || !s["refresh"] || !s["abandon"] || !s["unlock"]) {
			if bad == "" {
				bad = "a successful return at " + p.Pos(rt.Pos()) + " does not pass swap, refresh, unlock and Abandon: blocked queries on the old store are never woken"
			}
		}
	}
	if bad != "" {
		r.Violate("C02.4", name, pos, bad)
	} else {
		r.Hold("C02.4", name, pos, "commit ⇒ swap under lock ⇒ refresh under lock ⇒ unlock ⇒ abandon; deferred abort")
	}
	// no restorer opens or commits a transaction
	n := 0
	for _, rf := range restorerFns {
		for g, path := range reachableConsul(p, rf) {
			for _, b := range g.Blocks {
				for _, in := range b.Instrs {
					ci, ok := in.(ssa.CallInstruction)
					if !ok {
						continue
					}
					mn := core.MethodNameOf(ci.Common())
					if mn == "WriteTxn" || mn == "WriteTxnRestore" {
						n++
						r.Violate("C02.4.one-txn", core.FuncName(rf)+"/"+mn, p.Pos(in.Pos()), "a restorer opens its own transaction (via "+strings.Join(path, " → ")+"): restore is no longer one transaction swapped in at the end")
					}
					if op := core.AsMemdbOp(in); op != nil && op.Op == "Commit" {
						n++
						r.Violate("C02.4.one-txn", core.FuncName(rf)+"/Commit", p.Pos(in.Pos()), "a restorer commits (via "+strings.Join(path, " → ")+")")
					}
				}
			}
		}
	}
	if n == 0 {
		r.Hold("C02.4.one-txn", "<restorers>", "", fmt.Sprintf("%d restorers, none opens or commits a transaction", len(restorerFns)))
	}
}

// C02.5
func checkRegistrationShared(c *Ctx) {
	p, r := c.P, c.R
	online := p.Func(statePkg, "(*Store).EnsureRegistration")
	restore := p.Func(statePkg, "(*Restore).Registration")
	if online == nil || restore == nil {
		r.Unresolve("C02.5", "state.(*Restore).Registration", "anchor functions not found")
		return
	}
	a := reachableConsul(p, online)
	b := reachableConsul(p, restore)
	// the shared function: writes nodes, services and checks
	var shared []string
	for f := range a {
		if _, ok := b[f]; !ok {
			continue
		}
		if insertsInto(p, f, "services", 0) && insertsInto(p, f, "checks", 0) && insertsInto(p, f, "nodes", 0) {
			shared = append(shared, core.FuncName(f))
		}
	}
	sort.Strings(shared)
	if len(shared) > 0 {
		r.Hold("C02.5", core.FuncName(restore), p.FuncPos(restore), "restore and online registration share "+strings.Join(shared, ", "))
	} else {
		r.Violate("C02.5", core.FuncName(restore), p.FuncPos(restore), "restoring a registration no longer goes through the registration function the online path uses: derived catalog tables (gateway links, mesh topology, kind-service-names, virtual IPs) are not rebuilt on restore")
	}
}

// C02.6
func checkSecretUUIDRebuild(c *Ctx) {
	p, r := c.P, c.R
	const tbl = "peering-secret-uuids"
	// getters feeding a Delete on the UUID table in non-restore code
	getterOf := func(v ssa.Value) []string {
		var out []string
		for _, leaf := range core.Leaves(v, core.SliceOpts{}) {
			if call, ok := leaf.(*ssa.Call); ok {
				mn := core.MethodNameOf(&call.Call)
				if strings.HasPrefix(mn, "Get") && strings.Contains(mn, "Secret") {
					out = append(out, mn)
				}
			}
		}
		return out
	}
	freed := map[string]bool{}
	for _, f := range p.SrcFuncs(statePkg) {
		if isRestoreMethod(f) {
			continue
		}
		for _, b := range f.Blocks {
			for _, in := range b.Instrs {
				op := core.AsMemdbOp(in)
				if op == nil || op.Op != "Delete" || !op.TableKnown || op.Table != tbl {
					continue
				}
				for _, g := range getterOf(op.Obj) {
					freed[g] = true
				}
			}
		}
	}
	rf := p.Func(statePkg, "(*Restore).PeeringSecrets")
	if rf == nil || len(freed) == 0 {
		r.Unresolve("C02.6", "state.(*Restore).PeeringSecrets", fmt.Sprintf("anchor not found (restore method %v, freed getters %d)", rf != nil, len(freed)))
		return
	}
	for _, g := range sortedKeys(freed) {
		construct := core.FuncName(rf) + "/" + g
		// events: append(…, v) or Insert(tbl, v) with v derived from getter g
		isAdd := func(in ssa.Instruction) bool {
			ci, ok := in.(ssa.CallInstruction)
			if !ok {
				return false
			}
			var vals []ssa.Value
			if bi, ok := ci.Common().Value.(*ssa.Builtin); ok && bi.Name() == "append" {
				if len(ci.Common().Args) == 2 {
					vals = core.UnpackVariadic(ci.Common().Args[1])
				}
			} else if op := core.AsMemdbOp(in); op != nil && op.Op == "Insert" && op.TableKnown && op.Table == tbl {
				vals = []ssa.Value{op.Obj}
			}
			for _, v := range vals {
				for _, name := range getterOf(v) {
					if name == g {
						return true
					}
				}
			}
			return false
		}
		// edges on which the getter's value is known empty
		empty := map[core.Edge]bool{}
		nTests := 0
		for _, b := range rf.Blocks {
			for _, in := range b.Instrs {
				cmp, ok := in.(*ssa.BinOp)
				if !ok || (cmp.Op != token.EQL && cmp.Op != token.NEQ) {
					continue
				}
				var other ssa.Value
				if s, ok := core.ConstString(cmp.Y); ok && s == "" {
					other = cmp.X
				} else if s, ok := core.ConstString(cmp.X); ok && s == "" {
					other = cmp.Y
				}
				if other == nil {
					continue
				}
				match := false
				for _, name := range getterOf(other) {
					if name == g {
						match = true
					}
				}
				if !match {
					continue
				}
				nTests++
				te, fe := core.CondEdges(cmp)
				e := te
				if cmp.Op == token.NEQ {
					e = fe
				}
				for _, x := range e {
					empty[x] = true
				}
			}
		}
		mf := &core.MustFlow{F: rf,
			Gen: func(in ssa.Instruction) []string {
				if isAdd(in) {
					return []string{"added"}
				}
				return nil
			},
			Cut: func(b *ssa.BasicBlock, si int) bool { return empty[core.Edge{From: b, Succ: si}] }}
		mf.Run()
		bad := ""
		for _, rt := range core.Returns(rf) {
			if core.ClassifyReturn(rt) == core.RetFailure {
				continue
			}
			if s, reach := mf.At(rt); reach && !s["added"] {
				bad = "restore can finish at " + p.Pos(rt.Pos()) + " without tracking a non-empty " + g + "() in the UUID table, although the online delete path frees it: after a restore that secret's UUID counts as free (and freeing it later fails)"
			}
		}
		if bad != "" {
			r.Violate("C02.6", construct, p.FuncPos(rf), bad)
		} else {
			r.Hold("C02.6", construct, p.FuncPos(rf), fmt.Sprintf("tracked on every path where it is non-empty (%d emptiness tests)", nTests))
		}
	}
	r.Floor("C02.6", 3)
}

// opensTxn: f (a Store method or helper) obtains a new transaction from the database.
func opensTxn(p *core.Program, f *ssa.Function, onStack map[*ssa.Function]bool) bool {
	if f == nil || f.Blocks == nil || onStack[f] {
		return false
	}
	key := "opensTxn:" + f.String()
	if v, ok := p.MemoGet(key); ok {
		return v.(bool)
	}
	onStack[f] = true
	defer delete(onStack, f)
	res := false
	for _, b := range f.Blocks {
		for _, in := range b.Instrs {
			ci, ok := in.(ssa.CallInstruction)
			if !ok {
				continue
			}
			n := core.MethodNameOf(ci.Common())
			if (n == "Txn" || n == "ReadTxn" || n == "WriteTxn" || n == "WriteTxnRestore") && len(core.CallArgs(ci.Common())) <= 1 {
				if core.AccessOf(ci.Common().Value).LastField() == "db" || (len(ci.Common().Args) > 0 && core.AccessOf(ci.Common().Args[0]).LastField() == "db") {
					res = true
				}
			}
			if g := ci.Common().StaticCallee(); g != nil && strings.HasSuffix(core.FuncPkgPath(g), "/"+statePkg) && opensTxn(p, g, onStack) {
				res = true
			}
		}
	}
	if len(onStack) == 1 {
		p.MemoSet(key, res)
	}
	return res
}

// C02.8
func checkSnapshotReadsOwnTxn(c *Ctx) {
	p, r := c.P, c.R
	n := 0
	for _, f := range p.SrcFuncs(statePkg) {
		if f.Parent() != nil || f.Signature.Recv() == nil {
			continue
		}
		if nt := core.NamedOf(f.Signature.Recv().Type()); nt == nil || nt.Obj().Name() != "Snapshot" {
			continue
		}
		if f.Name() == "Close" {
			continue
		}
		n++
		name := core.FuncName(f)
		bad := ""
		for _, b := range f.Blocks {
			for _, in := range b.Instrs {
				if op := core.AsMemdbOp(in); op != nil {
					if op.IsRead() && core.AccessOf(op.Recv).LastField() != "tx" {
						bad = "a table is read through a transaction other than the snapshot's own at " + p.Pos(in.Pos())
					}
					continue
				}
				ci, ok := in.(ssa.CallInstruction)
				if !ok {
					continue
				}
				g := ci.Common().StaticCallee()
				if g == nil || !strings.HasSuffix(core.FuncPkgPath(g), "/"+statePkg) {
					continue
				}
				if opensTxn(p, g, map[*ssa.Function]bool{}) {
					bad = "calls " + core.FuncName(g) + ", which opens a new transaction on the live database, at " + p.Pos(in.Pos())
				}
			}
		}
		if bad != "" {
			r.Violate("C02.8", name, p.FuncPos(f), bad+": that part of the snapshot stream is read when Persist runs, not at the cut the snapshot was taken at, so it can be newer than the index records and the other tables — the restored state is one no server ever had, and replaying the log tail gives different results")
		} else {
			r.Hold("C02.8", name, p.FuncPos(f), "reads only through the snapshot's transaction")
		}
	}
	r.Floor("C02.8", 25)
	// the persisters (package fsm) read through the Snapshot only: no method of the live *state.Store
	if persistCE := p.Func(fsmPkg, "persistCE"); persistCE != nil {
		nP := 0
		for f := range reachableStatic(p, []*ssa.Function{persistCE}, fsmPkg) {
			nP++
			bad := ""
			for _, b := range f.Blocks {
				for _, in := range b.Instrs {
					ci, ok := in.(ssa.CallInstruction)
					if !ok {
						continue
					}
					g := ci.Common().StaticCallee()
					if g == nil || g.Signature.Recv() == nil {
						continue
					}
					if nt := core.NamedOf(g.Signature.Recv().Type()); nt != nil && nt.Obj().Name() == "Store" && strings.HasSuffix(core.FuncPkgPath(g), "/"+statePkg) {
						bad = core.FuncName(g) + " at " + p.Pos(in.Pos())
					}
				}
			}
			if bad != "" {
				r.Violate("C02.8", core.FuncName(f)+"/live-store", p.FuncPos(f), "a persister calls "+bad+" on the live state store instead of the point-in-time snapshot: that part of the stream is not from the cut")
			}
		}
		if nP < 20 {
			r.MissingInstance("C02.8", "<persisters>", fmt.Sprintf("only %d persister functions found", nP))
		} else {
			r.Hold("C02.8", "fsm/persisters", p.FuncPos(persistCE), fmt.Sprintf("%d persister functions: none calls a method of the live store", nP))
		}
	}
}
