package rules

import (
	"encoding/json"
	"fmt"
	"go/token"
	"go/types"
	"os"
	"path/filepath"
	"sort"
	"strings"

	"golang.org/x/tools/go/ssa"

	"verifcheck/internal/core"
)

func init() {
	register(&Rule{ID: "C09", Patterns: []string{"./agent/structs/aclfilter", "./agent/consul"}, Run: runC09})
}

const aclfilterPkg = "agent/structs/aclfilter"

// filterCaseTypes: the types of the type switch in (*Filter).Filter.
func filterCaseTypes(p *core.Program) (map[string]types.Type, *ssa.Function) {
	f := p.Func(aclfilterPkg, "(*Filter).Filter")
	out := map[string]types.Type{}
	if f == nil {
		return out, nil
	}
	for _, b := range f.Blocks {
		for _, in := range b.Instrs {
			if ta, ok := in.(*ssa.TypeAssert); ok && ta.CommaOk {
				out[core.ShortType(ta.AssertedType)] = ta.AssertedType
			}
		}
	}
	return out, f
}

// authorizer questions asked (transitively inside package aclfilter) by f.
func questionsOf(p *core.Program, f *ssa.Function, seen map[*ssa.Function]bool, out map[string]bool) {
	if f == nil || f.Blocks == nil || seen[f] {
		return
	}
	seen[f] = true
	for _, b := range f.Blocks {
		for _, in := range b.Instrs {
			ci, ok := in.(ssa.CallInstruction)
			if !ok {
				continue
			}
			cm := ci.Common()
			if cm.IsInvoke() {
				if strings.HasSuffix(core.ShortType(cm.Value.Type()), "acl.Authorizer") {
					out[cm.Method.Name()] = true
				}
				continue
			}
			g := cm.StaticCallee()
			if g == nil {
				continue
			}
			pk := core.FuncPkgPath(g)
			if strings.HasSuffix(pk, "/"+aclfilterPkg) {
				// only helpers (allow*), not sibling filters of other element types
				if strings.HasPrefix(g.Name(), "allow") {
					questionsOf(p, g, seen, out)
				}
			}
			// CanRead / CanWrite style checks on the element
			if n := g.Name(); n == "CanRead" || n == "CanWrite" {
				out[n] = true
			}
		}
	}
	for _, a := range f.AnonFuncs {
		questionsOf(p, a, seen, out)
	}
}

func runC09(c *Ctx) {
	p, r := c.P, c.R
	defer checkPeerSourceNotAuthorizedLocally(c)
	r.Clauses = []string{
		"C09.8 the authorizer is asked about an intention's SOURCE name only for local sources (below SourcePeer == \"\"): the name of a service in a peer cluster says nothing about the like-named local service the token may read",
		"C09.1 every value handed to the ACL filter has a case in the filter's type switch (the default case panics)",
		"C09.2 every RPC method whose reply is a filterable type calls the filter on its reply (directly, in its blocking-query closure, or in the helper it forwards the reply to), or is one of the listed up-front-authorised/forwarding methods",
		"C09.3 every per-type filter asks, for the element type it filters, the authorizer questions frozen in rules/c09_filter_questions.json, on a name field of the element (not a container key), and siblings filtering the same element type agree",
		"C09.4 in-place removal is index-safe (splice followed by an index decrement), sets the removed flag, and the ResultsFilteredByACLs flag is never overwritten inside a loop or by a later assignment",
		"C09.4.copy a filter applied to a local copy of a slice stores the filtered copy back into the reply",
		"C09.7 the filter never assigns a field of an object of a stored-row type that came in with the reply (redaction works on a copy and swaps the pointer): replies carry pointers to the rows held by the state store",
		"C09.5 an identity obtained from a token is checked for expiry before policies, roles or an authorizer are derived from it; the server-local lookup returns a token only when it is not expired",
		"C09.6 query metadata masks the filtered flag for anonymous callers",
	}
	r.NotDecided = []string{"that filtering never drops an element the token may read, for nested structures beyond the per-element predicate", "token cache TTL interplay"}

	cases, filterFn := filterCaseTypes(p)
	if filterFn == nil || len(cases) == 0 {
		r.Unresolve("C09.1", "aclfilter.(*Filter).Filter", "type switch not found")
		return
	}
	r.Analysed["filter_case_types"] = len(cases)
	if len(cases) < 35 {
		r.MissingInstance("C09.1", "<case-types>", fmt.Sprintf("the filter type switch has %d cases, expected at least 35", len(cases)))
	}

	// ---- C09.1 call sites
	isFilterCall := func(ci ssa.CallInstruction) (subj ssa.Value, ok bool) {
		cm := ci.Common()
		g := cm.StaticCallee()
		if g == nil {
			return nil, false
		}
		switch {
		case g == filterFn:
			return cm.Args[1], true
		case core.FuncPkgPath(g) == core.ConsulModulePrefix+"/agent/consul" && (g.Name() == "filterACL" || g.Name() == "filterACLWithAuthorizer"):
			return cm.Args[len(cm.Args)-1], true
		}
		return nil, false
	}
	perKey := map[string]int{}
	for _, rel := range []string{"agent/consul", aclfilterPkg} {
		for _, f := range p.SrcFuncs(rel) {
			for _, b := range f.Blocks {
				for _, in := range b.Instrs {
					ci, ok := in.(ssa.CallInstruction)
					if !ok {
						continue
					}
					subj, ok := isFilterCall(ci)
					if !ok {
						continue
					}
					v := subj
					if mi, ok := v.(*ssa.MakeInterface); ok {
						v = mi.X
					} else {
						// forwarded `any` parameter (filterACL → Filter): judged at the outer call site
						continue
					}
					ts := core.ShortType(v.Type())
					base := core.FuncName(f) + "/" + ts
					perKey[base]++
					construct := base
					if perKey[base] > 1 {
						construct = fmt.Sprintf("%s#%d", base, perKey[base])
					}
					if _, ok := cases[ts]; ok {
						r.Hold("C09.1", construct, p.Pos(in.Pos()), "subject type has a case")
					} else {
						r.Violate("C09.1", construct, p.Pos(in.Pos()), "a value of type "+ts+" is handed to the ACL filter, whose type switch has no case for it: the request panics at run time (or, before that, nothing is filtered)")
					}
				}
			}
		}
	}
	r.Floor("C09.1", 40)

	checkEndpointsFilter(c, cases, isFilterCall)
	checkFilterQuestions(c)
	checkSplices(c)
	checkFlagStores(c, filterFn)
	checkExpiry(c)
	checkAnonymousMask(c)
}

// C09.2
func checkEndpointsFilter(c *Ctx, cases map[string]types.Type, isFilterCall func(ssa.CallInstruction) (ssa.Value, bool)) {
	p, r := c.P, c.R
	upFront := map[string]string{
		"(*consul.Coordinate).Node":                   "authorises the single addressed node up front (NodeRead on the request's node)",
		"(*consul.Session).Renew":                     "authorises the single addressed session up front (SessionWrite on its node)",
		"(*consul.queryServerWrapper).ExecuteRemote": "only forwards to the remote PreparedQuery.ExecuteRemote RPC, which filters",
	}
	var containsFilter func(f *ssa.Function, reply ssa.Value, depth int) bool
	containsFilter = func(f *ssa.Function, reply ssa.Value, depth int) bool {
		if f == nil || f.Blocks == nil || depth > 3 {
			return false
		}
		found := false
		var scan func(g *ssa.Function)
		scan = func(g *ssa.Function) {
			for _, b := range g.Blocks {
				for _, in := range b.Instrs {
					ci, ok := in.(ssa.CallInstruction)
					if !ok {
						continue
					}
					if _, ok := isFilterCall(ci); ok {
						found = true
						continue
					}
					// helper the reply is forwarded to
					h := ci.Common().StaticCallee()
					if h == nil || core.FuncPkgPath(h) != core.ConsulModulePrefix+"/agent/consul" {
						continue
					}
					for ai, a := range ci.Common().Args {
						root := core.AccessOf(a).Root
						if root == reply || isReplyFree(a, reply) {
							if ai < len(h.Params) && containsFilter(h, h.Params[ai], depth+1) {
								found = true
							}
						}
					}
				}
			}
			for _, a := range g.AnonFuncs {
				scan(a)
			}
		}
		scan(f)
		return found
	}
	n := 0
	for _, f := range p.SrcFuncs("agent/consul") {
		if f.Parent() != nil || f.Signature.Recv() == nil || f.Object() == nil || !f.Object().Exported() {
			continue
		}
		sig := f.Signature
		if sig.Params().Len() != 2 || sig.Results().Len() != 1 || !core.IsErrorType(sig.Results().At(0).Type()) {
			continue
		}
		replyT := sig.Params().At(1).Type()
		if _, isPtr := replyT.Underlying().(*types.Pointer); !isPtr {
			continue
		}
		ts := core.ShortType(replyT)
		if _, ok := cases[ts]; !ok {
			continue
		}
		n++
		name := core.FuncName(f)
		reply := f.Params[2]
		if containsFilter(f, reply, 0) {
			r.Hold("C09.2", name, p.FuncPos(f), "reply of type "+ts+" is filtered")
		} else if why, ok := upFront[name]; ok {
			r.Add(core.Obligation{Rule: "C09.2", Construct: name, Pos: p.FuncPos(f), Decision: core.Holds, Reason: why, Exception: "up-front"})
		} else {
			r.Violate("C09.2", name, p.FuncPos(f), "the RPC returns a "+ts+" without ever passing it through the ACL filter: objects the token may not read are returned")
		}
	}
	r.Floor("C09.2", 34)
	_ = n
}

func isReplyFree(a ssa.Value, reply ssa.Value) bool {
	// inside closures the reply is a free variable with the same name
	root := core.AccessOf(a).Root
	if fv, ok := root.(*ssa.FreeVar); ok {
		if prm, ok := reply.(*ssa.Parameter); ok && fv.Name() == prm.Name() {
			return true
		}
	}
	return false
}

// C09.3
func checkFilterQuestions(c *Ctx) {
	p, r := c.P, c.R
	table := map[string][]string{}
	raw, err := os.ReadFile(filepath.Join(c.VerifDir, "rules", "c09_filter_questions.json"))
	if err == nil {
		if err := json.Unmarshal(raw, &table); err != nil {
			r.Unresolve("C09.3", "rules/c09_filter_questions.json", err.Error())
			return
		}
	}
	survey := map[string][]string{}
	byElem := map[string][]string{}
	for _, f := range p.SrcFuncs(aclfilterPkg) {
		if f.Parent() != nil || f.Signature.Recv() == nil {
			continue
		}
		if !(strings.HasPrefix(f.Name(), "filter") || strings.HasPrefix(f.Name(), "redact")) {
			continue
		}
		if f.Signature.Params().Len() == 0 {
			continue
		}
		elem := core.ShortType(f.Signature.Params().At(0).Type())
		qs := map[string]bool{}
		questionsOf(p, f, map[*ssa.Function]bool{}, qs)
		// questions asked by sibling filters this one delegates to (filterX calling filterY on a sub-collection) are theirs
		got := sortedKeys(qs)
		survey[elem+" ("+f.Name()+")"] = got
		byElem[elem] = append(byElem[elem], f.Name())
		construct := f.Name() + "(" + elem + ")"
		want, ok := table[elem]
		if !ok {
			if len(got) == 0 {
				continue // pure delegator to sibling filters
			}
			r.Undecide("C09.3", construct, p.FuncPos(f), fmt.Sprintf("no frozen expectation for element type %s (asks %v): add it to rules/c09_filter_questions.json after review", elem, got))
			continue
		}
		missing := []string{}
		for _, q := range want {
			if !qs[q] {
				missing = append(missing, q)
			}
		}
		if len(missing) > 0 {
			r.Violate("C09.3", construct, p.FuncPos(f), fmt.Sprintf("the filter for %s no longer asks %v (asks %v): elements the token may not read pass the filter", elem, missing, got))
		} else {
			r.Hold("C09.3", construct, p.FuncPos(f), fmt.Sprintf("asks %v", want))
		}
	}
	r.Analysed["filter_questions_survey"] = survey
	r.Floor("C09.3", 22)

	// the argument of a name-based question is a name field of the element
	nameFields := map[string]map[string]bool{
		"allowService": {"ServiceName": true, "Service": true, "Name": true},
		"allowNode":    {"Node": true},
		"allowSession": {"Node": true},
	}
	n := 0
	perKey := map[string]int{}
	for _, f := range p.SrcFuncs(aclfilterPkg) {
		for _, b := range f.Blocks {
			for _, in := range b.Instrs {
				ci, ok := in.(ssa.CallInstruction)
				if !ok {
					continue
				}
				g := ci.Common().StaticCallee()
				if g == nil || nameFields[g.Name()] == nil || len(ci.Common().Args) < 2 {
					continue
				}
				arg := ci.Common().Args[1]
				a := core.AccessOf(arg)
				n++
				base := core.FuncName(f) + "/" + g.Name()
				perKey[base]++
				construct := base
				if perKey[base] > 1 {
					construct = fmt.Sprintf("%s#%d", base, perKey[base])
				}
				lf := a.LastField()
				switch {
				case lf == "":
					what := "a value that is not a field of the element"
					if ex, ok := a.Root.(*ssa.Extract); ok {
						if nx, isNext := ex.Tuple.(*ssa.Next); isNext && ex.Index == 1 {
							what = "the key of the map being ranged over"
							// a map from name to something that is not a named element (e.g. Services: name → tags): the key is the name
							if rg, ok := nx.Iter.(*ssa.Range); ok {
								if mt, ok := rg.X.Type().Underlying().(*types.Map); ok {
									el := mt.Elem()
									if pt, ok := el.Underlying().(*types.Pointer); ok {
										el = pt.Elem()
									}
									if _, isStruct := el.Underlying().(*types.Struct); !isStruct {
										r.Hold("C09.3.arg", construct, p.Pos(in.Pos()), "the ranged map is keyed by the name itself (its values are not elements with a name field)")
										continue
									}
								}
							}
						}
					}
					if _, isParam := a.Root.(*ssa.Parameter); isParam {
						r.Hold("C09.3.arg", construct, p.Pos(in.Pos()), "forwards its own name parameter")
						continue
					}
					r.Violate("C09.3.arg", construct, p.Pos(in.Pos()), g.Name()+" is asked about "+what+", not about the element's name field: the decision is taken on the wrong name (for NodeServices: the service ID instead of the service name)")
				case !nameFields[g.Name()][lf]:
					r.Violate("C09.3.arg", construct, p.Pos(in.Pos()), fmt.Sprintf("%s is asked about field %s, which is not a name field for that question", g.Name(), lf))
				default:
					r.Hold("C09.3.arg", construct, p.Pos(in.Pos()), "asked about field "+lf)
				}
			}
		}
	}
	r.Floor("C09.3.arg", 20)
}

// C09.4 splices
func checkSplices(c *Ctx) {
	p, r := c.P, c.R
	n := 0
	perKey := map[string]int{}
	for _, rel := range []string{aclfilterPkg, "agent/consul"} {
		for _, f := range p.SrcFuncs(rel) {
			if rel == "agent/consul" && !strings.Contains(strings.ToLower(f.Name()), "filter") {
				continue
			}
			for _, b := range f.Blocks {
				for _, in := range b.Instrs {
					call, ok := in.(*ssa.Call)
					if !ok {
						continue
					}
					bi, ok := call.Call.Value.(*ssa.Builtin)
					if !ok || bi.Name() != "append" || len(call.Call.Args) != 2 {
						continue
					}
					unwrap := func(v ssa.Value) ssa.Value {
						for {
							switch x := v.(type) {
							case *ssa.ChangeType:
								v = x.X
								continue
							case *ssa.Convert:
								v = x.X
								continue
							}
							return v
						}
					}
					s0, ok0 := unwrap(call.Call.Args[0]).(*ssa.Slice)
					s1, ok1 := unwrap(call.Call.Args[1]).(*ssa.Slice)
					if !ok0 || !ok1 || s0.High == nil || s1.Low == nil {
						continue
					}
					// s[:i] and s[i+1:]
					plus, ok := s1.Low.(*ssa.BinOp)
					if !ok || plus.Op != token.ADD || plus.X != s0.High {
						continue
					}
					idx := s0.High
					n++
					base := core.FuncName(f) + "/splice"
					perKey[base]++
					construct := base
					if perKey[base] > 1 {
						construct = fmt.Sprintf("%s#%d", base, perKey[base])
					}
					// an `i - 1` on the same index must be reachable from the splice before the loop header
					dec := false
					flag := false
					w := &core.Walk{
						Stop: func(x ssa.Instruction) bool { return x.Block() == idxBlock(idx) && x != in },
						Visit: func(x ssa.Instruction) {
							if bo, ok := x.(*ssa.BinOp); ok && bo.Op == token.SUB && bo.X == idx {
								if k, ok := core.ConstInt(bo.Y); ok && k == 1 {
									dec = true
								}
							}
						},
					}
					w.FromInstr(in)
					// the removed flag: some bool phi takes constant true from a block reachable from the splice, or the function returns true
					for _, bb := range f.Blocks {
						for _, x := range bb.Instrs {
							phi, ok := x.(*ssa.Phi)
							if !ok {
								continue
							}
							if bt, ok := phi.Type().Underlying().(*types.Basic); !ok || bt.Kind() != types.Bool {
								continue
							}
							for i, e := range phi.Edges {
								if v, ok := core.ConstBool(e); ok && v && (w.Reached(bb.Preds[i]) || bb.Preds[i] == in.Block()) {
									flag = true
								}
							}
						}
					}
					if f.Signature.Results().Len() == 0 {
						flag = true // filters without a removed result
					}
					switch {
					case !dec:
						r.Violate("C09.4.splice", construct, p.Pos(in.Pos()), "an element is removed in place without stepping the index back: the element that slides into its position is skipped and never checked")
					case !flag:
						r.Violate("C09.4.splice", construct, p.Pos(in.Pos()), "an element is removed without setting the function's removed flag: ResultsFilteredByACLs stays false although something was filtered")
					default:
						r.Hold("C09.4.splice", construct, p.Pos(in.Pos()), "splice; index decremented; removed flag set")
					}
				}
			}
		}
	}
	r.Floor("C09.4.splice", 10)
	_ = n
	checkFilteredCopyWrittenBack(c)
	checkFilterDoesNotWriteRows(c)
}

// C09.4.copy: a filter applied to the address of a local copy (nodes :=
// m[k]; f.filterX(&nodes)) only changes the copy. The filtered value must be
// stored back into the reply (map update, store through a pointer, return).
func checkFilteredCopyWrittenBack(c *Ctx) {
	p, r := c.P, c.R
	n := 0
	for _, f := range p.SrcFuncs(aclfilterPkg) {
		for _, b := range f.Blocks {
			for _, in := range b.Instrs {
				ci, ok := in.(ssa.CallInstruction)
				if !ok {
					continue
				}
				g := ci.Common().StaticCallee()
				if g == nil || g.Signature.Recv() == nil || !strings.HasSuffix(core.FuncPkgPath(g), "/"+aclfilterPkg) {
					continue
				}
				for ai, a := range ci.Common().Args {
					if ai == 0 {
						continue // receiver
					}
					al, ok := a.(*ssa.Alloc)
					if !ok {
						continue
					}
					// a local holding a slice or map value (not a freshly built reply object)
					pt, _ := al.Type().Underlying().(*types.Pointer)
					if pt == nil {
						continue
					}
					switch pt.Elem().Underlying().(type) {
					case *types.Slice:
					default:
						continue
					}
					n++
					construct := core.FuncName(f) + "→" + g.Name() + "/" + al.Comment
					// loads of the local after the call that reach a store outside the local, a map update or a return
					written := false
					if al.Referrers() != nil {
						for _, rr := range *al.Referrers() {
							ld, ok := rr.(*ssa.UnOp)
							if !ok || ld.Op != token.MUL {
								continue
							}
							// only loads the call can reach
							reach := false
							w := &core.Walk{Visit: func(x ssa.Instruction) { reach = reach || x == ssa.Instruction(ld) }}
							w.FromInstr(in)
							if !reach {
								continue
							}
							core.ForwardUses(ld, func(u ssa.Instruction, via ssa.Value) {
								switch x := u.(type) {
								case *ssa.MapUpdate:
									if x.Value == via {
										written = true
									}
								case *ssa.Store:
									if x.Val == via && x.Addr != ssa.Value(al) {
										written = true
									}
								case *ssa.Return:
									written = true
								}
							})
						}
					}
					if written {
						r.Hold("C09.4.copy", construct, p.Pos(in.Pos()), "the filtered copy is stored back into the reply")
					} else {
						r.Violate("C09.4.copy", construct, p.Pos(in.Pos()), "the filter runs on a local copy of the slice ("+al.Comment+") and the filtered copy is never stored back: the reply keeps its original length over the compacted array, so an element the token may not read is returned")
					}
				}
			}
		}
	}
	r.Floor("C09.4.copy", 2)
}

func idxBlock(v ssa.Value) *ssa.BasicBlock {
	if in, ok := v.(ssa.Instruction); ok {
		return in.Block()
	}
	return nil
}

// C09.4 flag stores
func checkFlagStores(c *Ctx, filterFn *ssa.Function) {
	p, r := c.P, c.R
	type fs struct {
		st    *ssa.Store
		base  ssa.Value
		field string
	}
	var stores []fs
	for _, b := range filterFn.Blocks {
		for _, in := range b.Instrs {
			st, ok := in.(*ssa.Store)
			if !ok {
				continue
			}
			fa, ok := st.Addr.(*ssa.FieldAddr)
			if !ok {
				continue
			}
			fn := core.FieldObj(fa).Name()
			if fn != "ResultsFilteredByACLs" && fn != "FilteredByACLs" {
				continue
			}
			base := fa.X
			for {
				if inner, ok := base.(*ssa.FieldAddr); ok {
					base = inner.X
					continue
				}
				break
			}
			stores = append(stores, fs{st, base, fn})
		}
	}
	n := 0
	perKey := map[string]int{}
	for _, s := range stores {
		n++
		base := core.ShortType(s.base.Type()) + "." + s.field
		perKey[base]++
		construct := base
		if perKey[base] > 1 {
			construct = fmt.Sprintf("%s#%d", base, perKey[base])
		}
		pos := p.Pos(s.st.Pos())
		if v, ok := core.ConstBool(s.st.Val); ok && v {
			r.Hold("C09.4.flag", construct, pos, "only ever set to true (or-accumulated)")
			continue
		}
		// a computed assignment: not in a loop, and no other store to the same flag of the same object on its paths
		inLoop := false
		w := &core.Walk{Visit: func(in ssa.Instruction) { inLoop = inLoop || in == ssa.Instruction(s.st) }}
		w.FromInstr(s.st)
		overwritten := false
		for _, o := range stores {
			if o.st == s.st || o.base != s.base || o.field != s.field {
				continue
			}
			hit := false
			w2 := &core.Walk{Visit: func(in ssa.Instruction) { hit = hit || in == ssa.Instruction(s.st) }}
			w2.FromInstr(o.st)
			if hit {
				overwritten = true
			}
		}
		switch {
		case inLoop:
			r.Violate("C09.4.flag", construct, pos, "the filtered-by-ACLs flag is assigned (not or-accumulated) inside a loop: the value of the last iteration wins, so with several groups the flag depends on iteration order")
		case overwritten:
			r.Violate("C09.4.flag", construct, pos, "the filtered-by-ACLs flag is assigned after an earlier assignment on the same path: the earlier result is lost")
		default:
			r.Hold("C09.4.flag", construct, pos, "single assignment from the filter's removed result")
		}
	}
	r.Floor("C09.4.flag", 20)
	_ = n
}

// C09.5
func checkExpiry(c *Ctx) {
	p, r := c.P, c.R
	n := 0
	for _, f := range p.SrcFuncs("agent/consul") {
		for _, b := range f.Blocks {
			for _, in := range b.Instrs {
				call, ok := in.(*ssa.Call)
				if !ok || core.MethodNameOf(&call.Call) != "resolveIdentityFromToken" {
					continue
				}
				if f.Name() == "resolveIdentityFromToken" {
					continue
				}
				// identity = Extract #0
				var ident ssa.Value
				if call.Referrers() != nil {
					for _, rr := range *call.Referrers() {
						if ex, ok := rr.(*ssa.Extract); ok && ex.Index == 0 {
							ident = ex
						}
					}
				}
				n++
				construct := core.FuncName(f) + "/identity"
				pos := p.Pos(call.Pos())
				if ident == nil {
					r.Hold("C09.5", construct, pos, "identity not used")
					continue
				}
				// not-expired edges: false edges of ident.IsExpired(...)
				var okEdges []core.Edge
				var uses []ssa.Instruction
				core.ForwardUses(ident, func(u ssa.Instruction, via ssa.Value) {
					ci, ok := u.(ssa.CallInstruction)
					if !ok {
						return
					}
					cm := ci.Common()
					if cm.IsInvoke() && cm.Value == via && cm.Method.Name() == "IsExpired" {
						if v, ok := u.(ssa.Value); ok {
							_, fe := core.CondEdges(v)
							okEdges = append(okEdges, fe...)
						}
						return
					}
					// uses that derive authority from the identity: passing it on to resolver helpers, or returning it
					for _, a := range cm.Args {
						if a == via {
							if g := cm.StaticCallee(); g != nil && core.FuncPkgPath(g) == core.ConsulModulePrefix+"/agent/consul" {
								uses = append(uses, u)
							}
						}
					}
				})
				bad := ""
				if len(uses) == 0 && len(okEdges) == 0 {
					r.Hold("C09.5", construct, pos, "the identity is only inspected (ID/secret comparison), no authority is derived from it here")
					continue
				}
				if len(okEdges) == 0 {
					bad = "the identity resolved from the token is never checked for expiry here: a token past its expiration time keeps authorizing while it is cached"
				}
				for _, u := range uses {
					if len(okEdges) > 0 && !core.CutMakesUnreachable(f, call, okEdges, u) {
						bad = "the identity is used at " + p.Pos(u.Pos()) + " on a path that does not pass the not-expired edge of IsExpired"
					}
				}
				if bad != "" {
					r.Violate("C09.5", construct, pos, bad)
				} else {
					r.Hold("C09.5", construct, pos, fmt.Sprintf("IsExpired checked; %d authority-deriving uses lie below its false edge", len(uses)))
				}
			}
		}
	}
	r.Floor("C09.5", 2)
	// server-local backend: ResolveIdentityFromToken returns a token only on !IsExpired
	for _, f := range p.SrcFuncs("agent/consul") {
		if f.Name() != "ResolveIdentityFromToken" || f.Parent() != nil {
			continue
		}
		hasCheck := false
		for _, b := range f.Blocks {
			for _, in := range b.Instrs {
				if ci, ok := in.(ssa.CallInstruction); ok && core.MethodNameOf(ci.Common()) == "IsExpired" {
					hasCheck = true
				}
			}
		}
		construct := core.FuncName(f)
		returnsToken := false
		for _, rt := range core.Returns(f) {
			if len(rt.Results) == 3 && !core.IsNilConst(core.ResolveResult(rt, 1)) {
				returnsToken = true
			}
		}
		if !returnsToken {
			r.Hold("C09.5.local", construct, p.FuncPos(f), "never returns an identity (no local resolution)")
			continue
		}
		if hasCheck {
			r.Hold("C09.5.local", construct, p.FuncPos(f), "local token lookup checks expiry")
		} else {
			r.Violate("C09.5.local", construct, p.FuncPos(f), "the server-local token lookup returns tokens without checking expiry: an expired, not yet reaped token authorizes")
		}
	}
	r.Floor("C09.5.local", 1)
	_ = n
}

// C09.6
func checkAnonymousMask(c *Ctx) {
	p, r := c.P, c.R
	for _, f := range p.SrcFuncs("agent/consul") {
		if f.Name() != "SetQueryMeta" || f.Signature.Recv() == nil {
			continue
		}
		found := false
		for _, b := range f.Blocks {
			for _, in := range b.Instrs {
				if ci, ok := in.(ssa.CallInstruction); ok {
					if g := ci.Common().StaticCallee(); g != nil && g.Name() == "maskResultsFilteredByACLs" {
						found = true
					}
				}
			}
		}
		if found {
			r.Hold("C09.6", core.FuncName(f), p.FuncPos(f), "query meta masks the filtered flag for anonymous callers")
		} else {
			r.Violate("C09.6", core.FuncName(f), p.FuncPos(f), "SetQueryMeta no longer masks ResultsFilteredByACLs for anonymous callers: unauthenticated callers can learn that hidden objects exist")
		}
	}
	r.Floor("C09.6", 1)
	_ = sort.Strings
}

// rowTypeNames: named struct types of the objects inserted into memdb by package state.
func rowTypeNames(p *core.Program) map[string]bool {
	return p.Memo("rowTypeNames", func() any {
		out := map[string]bool{}
		sites, _ := stateWriteSites(p)
		for _, s := range sites {
			if s.op.Op != "Insert" || s.op.Obj == nil {
				continue
			}
			v := s.op.Obj
			if mi, ok := v.(*ssa.MakeInterface); ok {
				v = mi.X
			}
			if nt := core.NamedOf(v.Type()); nt != nil {
				if _, isStruct := nt.Underlying().(*types.Struct); isStruct {
					out[nt.Obj().Name()] = true
				}
			}
		}
		return out
	}).(map[string]bool)
}

// C09.7
func checkFilterDoesNotWriteRows(c *Ctx) {
	p, r := c.P, c.R
	rows := rowTypeNames(p)
	r.Analysed["row_types"] = len(rows)
	n, nFns := 0, 0
	for _, f := range p.SrcFuncs(aclfilterPkg) {
		nFns++
		for _, b := range f.Blocks {
			for _, in := range b.Instrs {
				st, ok := in.(*ssa.Store)
				if !ok {
					continue
				}
				fa, ok := st.Addr.(*ssa.FieldAddr)
				if !ok {
					continue
				}
				if _, isAlloc := fa.X.(*ssa.Alloc); isAlloc {
					continue // a local copy
				}
				nt := core.NamedOf(fa.X.Type())
				if nt == nil || !rows[nt.Obj().Name()] {
					continue
				}
				// fresh copies: the base is the result of a Clone/copy call
				fresh := true
				for _, leaf := range core.Leaves(fa.X, core.SliceOpts{StopAt: func(v ssa.Value) bool {
					call, ok := v.(*ssa.Call)
					return ok && (strings.Contains(core.MethodNameOf(&call.Call), "Clone") || strings.Contains(core.MethodNameOf(&call.Call), "Copy"))
				}}) {
					switch x := leaf.(type) {
					case *ssa.Call:
						if !(strings.Contains(core.MethodNameOf(&x.Call), "Clone") || strings.Contains(core.MethodNameOf(&x.Call), "Copy")) {
							fresh = false
						}
					case *ssa.Alloc:
					case *ssa.Const:
					default:
						fresh = false
					}
				}
				if fresh {
					continue
				}
				n++
				r.Violate("C09.7", core.FuncName(f)+"/"+nt.Obj().Name()+"."+core.FieldObj(fa).Name(), p.Pos(st.Pos()), fmt.Sprintf("the filter assigns field %s of a %s that came in with the reply: replies hold pointers to the rows of the state store, so this redaction (or edit) changes the stored object for every later reader, including callers with full permissions", core.FieldObj(fa).Name(), nt.Obj().Name()))
			}
		}
	}
	if n == 0 {
		r.Hold("C09.7", "aclfilter", "", fmt.Sprintf("%d functions, %d stored-row types: no field of an incoming row object is assigned", nFns, len(rows)))
	}
	if len(rows) < 30 {
		r.MissingInstance("C09.7", "<row-types>", fmt.Sprintf("only %d row types found", len(rows)))
	}
}


// C09.8: an authorizer question whose subject is the SourceName of an intention lies below the
// SourcePeer == "" edge, in every function of agent/structs and the ACL filter.
func checkPeerSourceNotAuthorizedLocally(c *Ctx) {
	p, r := c.P, c.R
	n := 0
	for _, rel := range []string{"agent/structs", aclfilterPkg} {
		for _, f := range p.SrcFuncs(rel) {
			for _, in := range callsTo(f, func(cm *ssa.CallCommon) bool {
				if !cm.IsInvoke() {
					return false
				}
				nt := core.NamedOf(cm.Value.Type())
				return nt != nil && nt.Obj().Name() == "Authorizer"
			}) {
				args := in.(ssa.CallInstruction).Common().Args
				subjectIsSource := false
				for _, a := range args {
					if bt, ok := a.Type().Underlying().(*types.Basic); !ok || bt.Kind() != types.String {
						continue
					}
					if core.AccessOf(a).LastField() == "SourceName" {
						subjectIsSource = true
					}
				}
				if !subjectIsSource {
					continue
				}
				n++
				construct := core.FuncName(f) + "/" + core.MethodNameOf(in.(ssa.CallInstruction).Common()) + "(SourceName)"
				local := core.GuardEdges(f, 2, func(cv core.CmpView) (bool, bool) {
					if cv.Op != token.EQL && cv.Op != token.NEQ {
						return false, false
					}
					for _, pair := range [][2]ssa.Value{{cv.X, cv.Y}, {cv.Y, cv.X}} {
						if k, ok := core.ConstString(pair[0]); ok && k == "" && core.AccessOf(pair[1]).LastField() == "SourcePeer" {
							return cv.Op == token.EQL, cv.Op == token.NEQ
						}
					}
					return false, false
				})
				if len(local) > 0 && core.CutMakesUnreachable(f, nil, local, in) {
					r.Hold("C09.8", construct, p.Pos(in.Pos()), "asked only below SourcePeer == \"\"")
				} else {
					r.Violate("C09.8", construct, p.Pos(in.Pos()), "the authorizer is asked about the source name of an intention whose source may live in a peer cluster: a token that can read the like-named LOCAL service is shown an intention it has no right to see (and ResultsFilteredByACLs stays unset)")
				}
			}
		}
	}
	if n == 0 {
		r.MissingInstance("C09.8", "<source-name questions>", "no authorizer question about an intention's SourceName found in agent/structs")
	}
}
