package rules

import (
	"fmt"
	"go/token"
	"go/types"
	"sort"
	"strings"

	"golang.org/x/tools/go/ssa"

	"verifcheck/internal/core"
)

func init() {
	register(&Rule{ID: "C18", Patterns: []string{"./internal/storage/inmem", "./internal/storage"}, Run: runC18})
}

const inmemPkg = "internal/storage/inmem"
const tblResources = "resources"

func runC18(c *Ctx) {
	p, r := c.P, c.R
	r.Clauses = []string{
		"C18.1 every online writer of the resources table holds eventLock from before the read until after the event is published, publishes only after Commit, and writes only below the version-equal and UID-equal edges (creation only with an empty version)",
		"C18.2 the resources table is written only by those CAS writers and by the restoration handle",
		"C18.3 a failing internal step is never reported as success (no nil error returned on an err != nil edge)",
		"C18.5 the snapshot handler reads only those fields of a subscription subject that the subject's String() — the key under which the publisher caches and shares snapshots — also reads",
		"C18.6 the watch drops events whose index is not larger than the last one it took from the subscription, and keeps that threshold in the Watch (not in a per-call local): writes committed but not yet dispatched when the watch was created are in the listing and arrive again afterwards",
		"C18.4 a watch is a subscription to the topic whose registered snapshot handler lists the current resources under a read transaction of the same store; a restore refreshes that topic",
	}
	r.NotDecided = []string{"linearizability under real schedules", "raft backend forwarding", "duplicate suppression across Watch.Next calls (observation O9)"}

	tableConst := tblResources
	if cv, ok := constOf(p, inmemPkg, "tableNameResources"); ok {
		tableConst = strings.Trim(cv.ExactString(), "\"")
	}
	var writers []*ssa.Function
	for _, f := range p.SrcFuncs(inmemPkg) {
		if f.Parent() != nil {
			continue
		}
		for _, b := range f.Blocks {
			for _, in := range b.Instrs {
				if op := core.AsMemdbOp(in); op != nil && op.IsWrite() && op.TableKnown && op.Table == tableConst {
					writers = append(writers, f)
				}
			}
		}
	}
	seenW := map[*ssa.Function]bool{}
	for _, f := range writers {
		if seenW[f] {
			continue
		}
		seenW[f] = true
		name := core.FuncName(f)
		recv := ""
		if f.Signature.Recv() != nil {
			if n := core.NamedOf(f.Signature.Recv().Type()); n != nil {
				recv = n.Obj().Name()
			}
		}
		if recv == "Restoration" {
			r.Hold("C18.2", name, p.FuncPos(f), "restoration handle: writes a private database that replaces the store wholesale on Commit")
			continue
		}
		checkCASWriter(c, f, tableConst)
	}
	r.Floor("C18.1.lock", 2)
	r.Floor("C18.1.guard", 2)

	// ---- C18.3 over every function of the package
	n := 0
	for _, f := range p.SrcFuncs(inmemPkg) {
		ei := core.ErrResultIndex(f)
		if ei < 0 {
			continue
		}
		for _, rt := range core.Returns(f) {
			v := core.ResolveResult(rt, ei)
			if !core.IsNilConst(v) {
				continue
			}
			// is this return block dominated by the true edge of some `err != nil`?
			for _, b := range f.Blocks {
				if len(b.Instrs) == 0 {
					continue
				}
				ifi, ok := b.Instrs[len(b.Instrs)-1].(*ssa.If)
				if !ok || b.Succs[0] == b.Succs[1] {
					continue
				}
				cmp, ok := ifi.Cond.(*ssa.BinOp)
				if !ok || !(core.IsNilConst(cmp.Y) || core.IsNilConst(cmp.X)) {
					continue
				}
				other := cmp.X
				if core.IsNilConst(cmp.X) {
					other = cmp.Y
				}
				if !core.IsErrorType(other.Type()) {
					continue
				}
				nonNilSucc := 0
				if cmp.Op == token.EQL {
					nonNilSucc = 1
				}
				if core.EdgeDominates(b, nonNilSucc, rt.Block()) {
					n++
					r.Violate("C18.3", core.FuncName(f)+"/nil-on-error", p.Pos(rt.Pos()), "a nil error is returned on the edge where "+other.Name()+" != nil: a failed internal step (the write was not committed) is reported to the caller as success")
				}
			}
		}
	}
	if n == 0 {
		r.Hold("C18.3", "<package>", "", "no function returns a nil error below an err != nil edge")
	}

	checkWatchWiring(c)
	checkSubjectKeyCoversSnapshotInputs(c)
	checkWatchThresholdPersists(c)
}

func checkCASWriter(c *Ctx, f *ssa.Function, table string) {
	p, r := c.P, c.R
	name := core.FuncName(f)
	var lock, read, write, commit, publish ssa.Instruction
	directUnlock := false
	for _, b := range f.Blocks {
		for _, in := range b.Instrs {
			if op := core.AsMemdbOp(in); op != nil {
				switch {
				case op.IsRead() && op.TableKnown && op.Table == table && read == nil:
					read = in
				case op.IsWrite() && op.TableKnown && op.Table == table:
					write = in
				case op.Op == "Commit":
					commit = in
				}
				continue
			}
			ci, ok := in.(ssa.CallInstruction)
			if !ok {
				continue
			}
			g := ci.Common().StaticCallee()
			if g == nil {
				continue
			}
			mn := g.Name()
			isEventLock := false
			if len(ci.Common().Args) > 0 {
				if core.AccessOf(ci.Common().Args[0]).LastField() == "eventLock" {
					isEventLock = true
				}
				if fa, ok := ci.Common().Args[0].(*ssa.FieldAddr); ok && core.FieldObj(fa).Name() == "eventLock" {
					isEventLock = true
				}
			}
			switch {
			case mn == "Lock" && isEventLock:
				if _, isDefer := in.(*ssa.Defer); !isDefer {
					lock = in
				}
			case mn == "Unlock" && isEventLock:
				if _, isDefer := in.(*ssa.Defer); !isDefer {
					directUnlock = true
				}
			case mn == "publishEvent":
				publish = in
			}
		}
	}
	pos := p.FuncPos(f)
	if write == nil {
		return
	}
	if lock == nil || read == nil || commit == nil || publish == nil {
		r.Violate("C18.1.lock", name, pos, fmt.Sprintf("a writer of the resources table lacks part of the check-write-publish skeleton: eventLock=%v read=%v commit=%v publish=%v: concurrent writers are not serialised by version / watchers are not told", lock != nil, read != nil, commit != nil, publish != nil))
		return
	}
	mf := &core.MustFlow{F: f, Gen: func(in ssa.Instruction) []string {
		switch in {
		case lock:
			return []string{"lock"}
		case commit:
			return []string{"commit"}
		}
		return nil
	}}
	mf.Run()
	bad := ""
	for what, in := range map[string]ssa.Instruction{"the read of the current version": read, "the table write": write, "Commit": commit, "publishEvent": publish} {
		if s, _ := mf.At(in); !s["lock"] {
			bad = what + " is not under eventLock: the version check and the write are no longer one atomic step with the event publication, so events can be published out of commit order"
		}
	}
	if s, _ := mf.At(publish); !s["commit"] {
		bad = "the event is published before Commit: a watcher that reads after the event can see older data than the event"
	}
	if directUnlock {
		bad = "eventLock is released explicitly inside the writer (not by defer at exit): commit and publish are not one critical section"
	}
	if bad != "" {
		r.Violate("C18.1.lock", name, pos, bad)
	} else {
		r.Hold("C18.1.lock", name, pos, "read, write, commit and publish under eventLock; publish after commit")
	}

	// guards
	rows := rowReads(f, table)
	aliases := aliasesOf(f, rows)
	// guard edges of the function and of the predicates / checkers it calls (core.GuardEdges)
	isRowVal := func(v ssa.Value) bool {
		if aliases[v] {
			return true
		}
		a := core.AccessOf(v)
		return len(a.Fields) == 0 && aliases[a.Root]
	}
	isRow := func(a core.Access) bool {
		if aliases[a.Root] {
			return true
		}
		ra := core.AccessOf(a.Root)
		return len(ra.Fields) == 0 && aliases[ra.Root]
	}
	classify := func(cv core.CmpView) string {
		if cv.Op != token.EQL && cv.Op != token.NEQ {
			return ""
		}
		if (core.IsNilConst(cv.Y) && isRowVal(cv.X)) || (core.IsNilConst(cv.X) && isRowVal(cv.Y)) {
			return "rownil"
		}
		ax, ay := core.AccessOf(cv.X), core.AccessOf(cv.Y)
		switch {
		case (ax.LastField() == "Version" && isRow(ax)) || (ay.LastField() == "Version" && isRow(ay)):
			return "ver"
		case (ax.LastField() == "Uid" && isRow(ax)) || (ay.LastField() == "Uid" && isRow(ay)):
			return "uid"
		}
		if sv, ok := core.ConstString(cv.Y); ok && sv == "" {
			if _, isParam := core.Bound(cv.X).(*ssa.Parameter); isParam {
				return "vsnempty"
			}
		}
		return ""
	}
	eqSide := func(cv core.CmpView) (bool, bool) { return cv.Op == token.EQL, cv.Op == token.NEQ }
	neSide := func(cv core.CmpView) (bool, bool) { return cv.Op == token.NEQ, cv.Op == token.EQL }
	count := map[string]int{}
	edgesFor := func(kinds map[string]bool, rowNilSide string) []core.Edge {
		return core.GuardEdges(f, 2, func(cv core.CmpView) (bool, bool) {
			k := classify(cv)
			if k == "" {
				return false, false
			}
			count[k]++
			if k == "rownil" {
				switch rowNilSide {
				case "nil":
					return eqSide(cv)
				case "nonnil":
					return neSide(cv)
				}
				return false, false
			}
			if kinds[k] {
				return eqSide(cv)
			}
			return false, false
		})
	}
	verCut := edgesFor(map[string]bool{"ver": true}, "nil")
	uidCut := edgesFor(map[string]bool{"uid": true}, "nil")
	vsnCut := edgesFor(map[string]bool{"vsnempty": true}, "nonnil")
	gbad := ""
	if count["ver"] == 0 || !core.CutMakesUnreachable(f, nil, verCut, write) {
		gbad = "the table write is reachable with an existing row whose Version differs from the caller's: of two writers presenting the same version both can succeed"
	}
	if gbad == "" && (count["uid"] == 0 || !core.CutMakesUnreachable(f, nil, uidCut, write)) {
		gbad = "the table write is reachable with an existing row whose Uid differs from the caller's: a stale writer/deleter can touch a re-created resource"
	}
	isInsert := core.AsMemdbOp(write).Op == "Insert"
	if gbad == "" && isInsert {
		if count["vsnempty"] == 0 || !core.CutMakesUnreachable(f, nil, vsnCut, write) {
			gbad = "a resource can be created (no existing row) with a non-empty version: a stale writer re-creates a deleted resource"
		}
	}
	if gbad != "" {
		r.Violate("C18.1.guard", name, p.Pos(write.Pos()), gbad)
	} else {
		r.Hold("C18.1.guard", name, p.Pos(write.Pos()), "write only below version-equal and Uid-equal edges (creation only with an empty version)")
	}
	r.Hold("C18.2", name, pos, "CAS writer (checked by C18.1)")
}

func checkWatchWiring(c *Ctx) {
	p, r := c.P, c.R
	// the snapshot handler registered for the topic that WatchList subscribes to
	var registered *ssa.Function
	var regTopic, subTopic ssa.Value
	for _, f := range p.SrcFuncs(inmemPkg) {
		for _, b := range f.Blocks {
			for _, in := range b.Instrs {
				ci, ok := in.(ssa.CallInstruction)
				if !ok {
					continue
				}
				switch core.MethodNameOf(ci.Common()) {
				case "RegisterHandler":
					args := core.CallArgs(ci.Common())
					if len(args) >= 2 {
						regTopic = args[0]
						registered = resolveFuncValue(args[1])
					}
				case "Subscribe":
					args := core.CallArgs(ci.Common())
					if len(args) == 1 {
						if al, ok := args[0].(*ssa.Alloc); ok {
							for _, fs := range storesToFieldsOf(f, al) {
								if fs.field == "Topic" {
									subTopic = fs.st.Val
								}
							}
						}
					}
				}
			}
		}
	}
	topicName := func(v ssa.Value) string {
		if v == nil {
			return ""
		}
		if mi, ok := v.(*ssa.MakeInterface); ok {
			v = mi.X
		}
		if ld, ok := v.(*ssa.UnOp); ok {
			if g, ok := ld.X.(*ssa.Global); ok {
				return g.Name()
			}
		}
		if k, ok := v.(*ssa.Const); ok {
			return k.Value.ExactString()
		}
		return v.Name()
	}
	switch {
	case registered == nil:
		r.Violate("C18.4", "inmem/snapshot-handler", "", "no snapshot handler is registered with the event publisher: a watcher gets events but no initial listing")
	case topicName(regTopic) != topicName(subTopic) || topicName(regTopic) == "":
		r.Violate("C18.4", "inmem/snapshot-handler", p.FuncPos(registered), fmt.Sprintf("the snapshot handler is registered for topic %q but WatchList subscribes to %q: the initial listing is missing", topicName(regTopic), topicName(subTopic)))
	default:
		// the handler lists under a read transaction of the same store
		lists := false
		for g := range reachableConsul(p, registered) {
			for _, b := range g.Blocks {
				for _, in := range b.Instrs {
					if op := core.AsMemdbOp(in); op != nil && op.IsRead() {
						lists = true
					}
				}
			}
		}
		if lists {
			r.Hold("C18.4", "inmem/snapshot-handler", p.FuncPos(registered), "registered for the subscribed topic and lists the table under a read transaction")
		} else {
			r.Violate("C18.4", "inmem/snapshot-handler", p.FuncPos(registered), "the registered snapshot handler never reads the resources table: the initial listing is empty")
		}
	}
	// restore refreshes the topic
	if rc := p.Func(inmemPkg, "(*Restoration).Commit"); rc != nil {
		ok := len(callsTo(rc, func(cm *ssa.CallCommon) bool { return core.MethodNameOf(cm) == "RefreshTopic" })) > 0
		if ok {
			r.Hold("C18.4", "inmem/restore-refresh", p.FuncPos(rc), "a restore refreshes the watch topic (watchers are closed and must re-list)")
		} else {
			r.Violate("C18.4", "inmem/restore-refresh", p.FuncPos(rc), "a restore replaces the database without refreshing the watch topic: watchers keep a view of the old data")
		}
	}
	r.Floor("C18.4", 2)
}

// C18.5
func checkSubjectKeyCoversSnapshotInputs(c *Ctx) {
	p, r := c.P, c.R
	const pkg = "internal/storage/inmem"
	snap := p.Func(pkg, "(*Store).watchSnapshot")
	if snap == nil {
		r.Unresolve("C18.5", "inmem.(*Store).watchSnapshot", "not found")
		return
	}
	n := subjectKeyCoverage(c, "C18.5", pkg, "inmem", []*ssa.Function{snap}, nil)
	if n < 3 {
		r.MissingInstance("C18.5", "<subject fields>", fmt.Sprintf("only %d subject fields read by the snapshot handler", n))
	}
}

// subjectKeyCoverage: every field of a subscription-subject type (a named type
// whose name ends in "Subject" or starts with "EventSubject") that one of the
// snapshot handlers reads is also read by that type's String() method — the
// key under which the publisher caches and shares snapshots. exempt names
// field types whose value cannot vary in this build (community edition
// enterprise metadata).
func subjectKeyCoverage(c *Ctx, rule, pkgRel, short string, handlers []*ssa.Function, exempt func(*types.Var) string) int {
	p, r := c.P, c.R
	isSubject := func(nt *types.Named) bool {
		return nt != nil && nt.Obj().Pkg() != nil && strings.HasSuffix(nt.Obj().Pkg().Path(), "/"+pkgRel) && (strings.HasSuffix(nt.Obj().Name(), "Subject") || strings.HasPrefix(nt.Obj().Name(), "EventSubject"))
	}
	read := map[string]map[string]*types.Var{}
	where := map[string]*ssa.Function{}
	// a handler may delegate the reading of the subject to helpers of its package
	var expanded []*ssa.Function
	seenH := map[*ssa.Function]bool{}
	for _, h := range handlers {
		for _, g := range funcGroup(h, 2) {
			if !seenH[g] && g.Name() != "String" {
				seenH[g] = true
				expanded = append(expanded, g)
			}
		}
	}
	for _, h := range expanded {
		for _, b := range h.Blocks {
			for _, in := range b.Instrs {
				var x ssa.Value
				switch v := in.(type) {
				case *ssa.Field:
					x = v.X
				case *ssa.FieldAddr:
					x = v.X
				default:
					continue
				}
				nt := core.NamedOf(x.Type())
				if !isSubject(nt) {
					continue
				}
				// reads only: a field address that is loaded from (not the target of a store in a literal)
				if fa, ok := in.(*ssa.FieldAddr); ok {
					loaded := false
					if fa.Referrers() != nil {
						for _, rr := range *fa.Referrers() {
							if u, ok := rr.(*ssa.UnOp); ok && u.Op == token.MUL {
								loaded = true
							}
							if _, ok := rr.(ssa.CallInstruction); ok {
								loaded = true // address handed to a method (meta.PartitionOrDefault())
							}
							if _, ok := rr.(*ssa.FieldAddr); ok {
								loaded = true
							}
						}
					}
					if !loaded {
						continue
					}
				}
				if read[nt.Obj().Name()] == nil {
					read[nt.Obj().Name()] = map[string]*types.Var{}
					where[nt.Obj().Name()] = h
				}
				fo := core.FieldObj(in.(ssa.Value))
				read[nt.Obj().Name()][fo.Name()] = fo
			}
		}
	}
	n := 0
	var tns []string
	for tn := range read {
		tns = append(tns, tn)
	}
	sort.Strings(tns)
	for _, tn := range tns {
		fields := read[tn]
		str := p.Func(pkgRel, tn+".String")
		if str == nil {
			r.Unresolve(rule, short+"."+tn+".String", "not found")
			continue
		}
		keyed := map[string]bool{}
		for _, sg := range funcGroup(str, 1) {
			for _, b := range sg.Blocks {
				for _, in := range b.Instrs {
					switch v := in.(type) {
					case *ssa.Field:
						if nt := core.NamedOf(v.X.Type()); nt != nil && nt.Obj().Name() == tn {
							keyed[core.FieldObj(v).Name()] = true
						}
					case *ssa.FieldAddr:
						if nt := core.NamedOf(v.X.Type()); nt != nil && nt.Obj().Name() == tn {
							keyed[core.FieldObj(v).Name()] = true
						}
					}
				}
			}
		}
		var fs []string
		for f := range fields {
			fs = append(fs, f)
		}
		sort.Strings(fs)
		for _, f := range fs {
			n++
			construct := short + "." + tn + "." + f
			pos := p.FuncPos(where[tn])
			switch {
			case keyed[f]:
				r.Hold(rule, construct, pos, "read by the snapshot handler and part of the cache key")
			case exempt != nil && exempt(fields[f]) != "":
				r.Hold(rule, construct, pos, exempt(fields[f]))
			default:
				r.Violate(rule, construct, pos, "the snapshot handler's result depends on "+tn+"."+f+", which is not part of the subject's String(): the publisher caches and shares snapshots (and routes events) per topic and subject string, so a later subscriber whose request differs only in that field is served an earlier subscriber's snapshot")
			}
		}
	}
	return n
}

// C18.6
func checkWatchThresholdPersists(c *Ctx) {
	p, r := c.P, c.R
	f := p.Func("internal/storage/inmem", "(*Watch).nextEvent")
	if f == nil {
		r.Unresolve("C18.6", "inmem.(*Watch).nextEvent", "not found")
		return
	}
	recv := f.Params[0]
	var cmp *ssa.BinOp
	var other ssa.Value
	for _, b := range f.Blocks {
		for _, in := range b.Instrs {
			bo, ok := in.(*ssa.BinOp)
			if !ok {
				continue
			}
			switch bo.Op {
			case token.LEQ, token.LSS, token.GEQ, token.GTR:
			default:
				continue
			}
			isEvIdx := func(v ssa.Value) bool {
				a := core.AccessOf(v)
				return a.LastField() == "Index" && a.Root != ssa.Value(recv)
			}
			if isEvIdx(bo.X) && isUint(bo.Y.Type()) {
				cmp, other = bo, bo.Y
			} else if isEvIdx(bo.Y) && isUint(bo.X.Type()) {
				cmp, other = bo, bo.X
			}
		}
	}
	if cmp == nil {
		r.Violate("C18.6", "inmem.(*Watch).nextEvent", p.FuncPos(f), "events are taken from the subscription without comparing their index with the last one delivered: writes that were committed but not yet dispatched when the watch was created are delivered again after the initial listing, older versions after newer ones")
		return
	}
	a := core.AccessOf(other)
	if ld, ok := other.(*ssa.UnOp); ok && ld.Op == token.MUL && a.Root == ssa.Value(recv) && len(a.Fields) > 0 {
		// and the field is advanced from the event's index
		adv := false
		for _, b := range f.Blocks {
			for _, in := range b.Instrs {
				if st, ok := in.(*ssa.Store); ok {
					if fa, ok := st.Addr.(*ssa.FieldAddr); ok && core.FieldObj(fa).Name() == a.LastField() && core.AccessOf(st.Val).LastField() == "Index" {
						adv = true
					}
				}
			}
		}
		if adv {
			r.Hold("C18.6", "inmem.(*Watch).nextEvent", p.Pos(cmp.Pos()), "threshold kept in Watch."+a.LastField()+" and advanced from each event taken")
		} else {
			r.Violate("C18.6", "inmem.(*Watch).nextEvent", p.Pos(cmp.Pos()), "the threshold field is never advanced")
		}
		return
	}
	r.Violate("C18.6", "inmem.(*Watch).nextEvent", p.Pos(cmp.Pos()), "the threshold the event index is compared with is a local of this call (it starts at zero every time), so nothing is ever dropped across calls: after a listing that showed version 2 of a resource the watch delivers the queued event for version 1")
}
