package rules

import (
	"regexp"
	"go/ast"
	"fmt"
	"go/constant"
	"go/token"
	"go/types"
	"sort"
	"strings"

	"golang.org/x/tools/go/ssa"

	"verifcheck/internal/core"
)

func init() {
	register(&Rule{ID: "C01", Patterns: []string{"./agent/consul/state", "./agent/consul/fsm", "./agent/consul"}, Run: runC01})
}

const fsmPkg = "agent/consul/fsm"

type fsmEntry struct {
	msg  int64
	fn   *ssa.Function // the handler (thunks resolved)
	site ssa.Instruction
}

// fsmEntries: function values passed to registerCommand in package fsm.
func fsmEntries(p *core.Program) ([]fsmEntry, []string) {
	var out []fsmEntry
	var problems []string
	reg := p.Func(fsmPkg, "registerCommand")
	if reg == nil {
		return nil, []string{"fsm.registerCommand not found"}
	}
	for _, f := range p.SrcFuncs(fsmPkg) {
		for _, b := range f.Blocks {
			for _, in := range b.Instrs {
				call, ok := in.(*ssa.Call)
				if !ok || call.Call.StaticCallee() != reg || len(call.Call.Args) != 2 {
					continue
				}
				msg, ok := core.ConstInt(call.Call.Args[0])
				if !ok {
					problems = append(problems, "non-constant message type at "+p.Pos(call.Pos()))
					continue
				}
				h := resolveFuncValue(call.Call.Args[1])
				if h == nil {
					problems = append(problems, "handler of message "+fmt.Sprint(msg)+" is not a static function value at "+p.Pos(call.Pos()))
					continue
				}
				out = append(out, fsmEntry{msg, h, in})
			}
		}
	}
	// init functions are not in SrcFuncs when synthetic: scan package init too
	if sp := p.SSAPkg(fsmPkg); sp != nil {
		if initf := sp.Func("init"); initf != nil {
			for _, b := range initf.Blocks {
				for _, in := range b.Instrs {
					call, ok := in.(*ssa.Call)
					if !ok || call.Call.StaticCallee() != reg || len(call.Call.Args) != 2 {
						continue
					}
					msg, ok := core.ConstInt(call.Call.Args[0])
					if !ok {
						continue
					}
					if h := resolveFuncValue(call.Call.Args[1]); h != nil {
						out = append(out, fsmEntry{msg, h, in})
					}
				}
			}
		}
	}
	// de-duplicate by site
	seen := map[ssa.Instruction]bool{}
	var uniq []fsmEntry
	for _, e := range out {
		if !seen[e.site] {
			seen[e.site] = true
			uniq = append(uniq, e)
		}
	}
	sort.Slice(uniq, func(i, j int) bool { return uniq[i].msg < uniq[j].msg })
	return uniq, problems
}

// resolveFuncValue: the function behind a function-typed value (method
// expression thunks and bound-method closures are looked through).
func resolveFuncValue(v ssa.Value) *ssa.Function {
	switch x := v.(type) {
	case *ssa.Function:
		if x.Synthetic != "" && x.Blocks != nil {
			// thunk/wrapper: single static callee
			var callee *ssa.Function
			for _, b := range x.Blocks {
				for _, in := range b.Instrs {
					if ci, ok := in.(ssa.CallInstruction); ok {
						if g := ci.Common().StaticCallee(); g != nil {
							callee = g
						}
					}
				}
			}
			if callee != nil {
				return callee
			}
		}
		return x
	case *ssa.MakeClosure:
		if f, ok := x.Fn.(*ssa.Function); ok {
			return resolveFuncValue(f)
		}
	case *ssa.ChangeType:
		return resolveFuncValue(x.X)
	case *ssa.Convert:
		return resolveFuncValue(x.X)
	}
	return nil
}

// ---------------------------------------------------------------------------
// boundary classification

type boundaryClass int

const (
	bcPure boundaryClass = iota
	bcSink
	bcAmbient
)

var sinkPkgs = []string{
	"github.com/armon/go-metrics", "github.com/hashicorp/go-metrics", "github.com/hashicorp/go-hclog", "log", "log/slog",
	"github.com/hashicorp/consul-net-rpc", // not expected
}

var ambientWholePkgs = []string{"os/exec", "os/signal", "os/user", "syscall", "math/rand", "math/rand/v2", "crypto/rand", "github.com/hashicorp/go-uuid", "net/http", "net/http/httptest", "io/ioutil"}

// individual ambient functions (package-qualified, as ssa prints them)
var ambientFuncs = map[string]bool{
	"time.Now": true, "time.Since": true, "time.Until": true, "time.After": true, "time.AfterFunc": true, "time.NewTimer": true,
	"time.NewTicker": true, "time.Sleep": true, "time.Tick": true,
	"os.Getenv": true, "os.LookupEnv": true, "os.Environ": true, "os.Hostname": true, "os.Getpid": true, "os.Getppid": true, "os.Getwd": true,
	"os.Open": true, "os.OpenFile": true, "os.Create": true, "os.ReadFile": true, "os.WriteFile": true, "os.Stat": true, "os.Lstat": true,
	"os.ReadDir": true, "os.Remove": true, "os.RemoveAll": true, "os.Mkdir": true, "os.MkdirAll": true, "os.Getuid": true, "os.Executable": true,
	"os.UserHomeDir": true, "os.TempDir": true, "os.CreateTemp": true, "os.MkdirTemp": true, "os.Exit": true,
	"net.Dial": true, "net.DialTimeout": true, "net.Listen": true, "net.ListenPacket": true, "net.LookupHost": true, "net.LookupIP": true,
	"net.LookupAddr": true, "net.LookupSRV": true, "net.Interfaces": true, "net.InterfaceAddrs": true, "net.ResolveTCPAddr": true,
	"net.ResolveUDPAddr": true, "net.ResolveIPAddr": true, "net.DialTCP": true, "net.DialUDP": true, "net.ListenTCP": true, "net.ListenUDP": true,
	"runtime.NumGoroutine": true, "runtime.Caller": true, "runtime.Callers": true, "runtime.Stack": true, "runtime.NumCPU": true, "runtime.GOMAXPROCS": true,
	"runtime.ReadMemStats": true,
}

var pureMethodNames = map[string]bool{"Error": true, "String": true, "Unwrap": true, "Is": true, "As": true, "Timeout": true, "Temporary": true, "GoString": true, "Format": true}

func classifyBoundary(b core.BoundaryCall) boundaryClass {
	if b.Callee != nil && b.Callee.Signature.Recv() != nil && pureMethodNames[b.Callee.Name()] {
		return bcPure
	}
	for _, s := range sinkPkgs {
		if b.Pkg == s || strings.HasPrefix(b.Pkg, s+"/") {
			return bcSink
		}
	}
	for _, a := range ambientWholePkgs {
		if b.Pkg == a {
			return bcAmbient
		}
	}
	name := b.Name
	if ambientFuncs[name] {
		return bcAmbient
	}
	// methods that perform I/O on net/http/os types
	if b.Callee != nil && b.Callee.Signature.Recv() != nil {
		rt := b.Callee.Signature.Recv().Type().String()
		if strings.Contains(rt, "net/http.Client") || strings.Contains(rt, "os.File") || strings.Contains(rt, "net.Dialer") || strings.Contains(rt, "net.Resolver") {
			return bcAmbient
		}
		if strings.Contains(rt, "time.Timer") || strings.Contains(rt, "time.Ticker") {
			return bcAmbient
		}
	}
	return bcPure
}

func runC01(c *Ctx) {
	p, r := c.P, c.R
	r.Clauses = []string{
		"C01.1 every message type some reachable code hands to raftApply has exactly one registered FSM handler (or is intercepted before dispatch); duplicate registration panics at init",
		"C01.2 FSM apply has no ambient capability: every call that leaves the consul modules from code reachable from a registered handler is pure, a sanctioned sink (metrics, logger), or an ambient source (clock, environment, network, randomness) whose result only feeds a sanctioned sink or the deliberately leader-local timers; the leader-local lock-delay and tombstone-GC state is never read from apply",
		"C01.3 every write transaction opened below a handler is opened at the handler's log index",
		"C01.4 no map iteration reachable from a handler lets iteration order reach replicated state or command results (auto-discharged order-insensitive bodies, reviewed table for the rest)",
		"C01.5 no goroutine start or channel operation is reachable from a handler outside the post-commit hand-off",
	}
	r.NotDecided = []string{"equality of two stores over generated histories", "unsynchronised reads of memory shared with non-apply goroutines other than package variables", "error-message text"}

	entries, problems := fsmEntries(p)
	for _, pr := range problems {
		r.Unresolve("C01.1", "<registerCommand>", pr)
	}
	r.Analysed["fsm_entries"] = len(entries)
	byMsg := map[int64][]fsmEntry{}
	var entryFns []*ssa.Function
	for _, e := range entries {
		byMsg[e.msg] = append(byMsg[e.msg], e)
		entryFns = append(entryFns, e.fn)
	}
	checkDispatchTotal(c, entries, byMsg)

	// closures handed to tx.Defer run after commit, outside apply's replicated effects
	isDeferClosure := func(f *ssa.Function) bool {
		if f.Parent() == nil {
			return false
		}
		for _, b := range f.Parent().Blocks {
			for _, in := range b.Instrs {
				if mc, ok := in.(*ssa.MakeClosure); ok && mc.Fn == ssa.Value(f) && mc.Referrers() != nil {
					for _, rr := range *mc.Referrers() {
						if op := core.AsMemdbOp(rr); op != nil && op.Op == "Defer" {
							return true
						}
					}
				}
			}
		}
		return false
	}
	reach := p.ReachFrom(entryFns, func(f *ssa.Function) bool {
		pk := core.FuncPkgPath(f)
		// the stream publisher is the post-commit hand-off; testing helpers are not production code
		if strings.HasSuffix(pk, "/agent/consul/stream") || strings.Contains(pk, "/sdk/testutil") || strings.HasSuffix(pk, "/testrpc") {
			return true
		}
		// event generation from the change set feeds the post-commit publisher only
		if pk == core.ConsulModulePrefix+"/"+statePkg && (f.Name() == "processDBChanges" || strings.HasSuffix(f.Name(), "EventsFromChanges")) {
			return true
		}
		// lib/maps.SliceOfKeys returns keys in map order by contract: judged at its call sites (C01.4.keys)
		if o := f.Origin(); o != nil && o.Name() == "SliceOfKeys" {
			return true
		}
		if f.Name() == "SliceOfKeys" && strings.HasSuffix(pk, "/lib/maps") {
			return true
		}
		return isDeferClosure(f)
	})
	r.Analysed["functions_reachable_from_entries"] = len(reach.Funcs)
	if len(reach.Funcs) < 500 {
		r.MissingInstance("C01.2", "<reachable-set>", fmt.Sprintf("only %d consul functions reachable from the FSM handlers (expected thousands): the traversal collapsed", len(reach.Funcs)))
	}
	checkAmbient(c, reach)
	checkLeaderLocalReads(c, reach)
	checkWriteTxnIndex(c, reach)
	checkMapRanges(c, reach)
	checkConcurrency(c, reach)
}

// C01.1
func checkDispatchTotal(c *Ctx, entries []fsmEntry, byMsg map[int64][]fsmEntry) {
	p, r := c.P, c.R
	r.Floor("C01.1.registered", 36)
	for msg, es := range byMsg {
		construct := fmt.Sprintf("message-%d", msg)
		if len(es) > 1 {
			r.Violate("C01.1.registered", construct, p.Pos(es[0].site.Pos()), "message type registered twice: panics at init")
		} else {
			r.Hold("C01.1.registered", construct, p.Pos(es[0].site.Pos()), "handler "+core.FuncName(es[0].fn))
		}
	}
	// duplicate guard in registerCommand: the map store is dominated by the != nil panic test
	if reg := p.Func(fsmPkg, "registerCommand"); reg != nil {
		guarded := false
		for _, b := range reg.Blocks {
			for _, in := range b.Instrs {
				if _, ok := in.(*ssa.Panic); ok {
					guarded = true
				}
			}
		}
		if guarded {
			r.Hold("C01.1.dup-guard", "fsm.registerCommand", p.FuncPos(reg), "duplicate registration panics")
		} else {
			r.Violate("C01.1.dup-guard", "fsm.registerCommand", p.FuncPos(reg), "a second registration silently replaces the first handler")
		}
	}
	// producers: constant MessageType arguments of raftApply-like calls in agent/consul
	msgNames := map[int64]string{}
	if pk := p.Pkg("agent/structs"); pk != nil {
		for _, n := range pk.Types.Scope().Names() {
			if k, ok := pk.Types.Scope().Lookup(n).(*types.Const); ok && strings.HasSuffix(n, "Type") && k.Val().Kind() == constant.Int {
				if nt, ok := k.Type().(*types.Named); ok && nt.Obj().Name() == "MessageType" {
					v, _ := constant.Int64Val(k.Val())
					msgNames[v] = n
				}
			}
		}
	}
	intercepted := map[string]bool{"RaftLogVerifierCheckpoint": true, "ChunkingStateType": true}
	cg := p.CallGraph()
	nProd := 0
	seenProd := map[string]bool{}
	for _, rel := range []string{"agent/consul", "agent/consul/fsm"} {
		for _, f := range p.SrcFuncs(rel) {
			for _, b := range f.Blocks {
				for _, in := range b.Instrs {
					ci, ok := in.(ssa.CallInstruction)
					if !ok {
						continue
					}
					mn := core.MethodNameOf(ci.Common())
					if !strings.HasPrefix(mn, "raftApply") && mn != "leaderRaftApply" && mn != "raftApplyWithEncoder" {
						continue
					}
					for _, a := range ci.Common().Args {
						nt, ok := types.Unalias(a.Type()).(*types.Named)
						if !ok || nt.Obj().Name() != "MessageType" {
							continue
						}
						v, ok := core.ConstInt(a)
						if !ok {
							// or-ed with the ignore flag, or forwarded parameter
							if bo, ok := a.(*ssa.BinOp); ok && bo.Op == token.OR {
								if x, ok := core.ConstInt(bo.X); ok {
									v = x
								} else if y, ok := core.ConstInt(bo.Y); ok {
									v = y
								} else {
									continue
								}
							} else {
								continue
							}
						}
						ignoreFlag := v&128 != 0
						base := v &^ 128
						name := msgNames[base]
						if name == "" {
							name = fmt.Sprintf("type-%d", base)
						}
						construct := name + "@" + core.FuncName(f)
						if seenProd[construct] {
							continue
						}
						seenProd[construct] = true
						nProd++
						pos := p.Pos(in.Pos())
						switch {
						case len(byMsg[base]) == 1:
							r.Hold("C01.1.producer", construct, pos, "registered")
						case ignoreFlag:
							r.Hold("C01.1.producer", construct, pos, "sent with IgnoreUnknownTypeFlag: replicas without a handler skip it")
						case intercepted[name]:
							r.Hold("C01.1.producer", construct, pos, "intercepted before dispatch")
						default:
							// a producer nobody calls cannot put the entry in the log
							node := cg.Nodes[f]
							realCallers := 0
							var callerNames []string
							if node != nil {
								for _, e := range node.In {
									if e.Caller.Func != nil && e.Caller.Func.Synthetic == "" {
										realCallers++
										callerNames = append(callerNames, core.FuncName(e.Caller.Func))
									}
								}
							}
							if node != nil && realCallers == 0 {
								r.Add(core.Obligation{Rule: "C01.1.producer", Construct: construct, Pos: pos, Decision: core.Holds,
									Reason: "producer of an unregistered type, but the producing function has no caller in this build", Exception: "unreachable-producer"})
							} else {
								r.Violate("C01.1.producer", construct, pos, fmt.Sprintf("message type %s (%d) can be appended to the log but no FSM handler is registered for it: every replica panics in Apply (callers: %v)", name, base, callerNames))
							}
						}
					}
				}
			}
		}
	}
	r.Floor("C01.1.producer", 40)
	r.Analysed["raft_apply_producers"] = nProd
}

// useOnlyInSinks: every use of v (transitively through value-preserving
// instructions) ends in an argument of a sanctioned sink call, a comparison
// feeding nothing but sinks is not accepted.
func ambientUseOK(p *core.Program, v ssa.Value) (bool, string) {
	ok := true
	why := ""
	var visit func(v ssa.Value, depth int)
	seen := map[ssa.Value]bool{}
	visit = func(v ssa.Value, depth int) {
		if seen[v] || v.Referrers() == nil || depth > 8 {
			return
		}
		seen[v] = true
		for _, u := range *v.Referrers() {
			switch x := u.(type) {
			case *ssa.DebugRef:
			case ssa.CallInstruction:
				cm := x.Common()
				pk := core.CalleePkgPath(cm)
				name := core.MethodNameOf(cm)
				bc := core.BoundaryCall{Pkg: pk, Name: core.CalleeName(cm), Callee: cm.StaticCallee()}
				switch {
				case classifyBoundary(bc) == bcSink:
				case pk == "time" && (name == "Sub" || name == "Since" || name == "Milliseconds" || name == "Seconds" || name == "String" || name == "UTC" || name == "Round" || name == "Truncate" || name == "Add"):
					if val, isVal := u.(ssa.Value); isVal {
						visit(val, depth+1)
					}
				case core.IsConsul(pk) && (name == "SetExpiration" || name == "Hint" || strings.HasPrefix(name, "nextExpires") || name == "expireTime"):
					// deliberately leader-local, non-replicated timers
				default:
					ok = false
					why = "flows into " + core.CalleeName(cm) + " at " + p.Pos(u.Pos())
				}
			case *ssa.Defer, *ssa.Go:
			case *ssa.MakeClosure:
				// captured by a closure (a tx.Defer callback): follow the captured variable inside it
				if fn, isFn := x.Fn.(*ssa.Function); isFn {
					for i, bnd := range x.Bindings {
						if bnd == v && i < len(fn.FreeVars) {
							visit(fn.FreeVars[i], depth+1)
						}
					}
				}
			case *ssa.Phi, *ssa.Convert, *ssa.ChangeType, *ssa.MakeInterface, *ssa.ChangeInterface, *ssa.Extract, *ssa.UnOp, *ssa.BinOp, *ssa.Field, *ssa.FieldAddr, *ssa.Slice, *ssa.IndexAddr, *ssa.TypeAssert:
				visit(x.(ssa.Value), depth+1)
			case *ssa.Store:
				if x.Val == v {
					// stored into a local: follow the loads
					if a, isAlloc := x.Addr.(*ssa.Alloc); isAlloc {
						visit(a, depth+1)
					} else if fa, isFA := x.Addr.(*ssa.FieldAddr); isFA {
						// stored into a field of a local struct that only reaches sinks (metrics labels…): follow the struct
						if a, isAlloc := fa.X.(*ssa.Alloc); isAlloc {
							visit(a, depth+1)
						} else {
							ok = false
							why = "stored into a field at " + p.Pos(u.Pos())
						}
					} else {
						ok = false
						why = "stored at " + p.Pos(u.Pos())
					}
				}
			case *ssa.If:
				ok = false
				why = "decides a branch at " + p.Pos(u.Pos())
			case *ssa.Return:
				ok = false
				why = "is returned at " + p.Pos(u.Pos())
			case *ssa.MapUpdate, *ssa.Send:
				ok = false
				why = "escapes at " + p.Pos(u.Pos())
			default:
				ok = false
				why = fmt.Sprintf("used by %T at %s", u, p.Pos(u.Pos()))
			}
		}
	}
	visit(v, 0)
	return ok, why
}

// frontierOf: the call edge on the path from an entry to f at which the path
// leaves the apply core (packages fsm and state). Returns "" when f itself is
// in the core.
func frontierOf(reach *core.Reach, f *ssa.Function) string {
	isCore := func(g *ssa.Function) bool {
		pk := core.FuncPkgPath(g)
		return pk == core.ConsulModulePrefix+"/"+fsmPkg || pk == core.ConsulModulePrefix+"/"+statePkg
	}
	if isCore(f) {
		return ""
	}
	// walk up to the first core ancestor
	child := f
	seen := map[*ssa.Function]bool{}
	for cur := reach.Funcs[f]; cur != nil && !seen[cur]; cur = reach.Funcs[cur] {
		seen[cur] = true
		if isCore(cur) {
			return core.FuncName(cur) + "→" + core.FuncName(child)
		}
		child = cur
	}
	return "<entry>→" + core.FuncName(child)
}

// C01.2
func checkAmbient(c *Ctx, reach *core.Reach) {
	p, r := c.P, c.R
	pkgs := map[string]int{}
	nAmbient := 0
	perKey := map[string]int{}
	type agg struct {
		bad   []string
		good  int
		pos   string
		path  []string
	}
	frontier := map[string]*agg{}
	for _, b := range reach.Boundary {
		pkgs[b.Pkg]++
		if classifyBoundary(b) != bcAmbient {
			continue
		}
		nAmbient++
		pos := p.Pos(b.Site.Pos())
		path := reach.PathTo(b.Caller)
		// decide the event
		verdictOK, why := false, ""
		v, isVal := b.Site.(ssa.Value)
		switch {
		case func() bool { _, d := b.Site.(*ssa.Defer); return d }():
			verdictOK = true
		case !isVal:
			why = "ambient call " + b.Name
		default:
			verdictOK, why = ambientUseOK(p, v)
		}
		if fk := frontierOf(reach, b.Caller); fk != "" {
			a := frontier[fk]
			if a == nil {
				a = &agg{pos: pos, path: path}
				// position of the frontier: the core function that makes the call
				for cur := b.Caller; cur != nil; cur = reach.Funcs[cur] {
					pk := core.FuncPkgPath(cur)
					if pk == core.ConsulModulePrefix+"/"+fsmPkg || pk == core.ConsulModulePrefix+"/"+statePkg {
						a.pos = p.FuncPos(cur)
						break
					}
				}
				frontier[fk] = a
			}
			if verdictOK {
				a.good++
			} else {
				a.bad = append(a.bad, fmt.Sprintf("%s in %s (%s) %s", shortName(b.Name), core.FuncName(b.Caller), pos, why))
			}
			continue
		}
		base := core.FuncName(b.Caller) + "→" + shortName(b.Name)
		perKey[base]++
		construct := base
		if perKey[base] > 1 {
			construct = fmt.Sprintf("%s#%d", base, perKey[base])
		}
		if verdictOK {
			r.Hold("C01.2", construct, pos, "ambient result feeds only sanctioned sinks / leader-local timers (or is a deferred call whose result is discarded)")
		} else {
			r.Violate("C01.2", construct, pos, "the result of "+b.Name+" is reachable from FSM apply and "+why+": replicated state or results may depend on something that is not in the command", path...)
		}
	}
	var fkeys []string
	for k := range frontier {
		fkeys = append(fkeys, k)
	}
	sort.Strings(fkeys)
	for _, k := range fkeys {
		a := frontier[k]
		if len(a.bad) == 0 {
			r.Hold("C01.2", k, a.pos, fmt.Sprintf("%d ambient events below this edge, all feeding only sanctioned sinks", a.good))
			continue
		}
		sort.Strings(a.bad)
		show := a.bad
		if len(show) > 6 {
			show = append(append([]string{}, show[:6]...), fmt.Sprintf("… %d more", len(a.bad)-6))
		}
		r.Violate("C01.2", k, a.pos, fmt.Sprintf("FSM apply leaves the state machine through this call and reaches %d ambient sources whose results are used: %s", len(a.bad), strings.Join(show, " | ")), a.path...)
	}
	var plist []string
	for k, v := range pkgs {
		plist = append(plist, fmt.Sprintf("%s:%d", k, v))
	}
	sort.Strings(plist)
	r.Analysed["boundary_packages"] = plist
	r.Analysed["ambient_events"] = nAmbient
	r.Floor("C01.2", 30)
}

func shortName(s string) string {
	if i := strings.LastIndex(s, "/"); i >= 0 {
		return s[i+1:]
	}
	return s
}

// reads of the leader-local objects
func checkLeaderLocalReads(c *Ctx, reach *core.Reach) {
	p, r := c.P, c.R
	n := 0
	for f := range reach.Funcs {
		if f.Signature.Recv() == nil || f.Pkg == nil || f.Pkg.Pkg.Path() != core.ConsulModulePrefix+"/"+statePkg {
			continue
		}
		rt := core.ShortType(f.Signature.Recv().Type())
		if strings.HasSuffix(rt, "Delay") && f.Name() == "GetExpiration" {
			n++
			r.Violate("C01.2.leader-local", core.FuncName(f), p.FuncPos(f), "the lock-delay table (leader-local, filled from each server's own clock) is consulted from FSM apply: the verdict of a committed command depends on local time and apply pacing", reach.PathTo(f)...)
		}
		if strings.HasSuffix(rt, "TombstoneGC") && (f.Name() == "PendingExpiration" || f.Name() == "ExpireCh") {
			n++
			r.Violate("C01.2.leader-local", core.FuncName(f), p.FuncPos(f), "tombstone-GC state is read from FSM apply", reach.PathTo(f)...)
		}
	}
	if n == 0 {
		// positive presence check: the objects still exist
		if p.Func(statePkg, "(*Delay).GetExpiration") == nil {
			r.Unresolve("C01.2.leader-local", "state.(*Delay).GetExpiration", "method not found (renamed?)")
		} else {
			r.Hold("C01.2.leader-local", "state.(*Delay).GetExpiration", "", "not reachable from any FSM handler")
		}
	}
}

// C01.3
func checkWriteTxnIndex(c *Ctx, reach *core.Reach) {
	p, r := c.P, c.R
	n := 0
	for f := range reach.Funcs {
		for _, b := range f.Blocks {
			for _, in := range b.Instrs {
				ci, ok := in.(ssa.CallInstruction)
				if !ok || core.MethodNameOf(ci.Common()) != "WriteTxn" {
					continue
				}
				args := core.CallArgs(ci.Common())
				if len(args) != 1 {
					continue
				}
				n++
				construct := core.FuncName(f) + "/WriteTxn"
				pos := p.Pos(in.Pos())
				okArg := true
				why := ""
				for _, leaf := range core.Leaves(args[0], core.SliceOpts{}) {
					switch x := leaf.(type) {
					case *ssa.Parameter:
						if !isUint(x.Type()) {
							okArg, why = false, "derives from non-index parameter "+x.Name()
						}
					case *ssa.Const:
					default:
						okArg, why = false, fmt.Sprintf("derives from %T", leaf)
					}
				}
				if okArg {
					r.Hold("C01.3", construct, pos, "transaction opened at the function's index parameter")
				} else {
					r.Violate("C01.3", construct, pos, "the index of a write transaction reachable from FSM apply "+why, reach.PathTo(f)...)
				}
			}
		}
	}
	// fsm → state calls: the index argument of Store methods is the handler's index parameter
	for f := range reach.Funcs {
		if core.FuncPkgPath(f) != core.ConsulModulePrefix+"/"+fsmPkg {
			continue
		}
		for _, b := range f.Blocks {
			for _, in := range b.Instrs {
				ci, ok := in.(ssa.CallInstruction)
				if !ok {
					continue
				}
				g := ci.Common().StaticCallee()
				if g == nil || core.FuncPkgPath(g) != core.ConsulModulePrefix+"/"+statePkg || !opensWriteTxn(g) {
					continue
				}
				// first uint64 parameter of g
				args := ci.Common().Args
				for i, prm := range g.Params {
					if !isUint(prm.Type()) || i >= len(args) {
						continue
					}
					n++
					construct := core.FuncName(f) + "→" + core.FuncName(g)
					okArg := false
					for _, leaf := range core.Leaves(args[i], core.SliceOpts{}) {
						if prmLeaf, ok := leaf.(*ssa.Parameter); ok && isUint(prmLeaf.Type()) {
							okArg = true
						}
						if fv, ok := leaf.(*ssa.FreeVar); ok && isUint(fv.Type()) {
							okArg = true
						}
					}
					if okArg {
						r.Hold("C01.3", construct, p.Pos(in.Pos()), "the store method is called with the handler's log index")
					} else {
						r.Violate("C01.3", construct, p.Pos(in.Pos()), "the index handed to the store does not come from the handler's log index parameter")
					}
					break
				}
			}
		}
	}
	r.Floor("C01.3", 100)
	_ = n
}

func opensWriteTxn(g *ssa.Function) bool {
	for _, b := range g.Blocks {
		for _, in := range b.Instrs {
			if ci, ok := in.(ssa.CallInstruction); ok && core.MethodNameOf(ci.Common()) == "WriteTxn" {
				return true
			}
		}
	}
	return false
}

// C01.5
func checkConcurrency(c *Ctx, reach *core.Reach) {
	p, r := c.P, c.R
	n := 0
	for f := range reach.Funcs {
		for _, b := range f.Blocks {
			for _, in := range b.Instrs {
				kind := ""
				switch x := in.(type) {
				case *ssa.Go:
					kind = "go statement"
				case *ssa.Send:
					kind = "channel send"
				case *ssa.Select:
					if x.Blocking {
						kind = "blocking select"
					}
				case *ssa.UnOp:
					if x.Op == token.ARROW {
						kind = "channel receive"
					}
				}
				if kind == "" {
					continue
				}
				n++
				construct := core.FuncName(f) + "/" + kind
				r.Violate("C01.5", construct, p.Pos(in.Pos()), kind+" reachable from FSM apply: the outcome may depend on scheduling", reach.PathTo(f)...)
			}
		}
	}
	if n == 0 {
		r.Hold("C01.5", "<reachable-set>", "", fmt.Sprintf("no go statement or channel operation in %d reachable functions", len(reach.Funcs)))
	}
}

// ---------------------------------------------------------------------------
// C01.4 map iteration order

// rangeLoop describes `for k, v := range m` over a map in SSA form.
type rangeLoop struct {
	fn    *ssa.Function
	rng   *ssa.Range
	body  map[*ssa.BasicBlock]bool // blocks of the loop body (between Next and the back edge)
	next  *ssa.Next
	key   ssa.Value
	val   ssa.Value
}

func mapRangesIn(f *ssa.Function) []rangeLoop {
	var out []rangeLoop
	for _, b := range f.Blocks {
		for _, in := range b.Instrs {
			rg, ok := in.(*ssa.Range)
			if !ok {
				continue
			}
			if _, isMap := rg.X.Type().Underlying().(*types.Map); !isMap {
				continue
			}
			rl := rangeLoop{fn: f, rng: rg, body: map[*ssa.BasicBlock]bool{}}
			if rg.Referrers() != nil {
				for _, rr := range *rg.Referrers() {
					if nx, ok := rr.(*ssa.Next); ok {
						rl.next = nx
					}
				}
			}
			if rl.next == nil {
				continue
			}
			if rl.next.Referrers() != nil {
				for _, rr := range *rl.next.Referrers() {
					if ex, ok := rr.(*ssa.Extract); ok {
						switch ex.Index {
						case 1:
							rl.key = ex
						case 2:
							rl.val = ex
						}
					}
				}
			}
			// body: blocks reachable from the "ok" successor of the loop header without passing the header again
			hdr := rl.next.Block()
			if len(hdr.Succs) == 2 {
				var stack []*ssa.BasicBlock
				stack = append(stack, hdr.Succs[0])
				for len(stack) > 0 {
					x := stack[len(stack)-1]
					stack = stack[:len(stack)-1]
					if x == hdr || rl.body[x] {
						continue
					}
					rl.body[x] = true
					stack = append(stack, x.Succs...)
				}
				// blocks also reachable from the exit edge without the header are not body
				exitReach := map[*ssa.BasicBlock]bool{}
				stack = append(stack, hdr.Succs[1])
				for len(stack) > 0 {
					x := stack[len(stack)-1]
					stack = stack[:len(stack)-1]
					if x == hdr || exitReach[x] {
						continue
					}
					exitReach[x] = true
					stack = append(stack, x.Succs...)
				}
				for x := range exitReach {
					delete(rl.body, x)
				}
			}
			out = append(out, rl)
		}
	}
	return out
}

// orderSensitive inspects the body of a map range and returns the reasons why
// iteration order could become visible; empty = order-insensitive.
func orderSensitive(p *core.Program, rl rangeLoop) []string {
	var reasons []string
	add := func(s string) { reasons = append(reasons, s) }
	for b := range rl.body {
		for _, in := range b.Instrs {
			switch x := in.(type) {
			case *ssa.MapUpdate, *ssa.DebugRef, *ssa.Jump, *ssa.If, *ssa.Phi, *ssa.Next, *ssa.Range:
			case *ssa.Return:
				// early return from inside the loop: which element triggers it depends on order.
				// Returning only an error (state unchanged, command fails either way) is classified separately.
				onlyErr := true
				for i, res := range x.Results {
					if i == len(x.Results)-1 && core.IsErrorType(res.Type()) {
						continue
					}
					if _, isConst := core.ResolveResult(x, i).(*ssa.Const); !isConst {
						onlyErr = false
					}
				}
				if !onlyErr {
					add("returns a non-constant result from inside the loop at " + p.Pos(in.Pos()))
				}
			case *ssa.Store:
				// stores into locals that are max/min/flag accumulators are fine; stores through pointers to shared objects are not decided here
				if _, isAlloc := x.Addr.(*ssa.Alloc); isAlloc {
					continue
				}
				if fa, ok := x.Addr.(*ssa.FieldAddr); ok {
					if _, isAlloc := fa.X.(*ssa.Alloc); isAlloc {
						continue
					}
					// a field of the loop's own value (per-element update) is order-free
					if rl.val != nil && core.AccessOf(fa.X).Root == rl.val {
						continue
					}
				}
				if ia, ok := x.Addr.(*ssa.IndexAddr); ok {
					if _, isAlloc := ia.X.(*ssa.Alloc); isAlloc {
						continue // packing variadic arguments / local array
					}
					add("stores into a slice/array element at " + p.Pos(in.Pos()))
					continue
				}
				if fa, ok := x.Addr.(*ssa.FieldAddr); ok && core.FieldObj(fa) != nil {
					add("stores field " + core.FieldObj(fa).Name() + " through a pointer at " + p.Pos(in.Pos()))
					continue
				}
				add("stores through a pointer at " + p.Pos(in.Pos()))
			case ssa.CallInstruction:
				cm := x.Common()
				if bi, ok := cm.Value.(*ssa.Builtin); ok {
					switch bi.Name() {
					case "append":
						// appended slice must be sorted before use: checked by the caller of this function
						add("append:" + p.Pos(in.Pos()))
					case "delete", "len", "cap", "max", "min", "copy", "print", "println", "panic":
					}
					continue
				}
				if op := core.AsMemdbOp(in); op != nil {
					if op.IsWrite() {
						add("memdb " + op.Op + " on " + op.Table + " at " + p.Pos(in.Pos()))
					}
					continue
				}
				g := cm.StaticCallee()
				pk := core.CalleePkgPath(cm)
				if g != nil && core.IsConsul(pk) && mayWrite(p, g) {
					add("calls " + core.FuncName(g) + " (writes the store) at " + p.Pos(in.Pos()))
					continue
				}
				// other calls: pure helpers, validation, logging — order cannot reach state through them
			}
		}
	}
	return reasons
}

// appendIsSortedLater: the slice appended to at position appendPos inside the
// loop flows (through the loop-carried variable) into a sort call.
func appendIsSortedLater(rl rangeLoop, appendPos string, p *core.Program) bool {
	f := rl.fn
	want := strings.TrimPrefix(appendPos, "append:")
	isSort := func(ci ssa.CallInstruction) bool {
		pk := core.CalleePkgPath(ci.Common())
		name := core.MethodNameOf(ci.Common())
		if (pk == "sort" && (name == "Slice" || name == "SliceStable" || name == "Strings" || name == "Sort" || name == "Stable" || name == "Ints")) ||
			(pk == "slices" && strings.HasPrefix(name, "Sort")) {
			return true
		}
		return name == "Sort" || name == "SortStable"
	}
	for b := range rl.body {
		for _, in := range b.Instrs {
			call, ok := in.(*ssa.Call)
			if !ok || p.Pos(in.Pos()) != want {
				continue
			}
			if bi, ok := call.Call.Value.(*ssa.Builtin); !ok || bi.Name() != "append" {
				continue
			}
			sorted := false
			core.ForwardUses(call, func(u ssa.Instruction, _ ssa.Value) {
				if ci, ok := u.(ssa.CallInstruction); ok && isSort(ci) && !rl.body[u.Block()] {
					sorted = true
				}
			})
			if sorted {
				return true
			}
			// the slice may live in a local variable (alloc) that is sorted after the loop
			if st := storeOfValue(call); st != nil {
				for _, bb := range f.Blocks {
					if rl.body[bb] {
						continue
					}
					for _, x := range bb.Instrs {
						ci, ok := x.(ssa.CallInstruction)
						if !ok || !isSort(ci) {
							continue
						}
						for _, a := range ci.Common().Args {
							for _, leaf := range core.Leaves(a, core.SliceOpts{}) {
								if leaf == st {
									sorted = true
								}
							}
							if ld, ok := a.(*ssa.UnOp); ok && ld.X == st {
								sorted = true
							}
							if mi, ok := a.(*ssa.MakeInterface); ok {
								if ld, ok := mi.X.(*ssa.UnOp); ok && ld.X == st {
									sorted = true
								}
								if ct, ok := mi.X.(*ssa.ChangeType); ok {
									if ld, ok := ct.X.(*ssa.UnOp); ok && ld.X == st {
										sorted = true
									}
								}
							}
						}
					}
				}
				if sorted {
					return true
				}
			}
		}
	}
	return false
}

// storeOfValue: the address the value is stored to, if it is stored to a local/field cell.
func storeOfValue(v ssa.Value) ssa.Value {
	if v.Referrers() == nil {
		return nil
	}
	for _, r := range *v.Referrers() {
		if st, ok := r.(*ssa.Store); ok && st.Val == v {
			return st.Addr
		}
	}
	return nil
}


// rangeName names a map range by the source text of the ranged expression
// (stable under SSA renumbering), falling back to the access path.
func rangeName(p *core.Program, rl rangeLoop) string {
	pos := rl.rng.Pos()
	if pos.IsValid() {
		for _, pk := range p.All {
			if pk.Fset == nil || len(pk.Syntax) == 0 {
				continue
			}
			file := p.FileOf(pk, pos)
			if file == nil {
				continue
			}
			text := ""
			ast.Inspect(file, func(n ast.Node) bool {
				if rs, ok := n.(*ast.RangeStmt); ok && (rs.For == pos || rs.Pos() == pos) {
					text = types.ExprString(rs.X)
					return false
				}
				return text == ""
			})
			if text != "" {
				return text
			}
		}
	}
	return shortExpr(rl.rng.X)
}

var posSuffix = regexp.MustCompile(` at [A-Za-z0-9_./\-]+\.go:[0-9]+`)
var workListIn = regexp.MustCompile(`^work-list loop \[[^\]]*\]: `)
var posParen = regexp.MustCompile(`\([A-Za-z0-9_./\-]+\.go:[0-9]+\)`)

// effectSig: the reasons of a map-range report with positions removed and
// sorted: what the loop body does, independent of names and line numbers.
func effectSig(reasons []string) string {
	var out []string
	for _, r := range reasons {
		r = posSuffix.ReplaceAllString(r, "")
		r = workListIn.ReplaceAllString(r, "work-list loop: ")
		r = posParen.ReplaceAllString(r, "")
		out = append(out, strings.TrimSpace(r))
	}
	sort.Strings(out)
	return strings.Join(out, "; ")
}

// isPickAny: the loop body only removes the current key from the ranged map
// and returns — "take any element of the map". Whether the choice matters is
// decided at the call sites (classifyMapRange).
func isPickAny(rl rangeLoop) bool {
	hdr := rl.next.Block()
	sawReturn := false
	for b := range rl.body {
		for _, s := range b.Succs {
			if s == hdr {
				return false // the body iterates
			}
		}
		for _, in := range b.Instrs {
			switch x := in.(type) {
			case *ssa.Return:
				sawReturn = true
			case *ssa.Extract, *ssa.Jump, *ssa.If, *ssa.DebugRef, *ssa.MakeInterface, *ssa.RunDefers, *ssa.Phi, *ssa.BinOp, *ssa.UnOp, *ssa.ChangeType, *ssa.Convert:
			case *ssa.Store:
				if _, ok := x.Addr.(*ssa.Alloc); !ok {
					return false
				}
			case ssa.CallInstruction:
				bi, ok := x.Common().Value.(*ssa.Builtin)
				if !ok || (bi.Name() != "delete" && bi.Name() != "len") {
					return false
				}
				if bi.Name() == "delete" && (x.Common().Args[0] != rl.rng.X || x.Common().Args[1] != rl.key) {
					// delete on the same map value (possibly re-loaded): compare access paths
					a, b2 := core.AccessOf(x.Common().Args[0]), core.AccessOf(rl.rng.X)
					if a.Root != b2.Root || strings.Join(a.Fields, ".") != strings.Join(b2.Fields, ".") {
						return false
					}
				}
			default:
				return false
			}
		}
	}
	return sawReturn
}

// pickAnyCallSites: the calls of the pick-any function g (a named function or a
// closure bound in its parent).
func pickAnyCallSites(p *core.Program, g *ssa.Function) []ssa.CallInstruction {
	var out []ssa.CallInstruction
	scan := func(f *ssa.Function) {
		for _, b := range f.Blocks {
			for _, in := range b.Instrs {
				ci, ok := in.(ssa.CallInstruction)
				if !ok {
					continue
				}
				if ci.Common().StaticCallee() == g {
					out = append(out, ci)
					continue
				}
				if ci.Common().StaticCallee() == nil && !ci.Common().IsInvoke() {
					for _, leaf := range core.Leaves(ci.Common().Value, core.SliceOpts{}) {
						if mc, ok := leaf.(*ssa.MakeClosure); ok && mc.Fn == ssa.Value(g) {
							out = append(out, ci)
						}
					}
				}
			}
		}
	}
	if g.Parent() != nil {
		scan(g.Parent())
		return out
	}
	if g.Pkg != nil {
		for _, m := range g.Pkg.Members {
			if f, ok := m.(*ssa.Function); ok {
				scan(f)
				for _, an := range f.AnonFuncs {
					scan(an)
				}
			}
			if t, ok := m.(*ssa.Type); ok {
				for _, recv := range []types.Type{t.Type(), types.NewPointer(t.Type())} {
					ms := p.SSA.MethodSets.MethodSet(recv)
					for i := 0; i < ms.Len(); i++ {
						if f := p.SSA.MethodValue(ms.At(i)); f != nil && f.Pkg == g.Pkg {
							scan(f)
							for _, an := range f.AnonFuncs {
								scan(an)
							}
						}
					}
				}
			}
		}
	}
	// a method may be scanned through both receiver forms
	seen := map[ssa.CallInstruction]bool{}
	var uniq []ssa.CallInstruction
	for _, c := range out {
		if !seen[c] {
			seen[c] = true
			uniq = append(uniq, c)
		}
	}
	return uniq
}

// classifyMapRange returns the reasons why the iteration order of the map
// range could become visible (empty = order-insensitive). A "take any element"
// helper is judged by the loops that call it: a work list whose processing step
// only performs order-free effects reaches the same fixed point in any order.
func classifyMapRange(p *core.Program, rl rangeLoop) []string {
	var real []string
	judge := func(l rangeLoop, prefix string) {
		for _, rs := range orderSensitive(p, l) {
			if strings.HasPrefix(rs, "append:") {
				if appendIsSortedLater(l, rs, p) {
					continue
				}
				real = append(real, prefix+"appends to a slice that is not sorted afterwards ("+strings.TrimPrefix(rs, "append:")+")")
				continue
			}
			real = append(real, prefix+rs)
		}
	}
	if isPickAny(rl) {
		sites := pickAnyCallSites(p, rl.fn)
		if len(sites) == 0 {
			real = append(real, "takes an arbitrary element of the map and no call site was found to judge its use")
		}
		for _, cs := range sites {
			lp, ok := core.InnermostLoop(cs.Block())
			if !ok {
				real = append(real, "an arbitrary element of the map is taken outside a work-list loop at "+p.Pos(cs.Pos()))
				continue
			}
			judge(rangeLoop{fn: cs.Parent(), rng: rl.rng, next: rl.next, body: lp.Blocks}, "work-list loop ["+core.FuncName(cs.Parent())+"]: ")
		}
		return real
	}
	judge(rl, "")
	return real
}

func checkMapRanges(c *Ctx, reach *core.Reach) {
	p, r := c.P, c.R
	var fns []*ssa.Function
	for f := range reach.Funcs {
		fns = append(fns, f)
	}
	sort.Slice(fns, func(i, j int) bool { return fns[i].String() < fns[j].String() })
	n := 0
	perKey := map[string]int{}
	for _, f := range fns {
		if pk := core.FuncPkgPath(f); pk == core.ConsulModulePrefix+"/api" || strings.HasSuffix(pk, "/lib/netutil") {
			continue // reached only through the ambient chain reported by C01.2 (HTTP client code)
		}
		for _, rl := range mapRangesIn(f) {
			n++
			base := core.FuncName(f) + "/range " + rangeName(p, rl)
			perKey[base]++
			construct := base
			if perKey[base] > 1 {
				construct = fmt.Sprintf("%s#%d", base, perKey[base])
			}
			pos := p.Pos(rl.rng.Pos())
			if !rl.rng.Pos().IsValid() {
				pos = p.FuncPos(f)
			}
			real := classifyMapRange(p, rl)
			if len(real) == 0 {
				r.Hold("C01.4", construct, pos, "loop body is order-insensitive (map/set updates, accumulators, sorted appends, per-element updates, work-list pops with order-free processing)")
			} else {
				r.Add(core.Obligation{Rule: "C01.4", Construct: construct, Pos: pos, Decision: core.Violated, Sig: effectSig(real),
					Reason: "map iteration order can reach replicated state or a command result: " + strings.Join(real, "; "), Path: reach.PathTo(f)})
			}
		}
	}
	r.Analysed["map_ranges_reachable"] = n
	r.Floor("C01.4", 30)
	// call sites of lib/maps.SliceOfKeys (keys in map order): sorted before use
	for _, f := range fns {
		for _, b := range f.Blocks {
			for _, in := range b.Instrs {
				call, ok := in.(*ssa.Call)
				if !ok {
					continue
				}
				g := call.Call.StaticCallee()
				if g == nil {
					continue
				}
				if o := g.Origin(); o != nil {
					g = o
				}
				if g.Name() != "SliceOfKeys" || !strings.HasSuffix(core.FuncPkgPath(g), "/lib/maps") {
					continue
				}
				construct := core.FuncName(f) + "/SliceOfKeys"
				sorted := false
				core.ForwardUses(call, func(u ssa.Instruction, _ ssa.Value) {
					if ci, ok := u.(ssa.CallInstruction); ok {
						pk := core.CalleePkgPath(ci.Common())
						nm := core.MethodNameOf(ci.Common())
						if (pk == "sort" || pk == "slices") && (strings.HasPrefix(nm, "S") || nm == "Strings") {
							sorted = true
						}
						if nm == "Sort" || nm == "SortStable" {
							sorted = true
						}
					}
				})
				if sorted {
					r.Hold("C01.4.keys", construct, p.Pos(in.Pos()), "keys of a map are sorted before use")
				} else {
					r.Violate("C01.4.keys", construct, p.Pos(in.Pos()), "the keys of a map are used in iteration order (maps.SliceOfKeys without a sort): a command result or stored value can differ between replicas", reach.PathTo(f)...)
				}
			}
		}
	}
}

func shortExpr(v ssa.Value) string {
	a := core.AccessOf(v)
	name := "?"
	if a.Root != nil {
		name = a.Root.Name()
		if call, ok := a.Root.(*ssa.Call); ok {
			name = core.MethodNameOf(&call.Call) + "()"
		}
	}
	if len(a.Fields) > 0 {
		name += "." + strings.Join(a.Fields, ".")
	}
	return name
}
