package rules

import (
	"fmt"
	"go/constant"
	"go/token"
	"go/types"
	"os"
	"strings"

	"golang.org/x/tools/go/ssa"

	"verifcheck/internal/core"
)

func init() {
	register(&Rule{ID: "C04", Patterns: []string{"./agent/consul/state", "./agent/consul/fsm", "./agent/consul"}, Run: runC04})
}

const (
	tblSessionChecks = "session_checks"
	tblPreparedQ     = "prepared-queries"
	tblNodes         = "nodes"
	tblChecks        = "checks"
)

// readsTable: g (transitively, bounded) reads table (optionally through index).
func readsTable(p *core.Program, g *ssa.Function, table, index string, depth int) bool {
	if g == nil || g.Blocks == nil {
		return false
	}
	depth = 1 << 20
	key := fmt.Sprintf("readsTable:%s:%s:%s", table, index, g.String())
	if v, ok := p.MemoGet(key); ok {
		return v.(bool)
	}
	p.MemoSet(key, false)
	res := false
	for _, b := range g.Blocks {
		for _, in := range b.Instrs {
			if op := core.AsMemdbOp(in); op != nil {
				if op.IsRead() && op.TableKnown && op.Table == table && (index == "" || (op.IndexKnown && op.Index == index)) {
					res = true
				}
				continue
			}
			if ci, ok := in.(ssa.CallInstruction); ok {
				if h := ci.Common().StaticCallee(); h != nil && h.Pkg != nil && core.IsConsul(h.Pkg.Pkg.Path()) {
					if readsTable(p, h, table, index, depth-1) {
						res = true
					}
				}
			}
		}
	}
	p.MemoSet(key, res)
	return res
}

// deletesFrom: g (transitively) deletes rows of table.
func deletesFrom(p *core.Program, g *ssa.Function, table string, depth int) bool {
	if g == nil || g.Blocks == nil {
		return false
	}
	depth = 1 << 20
	key := fmt.Sprintf("deletesFrom:%s:%s", table, g.String())
	if v, ok := p.MemoGet(key); ok {
		return v.(bool)
	}
	p.MemoSet(key, false)
	res := false
	for _, b := range g.Blocks {
		for _, in := range b.Instrs {
			if op := core.AsMemdbOp(in); op != nil {
				if (op.Op == "Delete" || op.Op == "DeleteAll" || op.Op == "DeletePrefix") && op.TableKnown && op.Table == table {
					res = true
				}
				if op.Op != "Commit" {
					continue
				}
			}
			if ci, ok := in.(ssa.CallInstruction); ok {
				if h := ci.Common().StaticCallee(); h != nil && h.Pkg != nil && core.IsConsul(h.Pkg.Pkg.Path()) {
					if deletesFrom(p, h, table, depth-1) {
						res = true
					}
				}
			}
		}
	}
	p.MemoSet(key, res)
	return res
}

// invalidatorEffectsAfter: on every non-failing path from `from` to a return,
// the reads (kvs by session, session_checks by session, prepared queries by
// session) occur, and releasing writes that consume them exist downstream.
func invalidatorEffectsAfter(p *core.Program, from ssa.Instruction) (bool, string) {
	f := from.Parent()
	gen := func(in ssa.Instruction) []string {
		op := core.AsMemdbOp(in)
		if op == nil || !op.IsRead() || !op.TableKnown || !op.IndexKnown || op.Index != "session" {
			return nil
		}
		switch op.Table {
		case tblKVs:
			return []string{"read-kvs"}
		case tblSessionChecks:
			return []string{"read-links"}
		case tblPreparedQ:
			return []string{"read-queries"}
		}
		return nil
	}
	mf := &core.MustFlow{F: f, Start: from, Gen: gen}
	mf.Run()
	any := false
	for _, rt := range core.Returns(f) {
		if core.ClassifyReturn(rt) == core.RetFailure {
			continue
		}
		set, reach := mf.At(rt)
		if !reach {
			continue
		}
		any = true
		for _, want := range []string{"read-kvs", "read-links", "read-queries"} {
			if !set[want] {
				return false, "a successful return at " + p.Pos(rt.Pos()) + " is reachable without " + want
			}
		}
	}
	if !any {
		return false, "no successful return after the session delete"
	}
	// releasing writes downstream of the reads
	var hasRelease, hasKVDelete, hasLinkDelete, hasQueryDelete bool
	w := &core.Walk{Visit: func(in ssa.Instruction) {
		if op := core.AsMemdbOp(in); op != nil {
			if op.Op == "Delete" && op.TableKnown && op.Table == tblSessionChecks {
				hasLinkDelete = true
			}
			return
		}
		ci, ok := in.(ssa.CallInstruction)
		if !ok {
			return
		}
		g := ci.Common().StaticCallee()
		if g == nil {
			return
		}
		if insertsInto(p, g, tblKVs, 3) {
			// the entry handed over must have its Session cleared
			for _, a := range ci.Common().Args {
				for _, fs := range storesToFieldsOf(f, a) {
					if fs.field == "Session" {
						if s, ok := core.ConstString(fs.st.Val); ok && s == "" {
							hasRelease = true
						}
					}
				}
			}
		}
		if deletesFrom(p, g, tblKVs, 3) {
			hasKVDelete = true
		}
		if deletesFrom(p, g, tblPreparedQ, 3) {
			hasQueryDelete = true
		}
		if deletesFrom(p, g, tblSessionChecks, 2) {
			hasLinkDelete = true
		}
	}}
	w.FromInstr(from)
	switch {
	case !hasRelease:
		return false, "no kvs rewrite with Session cleared follows the session delete (release behaviour)"
	case !hasKVDelete:
		return false, "no kvs delete follows the session delete (delete behaviour)"
	case !hasLinkDelete:
		return false, "session_checks rows of the session are not deleted"
	case !hasQueryDelete:
		return false, "session-bound prepared queries are not deleted"
	}
	return true, "keys released or deleted, check links and session-bound queries removed on every successful path in " + core.FuncName(f)
}

func runC04(c *Ctx) {
	p, r := c.P, c.R
	r.Clauses = []string{
		"C04.1 every call chain that removes a sessions row passes through an invalidator: a function in which, on every successful path after the row delete, the keys held (kvs by session index) are rewritten with the holder cleared or deleted, the session_checks links and the session-bound prepared queries are deleted",
		"C04.2 deleting a node row, deleting a check row and storing a critical check each look up the linked sessions on every successful local-peer path and hand them to the invalidator",
		"C04.3 a lock is taken only below a successful session lookup and below the edges row-absent / unheld / held-by-the-same-session; it is released on request only below holder == requester",
		"C04.6 every memdb index over a field holding a session ID is a UUID (case-folding) indexer, in agreement with the session lookup",
		"C04.5 the invalidator collects every row its by-session lookups yield (keys, check links, prepared queries): no filter between the iteration and the release/delete loop",
		"C04.4 TTL expiry destroys sessions through the replicated log: a SessionDestroy request handed to raftApply, no direct store write from the TTL code",
	}
	r.NotDecided = []string{"the invariant over all reachable states (at most one holder, only live sessions) for every history", "client-side lock behaviour (api/lock.go)"}

	// ---- C04.1
	sites, _ := stateWriteSites(p)
	invalidators := map[*ssa.Function]bool{}
	var decide func(from ssa.Instruction, frames int, seen map[*ssa.Function]bool) (bool, string, []string)
	decide = func(from ssa.Instruction, frames int, seen map[*ssa.Function]bool) (bool, string, []string) {
		f := from.Parent()
		if ok, why := invalidatorEffectsAfter(p, from); ok {
			invalidators[f] = true
			return true, why, nil
		} else if frames == 0 {
			return false, why, nil
		} else {
			if os.Getenv("VERIF_DEBUG") != "" {
				fmt.Printf("debug C04.1: %s is not an invalidator: %s\n", core.FuncName(f), why)
			}
			callers := callersOf(p, f, statePkg)
			var live []ssa.CallInstruction
			for _, ci := range callers {
				if !isRestoreMethod(ci.Parent()) {
					live = append(live, ci)
				}
			}
			if len(live) == 0 {
				return false, fmt.Sprintf("%s removes a session row without releasing what the session held (%s) and has no caller that does", core.FuncName(f), why), nil
			}
			if seen[f] {
				return false, "recursive", nil
			}
			seen[f] = true
			defer delete(seen, f)
			for _, ci := range live {
				ok, w2, path := decide(ci, frames-1, seen)
				if !ok {
					return false, w2, append([]string{core.FuncName(ci.Parent()) + " at " + p.Pos(ci.Pos())}, path...)
				}
			}
			return true, "every caller of " + core.FuncName(f) + " is (below) an invalidator", nil
		}
	}
	n := 0
	for _, s := range sites {
		if s.op.Table != tblSessions || s.op.Op == "Insert" || isRestoreMethod(s.fn) {
			continue
		}
		n++
		construct := core.FuncName(s.fn) + "/" + s.op.Op + ":sessions"
		ok, why, path := decide(s.op.Instr, 4, map[*ssa.Function]bool{})
		if ok {
			r.Hold("C04.1", construct, p.Pos(s.op.Instr.Pos()), why)
		} else {
			r.Violate("C04.1", construct, p.Pos(s.op.Instr.Pos()), "a session can be removed without releasing its locks, check links and queries: "+why, path...)
		}
	}
	r.Floor("C04.1", 1)
	if len(invalidators) == 0 {
		r.MissingInstance("C04.1", "<invalidator>", "no function has the invalidator effects")
	}
	var invNames []string
	for f := range invalidators {
		invNames = append(invNames, core.FuncName(f))
	}
	r.Analysed["invalidators"] = invNames

	// ---- C04.5 the invalidator collects every row its lookups yield (no filter between the
	// session-index iteration and the release/delete loop)
	nColl := 0
	for f := range invalidators {
		for _, b := range f.Blocks {
			for _, in := range b.Instrs {
				phi, ok := in.(*ssa.Phi)
				if !ok {
					continue
				}
				if _, isSlice := phi.Type().Underlying().(*types.Slice); !isSlice {
					continue
				}
				back, isHeader := isLoopHeaderPhi(phi)
				if !isHeader {
					continue
				}
				// a collector: the carried value is an append, and the loop draws rows from an iterator
				appends := false
				for _, i := range back {
					for _, leaf := range core.Leaves(phi.Edges[i], core.SliceOpts{StopAt: func(v ssa.Value) bool { return v == ssa.Value(phi) }}) {
						_ = leaf
					}
					if c, ok := appendRoot(phi.Edges[i], phi, 0); ok && c {
						appends = true
					}
				}
				hasNext := false
				for _, bb := range f.Blocks {
					if !phi.Block().Dominates(bb) {
						continue
					}
					for _, x := range bb.Instrs {
						if ci, ok := x.(ssa.CallInstruction); ok && ci.Common().IsInvoke() && ci.Common().Method.Name() == "Next" {
							hasNext = true
						}
					}
				}
				if !appends || !hasNext {
					continue
				}
				nColl++
				construct := fmt.Sprintf("%s/collector#%d", core.FuncName(f), nColl)
				skipped := false
				for _, i := range back {
					if carriesUnchanged(phi.Edges[i], phi, map[ssa.Value]bool{}) {
						skipped = true
					}
				}
				if skipped {
					r.Violate("C04.5", construct, p.Pos(firstPos(phi.Block())), "the invalidator skips some of the rows its session-index lookup yields (the collecting append is conditional): what those rows record as held by the session — locked keys, check links, queries — survives the session")
				} else {
					r.Hold("C04.5", construct, p.Pos(firstPos(phi.Block())), "every row of the lookup is collected")
				}
			}
		}
	}
	r.Floor("C04.5", 3)

	// ---- C04.6 indexes over session IDs fold letter case like the session lookup itself
	nIdx := 0
	for _, f := range p.SrcFuncs(statePkg) {
		for _, b := range f.Blocks {
			for _, in := range b.Instrs {
				st, ok := in.(*ssa.Store)
				if !ok {
					continue
				}
				fa, ok := st.Addr.(*ssa.FieldAddr)
				if !ok || core.FieldObj(fa).Name() != "Field" {
					continue
				}
				if v, ok := core.ConstString(st.Val); !ok || v != "Session" {
					continue
				}
				nt := core.NamedOf(fa.X.Type())
				if nt == nil {
					continue
				}
				nIdx++
				construct := core.FuncName(f) + "/index on Session"
				if nt.Obj().Name() == "UUIDFieldIndex" {
					r.Hold("C04.6", construct, p.Pos(st.Pos()), "UUID indexer (case-insensitive), like the session table's own lookup")
				} else {
					r.Violate("C04.6", construct, p.Pos(st.Pos()), "the index from session ID to what the session holds uses "+nt.Obj().Name()+", which is case-sensitive, while sessions are looked up case-insensitively and the holder is stored as the client spelled it: a key locked under another spelling of the ID is not found when the session ends and stays locked by a session that no longer exists")
				}
			}
		}
	}
	if nIdx < 2 {
		r.MissingInstance("C04.6", "<session indexes>", fmt.Sprintf("only %d indexes over a Session field found", nIdx))
	}

	// ---- C04.7 an index the state store ranges over (Get + iteration: many rows per key) is not
	// declared Unique. go-memdb keeps ONE row per key of a unique index: with Unique set on the
	// kvs "session" index a session's second lock replaces the first in the index, and ending the
	// session releases only the last key it locked.
	type idxDecl struct {
		name    string
		unique  bool
		pos     token.Pos
		fn      *ssa.Function
		hasName bool
	}
	decls := map[*ssa.Alloc]*idxDecl{}
	for _, f := range p.SrcFuncs(statePkg) {
		for _, b := range f.Blocks {
			for _, in := range b.Instrs {
				st, ok := in.(*ssa.Store)
				if !ok {
					continue
				}
				fa, ok := st.Addr.(*ssa.FieldAddr)
				if !ok {
					continue
				}
				nt := core.NamedOf(fa.X.Type())
				if nt == nil || nt.Obj().Name() != "IndexSchema" {
					continue
				}
				al, ok := fa.X.(*ssa.Alloc)
				if !ok {
					continue
				}
				d := decls[al]
				if d == nil {
					d = &idxDecl{fn: f, pos: st.Pos()}
					decls[al] = d
				}
				switch core.FieldObj(fa).Name() {
				case "Name":
					if v, ok := core.ConstString(st.Val); ok {
						d.name, d.hasName = v, true
					}
				case "Unique":
					if v, ok := core.ConstBool(st.Val); ok {
						d.unique = v
					}
				}
			}
		}
	}
	// which schema function declares which table: the Name store into a TableSchema in the same function
	tableOfFn := map[*ssa.Function]string{}
	for _, f := range p.SrcFuncs(statePkg) {
		for _, b := range f.Blocks {
			for _, in := range b.Instrs {
				if st, ok := in.(*ssa.Store); ok {
					if fa, ok := st.Addr.(*ssa.FieldAddr); ok && core.FieldObj(fa).Name() == "Name" {
						if nt := core.NamedOf(fa.X.Type()); nt != nil && nt.Obj().Name() == "TableSchema" {
							if v, ok := core.ConstString(st.Val); ok {
								tableOfFn[f] = v
							}
						}
					}
				}
			}
		}
	}
	ranged := map[string]token.Pos{} // table/index → a Get whose iterator is walked in a loop
	for _, f := range p.SrcFuncs(statePkg) {
		for _, b := range f.Blocks {
			for _, in := range b.Instrs {
				op := core.AsMemdbOp(in)
				if op == nil || op.Op != "Get" || !op.TableKnown || !op.IndexKnown || op.Index == "id" || strings.HasSuffix(op.Index, "_prefix") {
					continue
				}
				v, ok := in.(ssa.Value)
				if !ok {
					continue
				}
				walked := false
				core.ForwardUses(v, func(u ssa.Instruction, _ ssa.Value) {
					if ci, ok := u.(ssa.CallInstruction); ok && ci.Common().IsInvoke() && ci.Common().Method.Name() == "Next" {
						if _, inLoop := core.InnermostLoop(u.Block()); inLoop {
							walked = true
						}
					}
				})
				if walked {
					ranged[op.Table+"/"+op.Index] = in.Pos()
				}
			}
		}
	}
	nUniq := 0
	for _, d := range decls {
		tbl := tableOfFn[d.fn]
		if !d.hasName || tbl == "" {
			continue
		}
		key := tbl + "/" + d.name
		at, isRanged := ranged[key]
		if !isRanged {
			continue
		}
		nUniq++
		construct := "schema:" + key
		if d.unique {
			r.Violate("C04.7", construct, p.Pos(d.pos), "index "+d.name+" of table "+tbl+" is declared Unique but the store walks all rows of one key through it (at "+p.Pos(at)+"): go-memdb keeps a single row per key of a unique index, so every row but the last written is invisible to that walk — for the kvs session index, ending a session releases only the last key it locked")
		} else {
			r.Hold("C04.7", construct, p.Pos(d.pos), "non-unique index, walked for all rows of a key")
		}
	}
	r.Floor("C04.7", 10)
	_ = nUniq

	// ---- C04.2 cascades
	isInvalidatorCall := func(in ssa.Instruction) bool {
		ci, ok := in.(ssa.CallInstruction)
		if !ok {
			return false
		}
		g := ci.Common().StaticCallee()
		return g != nil && invalidators[g]
	}
	isSessionLookup := func(in ssa.Instruction) bool {
		ci, ok := in.(ssa.CallInstruction)
		if !ok {
			return false
		}
		if op := core.AsMemdbOp(in); op != nil {
			return op.IsRead() && op.TableKnown && (op.Table == tblSessions || op.Table == tblSessionChecks)
		}
		g := ci.Common().StaticCallee()
		if g == nil || g.Pkg == nil || !core.IsConsul(g.Pkg.Pkg.Path()) || mayWrite(p, g) {
			return false
		}
		return readsTable(p, g, tblSessions, "", 3) || readsTable(p, g, tblSessionChecks, "", 3)
	}
	// edges on which a string value whose name mentions "peer" is non-empty (remote peer: no local sessions)
	peerNonEmptyEdges := func(f *ssa.Function) map[core.Edge]bool {
		m := map[core.Edge]bool{}
		for _, b := range f.Blocks {
			for _, in := range b.Instrs {
				cmp, ok := in.(*ssa.BinOp)
				if !ok || (cmp.Op != token.EQL && cmp.Op != token.NEQ) {
					continue
				}
				var other ssa.Value
				if s, ok := core.ConstString(cmp.Y); ok && s == "" {
					other = cmp.X
				} else if s, ok := core.ConstString(cmp.X); ok && s == "" {
					other = cmp.Y
				}
				if other == nil {
					continue
				}
				isPeer := false
				if prm, ok := other.(*ssa.Parameter); ok && strings.Contains(strings.ToLower(prm.Name()), "peer") {
					isPeer = true
				}
				if a := core.AccessOf(other); a.LastField() == "PeerName" {
					isPeer = true
				}
				if !isPeer {
					continue
				}
				te, fe := core.CondEdges(cmp)
				ne := fe
				if cmp.Op == token.NEQ {
					ne = te
				}
				for _, e := range ne {
					m[e] = true
				}
			}
		}
		return m
	}
	criticalFalseEdges := func(f *ssa.Function) (map[core.Edge]bool, int) {
		m := map[core.Edge]bool{}
		n := 0
		for _, b := range f.Blocks {
			for _, in := range b.Instrs {
				cmp, ok := in.(*ssa.BinOp)
				if !ok || (cmp.Op != token.EQL && cmp.Op != token.NEQ) {
					continue
				}
				var other ssa.Value
				if s, ok := core.ConstString(cmp.Y); ok && s == "critical" {
					other = cmp.X
				} else if s, ok := core.ConstString(cmp.X); ok && s == "critical" {
					other = cmp.Y
				}
				if other == nil || core.AccessOf(other).LastField() != "Status" {
					continue
				}
				te, fe := core.CondEdges(cmp)
				if len(te) == 0 {
					continue
				}
				n++
				notCrit := fe
				if cmp.Op == token.NEQ {
					notCrit = te
				}
				for _, e := range notCrit {
					m[e] = true
				}
			}
		}
		return m, n
	}
	// cascadeBad: "" when, from start (or the entry), every successful local-peer path looks the
	// linked sessions up and an invalidator call is fed by the lookup. A callee of the package that
	// satisfies this from its own entry (a helper such as deleteCheckSessionsTxn extracted from the
	// two cascading sites) counts as lookup + invalidation at its call site.
	var cascadeBad func(f *ssa.Function, start ssa.Instruction, extraCut map[core.Edge]bool, depth int) string
	helperMemo := map[*ssa.Function]bool{}
	isCascadeHelper := func(in ssa.Instruction, depth int) bool {
		ci, ok := in.(ssa.CallInstruction)
		if !ok || depth <= 0 {
			return false
		}
		if _, isDefer := in.(*ssa.Defer); isDefer {
			return false
		}
		g := ci.Common().StaticCallee()
		if g == nil || g.Pkg == nil || len(g.Blocks) == 0 || !core.IsConsul(g.Pkg.Pkg.Path()) || invalidators[g] {
			return false
		}
		if v, ok := helperMemo[g]; ok {
			return v
		}
		helperMemo[g] = false // recursion guard
		v := cascadeBad(g, nil, nil, depth-1) == ""
		helperMemo[g] = v
		return v
	}
	cascadeBad = func(f *ssa.Function, start ssa.Instruction, extraCut map[core.Edge]bool, depth int) string {
		peer := peerNonEmptyEdges(f)
		mf := &core.MustFlow{F: f, Start: start,
			Gen: func(in ssa.Instruction) []string {
				if isSessionLookup(in) || isCascadeHelper(in, depth) {
					return []string{"lookup"}
				}
				return nil
			},
			Cut: func(b *ssa.BasicBlock, si int) bool {
				e := core.Edge{From: b, Succ: si}
				return peer[e] || extraCut[e]
			}}
		mf.Run()
		bad := ""
		any := false
		for _, rt := range core.Returns(f) {
			if core.ClassifyReturn(rt) == core.RetFailure {
				continue
			}
			set, reach := mf.At(rt)
			if !reach {
				continue
			}
			any = true
			if !set["lookup"] {
				bad = "a successful local-peer path reaches the return at " + p.Pos(rt.Pos()) + " without looking up the linked sessions"
			}
		}
		if !any && bad == "" {
			bad = "no successful return reachable"
		}
		// an invalidator call fed by the lookup
		fed := false
		for _, b := range f.Blocks {
			for _, in := range b.Instrs {
				if isCascadeHelper(in, depth) {
					fed = true
				}
				if !isInvalidatorCall(in) {
					continue
				}
				for _, a := range in.(ssa.CallInstruction).Common().Args {
					for _, leaf := range core.Leaves(a, core.SliceOpts{}) {
						if li, ok := leaf.(ssa.Instruction); ok && isSessionLookup(li) {
							fed = true
						}
					}
				}
			}
		}
		if bad == "" && !fed {
			bad = "no call to the session invalidator is fed by the linked-session lookup"
		}
		return bad
	}
	checkCascade := func(rule, construct string, f *ssa.Function, start ssa.Instruction, extraCut map[core.Edge]bool) {
		pos := p.FuncPos(f)
		if start != nil {
			pos = p.Pos(start.Pos())
		}
		if bad := cascadeBad(f, start, extraCut, 2); bad != "" {
			r.Violate(rule, construct, pos, bad)
		} else {
			r.Hold(rule, construct, pos, "linked sessions are looked up on every successful local path and handed to the invalidator")
		}
	}
	for _, s := range sites {
		if isRestoreMethod(s.fn) || s.op.Op != "Delete" {
			continue
		}
		switch s.op.Table {
		case tblNodes:
			checkCascade("C04.2.node", core.FuncName(s.fn)+"/Delete:nodes", s.fn, s.op.Instr, nil)
		case tblChecks:
			checkCascade("C04.2.check", core.FuncName(s.fn)+"/Delete:checks", s.fn, s.op.Instr, nil)
		}
	}
	r.Floor("C04.2.node", 1)
	r.Floor("C04.2.check", 1)
	// critical status: functions in state that (transitively) insert into checks and test Status == critical
	for _, f := range p.SrcFuncs(statePkg) {
		if f.Parent() != nil || isRestoreMethod(f) {
			continue
		}
		inserts := false
		for _, b := range f.Blocks {
			for _, in := range b.Instrs {
				if ci, ok := in.(ssa.CallInstruction); ok {
					if op := core.AsMemdbOp(in); op != nil {
						if op.Op == "Insert" && op.TableKnown && op.Table == tblChecks {
							inserts = true
						}
						continue
					}
					if g := ci.Common().StaticCallee(); g != nil && g.Pkg == f.Pkg && insertsInto(p, g, tblChecks, 1) && len(rowReads(f, tblChecks)) > 0 {
						inserts = true
					}
				}
			}
		}
		if !inserts {
			continue
		}
		cut, n := criticalFalseEdges(f)
		if n == 0 {
			continue
		}
		checkCascade("C04.2.critical", core.FuncName(f)+"/critical-status", f, nil, cut)
	}
	r.Floor("C04.2.critical", 1)

	// ---- C04.3 acquisition / release guards
	for _, f := range p.SrcFuncs(statePkg) {
		if f.Parent() != nil || isRestoreMethod(f) {
			continue
		}
		rows := rowReads(f, tblKVs)
		if len(rows) == 0 {
			continue
		}
		aliases := aliasesOf(f, rows)
		for _, ki := range kvInsertsIn(p, f) {
			ci, ok := ki.instr.(ssa.CallInstruction)
			if !ok {
				continue
			}
			g := ci.Common().StaticCallee()
			if g == nil {
				continue
			}
			// only calls that ask the callee to store the entry's own Session (constant true flag)
			flagTrue := false
			for i, prm := range g.Params {
				_ = prm
				if i < len(ci.Common().Args) {
					if v, ok := core.ConstBool(ci.Common().Args[i]); ok && v {
						flagTrue = true
					}
				}
			}
			entry := ki.obj
			if !flagTrue {
				continue
			}
			if _, isParam := entry.(*ssa.Parameter); !isParam {
				continue
			}
			construct := core.FuncName(f)
			pos := p.Pos(ki.instr.Pos())
			clears := false
			for _, fs := range storesToFieldsOf(f, entry) {
				if fs.field == "Session" {
					if s, ok := core.ConstString(fs.st.Val); ok && s == "" {
						clears = true
					}
				}
			}
			// comparison edges, of the function and of the predicates it calls (core.GuardEdges)
			isRowAlias := func(v ssa.Value) bool {
				if aliases[v] {
					return true
				}
				a := core.AccessOf(v)
				return len(a.Fields) == 0 && aliases[a.Root]
			}
			classify := func(cv core.CmpView) string {
				if cv.Op != token.EQL && cv.Op != token.NEQ {
					return ""
				}
				if (core.IsNilConst(cv.Y) && isRowAlias(cv.X)) || (core.IsNilConst(cv.X) && isRowAlias(cv.Y)) {
					return "absent"
				}
				cx, cy := classifyStored(cv.X, aliases, entry), classifyStored(cv.Y, aliases, entry)
				switch {
				case (cx == "row.Session" && cy == "self.Session") || (cy == "row.Session" && cx == "self.Session"):
					return "same"
				case (cx == "row.Session" && cy == `const:""`) || (cy == "row.Session" && cx == `const:""`):
					return "unheld"
				}
				return ""
			}
			nSame, nUnheld := 0, 0
			eqEdge := func(cv core.CmpView) (bool, bool) { return cv.Op == token.EQL, cv.Op == token.NEQ }
			sameHolder := core.GuardEdges(f, 2, func(cv core.CmpView) (bool, bool) {
				if classify(cv) == "same" {
					nSame++
					return eqEdge(cv)
				}
				return false, false
			})
			edges := core.GuardEdges(f, 2, func(cv core.CmpView) (bool, bool) {
				switch classify(cv) {
				case "same":
					return eqEdge(cv)
				case "unheld":
					nUnheld++
					return eqEdge(cv)
				case "absent":
					return eqEdge(cv)
				}
				return false, false
			})
			if clears {
				if core.CutMakesUnreachable(f, nil, sameHolder, ki.instr) && len(sameHolder) > 0 {
					r.Hold("C04.3.release", construct, pos, "the holder is cleared only below stored holder == requesting session")
				} else {
					r.Violate("C04.3.release", construct, pos, "the lock holder can be cleared on a path where the requester is not known to be the holder: any session can release another session's lock")
				}
				continue
			}
			okGuard := nSame > 0 && nUnheld > 0 && len(edges) > 0 && core.CutMakesUnreachable(f, nil, edges, ki.instr)
			okSession := sessionLookupNonNilAt(f, ki.instr.Block())
			switch {
			case !okSession:
				r.Violate("C04.3.acquire", construct, pos, "the lock is taken without a successful session lookup dominating it: a key can be held by a session that does not exist")
			case !okGuard:
				r.Violate("C04.3.acquire", construct, pos, "the lock can be taken on a path where the key is held by a different session: two sessions can hold the same lock")
			default:
				r.Hold("C04.3.acquire", construct, pos, "acquisition only below: session exists ∧ (key absent ∨ unheld ∨ held by the same session)")
			}
		}
	}
	r.Floor("C04.3.acquire", 1)
	r.Floor("C04.3.release", 1)

	// ---- C04.4 TTL
	checkSessionTTL(c)
}

func checkSessionTTL(c *Ctx) {
	p, r := c.P, c.R
	destroy := "destroy"
	if pk := p.Pkg("agent/structs"); pk != nil {
		if k, ok := pk.Types.Scope().Lookup("SessionDestroy").(*types.Const); ok {
			destroy = constant.StringVal(k.Val())
		}
	}
	n := 0
	for _, f := range p.SrcFuncs("agent/consul") {
		file := p.Fset.Position(f.Pos()).Filename
		inTTLFile := strings.HasSuffix(file, "session_ttl.go")
		// (a) builds a SessionRequest with Op destroy
		for _, b := range f.Blocks {
			for _, in := range b.Instrs {
				st, ok := in.(*ssa.Store)
				if !ok {
					continue
				}
				fa, ok := st.Addr.(*ssa.FieldAddr)
				if !ok || core.FieldObj(fa) == nil || core.FieldObj(fa).Name() != "Op" {
					continue
				}
				if nm := core.NamedOf(fa.X.Type()); nm == nil || nm.Obj().Name() != "SessionRequest" {
					continue
				}
				if s, ok := core.ConstString(st.Val); !ok || s != destroy {
					continue
				}
				if !inTTLFile {
					continue
				}
				n++
				// the request must reach a raftApply-like call
				applied := false
				core.ForwardUses(fa.X, func(u ssa.Instruction, _ ssa.Value) {
					if ci, ok := u.(ssa.CallInstruction); ok {
						nm := core.MethodNameOf(ci.Common())
						if strings.HasPrefix(nm, "raftApply") || nm == "leaderRaftApply" {
							applied = true
						}
					}
				})
				construct := core.FuncName(f) + "/SessionDestroy"
				if applied {
					r.Hold("C04.4", construct, p.Pos(st.Pos()), "expiry builds a SessionDestroy request and hands it to raftApply")
				} else {
					r.Violate("C04.4", construct, p.Pos(st.Pos()), "the SessionDestroy request built on TTL expiry does not reach raftApply")
				}
			}
		}
		if !inTTLFile {
			continue
		}
		// (b) no direct store write from the TTL code
		for _, b := range f.Blocks {
			for _, in := range b.Instrs {
				ci, ok := in.(ssa.CallInstruction)
				if !ok {
					continue
				}
				g := ci.Common().StaticCallee()
				if g == nil || g.Pkg == nil || g.Pkg.Pkg.Path() != core.ConsulModulePrefix+"/"+statePkg {
					continue
				}
				if mayWrite(p, g) {
					r.Violate("C04.4", core.FuncName(f)+"→"+core.FuncName(g), p.Pos(in.Pos()), "TTL code writes the state store directly instead of through the replicated log: followers never see the session end")
				}
			}
		}
	}
	r.Floor("C04.4", 1)
}

// appendRoot: v (a loop-carried slice) is produced by append calls rooted at
// the header phi h (possibly merged through non-header phis with h itself).
func appendRoot(v ssa.Value, h *ssa.Phi, depth int) (isAppend bool, ok bool) {
	if depth > 6 {
		return false, false
	}
	switch x := v.(type) {
	case *ssa.Call:
		if bi, isB := x.Call.Value.(*ssa.Builtin); isB && bi.Name() == "append" {
			return true, true
		}
		return false, true
	case *ssa.Phi:
		any := false
		for _, e := range x.Edges {
			if e == ssa.Value(h) {
				continue
			}
			if a, _ := appendRoot(e, h, depth+1); a {
				any = true
			}
		}
		return any, true
	}
	return false, true
}
