package rules

import (
	"fmt"
	"go/constant"
	"go/token"
	"go/types"
	"sort"
	"strings"

	"golang.org/x/tools/go/ssa"

	"verifcheck/internal/core"
)

func init() {
	register(&Rule{ID: "C10", Patterns: []string{"./agent/consul/state", "./agent/consul/fsm", "./agent/consul"}, Run: runC10})
}

// casSite is one comparison of a caller-supplied expected index with a stored one.
type casSite struct {
	fn     *ssa.Function
	cmp    *ssa.BinOp
	stored string // description of the stored side
	exp    ssa.Value // caller-supplied expected index
	row    ssa.Value // stored-side value (a field load from the row, a helper result, a table index)
}

func isUint(t types.Type) bool {
	b, ok := t.Underlying().(*types.Basic)
	return ok && b.Info()&types.IsInteger != 0
}

// rootIsParam: the access root is a non-receiver parameter.
func rootIsParam(a core.Access) bool {
	p, ok := a.Root.(*ssa.Parameter)
	if !ok {
		return false
	}
	f := p.Parent()
	if f.Signature.Recv() != nil && len(f.Params) > 0 && f.Params[0] == p {
		return false
	}
	return true
}

// rootIsStoredRow: the value is a ModifyIndex / IndexEntry.Value of something
// obtained from a call (memdb read or reader helper), or a maxIndex* result.
func storedSide(v ssa.Value) (string, bool) {
	a := core.AccessOf(v)
	root := a.Root
	if ex, ok := root.(*ssa.Extract); ok {
		root = ex.Tuple
	}
	call, ok := root.(*ssa.Call)
	if !ok {
		// a predicate split off a CAS function receives the stored row as a parameter
		// (func casIndexMatches(casIndex uint64, existing interface{}) bool): the row's ModifyIndex
		if prm, isParam := root.(*ssa.Parameter); isParam && !isUint(prm.Type()) && a.LastField() == "ModifyIndex" && len(a.Fields) <= 2 {
			f := prm.Parent()
			if f != nil && f.Signature.Results().Len() == 1 && isBoolT(f.Signature.Results().At(0).Type()) && f.Signature.Recv() == nil {
				return "ModifyIndex", true
			}
		}
		return "", false
	}
	name := core.MethodNameOf(&call.Call)
	if len(a.Fields) == 0 {
		if strings.HasPrefix(name, "maxIndex") {
			return "tableIndex", true
		}
		// a helper that returns the ModifyIndex of its argument
		if cf := call.Call.StaticCallee(); cf != nil && cf.Blocks != nil && cf.Pkg != nil && core.IsConsul(cf.Pkg.Pkg.Path()) {
			for _, rt := range core.Returns(cf) {
				if len(rt.Results) == 1 {
					ra := core.AccessOf(core.ResolveResult(rt, 0))
					if ra.LastField() == "ModifyIndex" {
						return "ModifyIndex", true
					}
				}
			}
		}
		return "", false
	}
	switch a.LastField() {
	case "ModifyIndex":
		return "ModifyIndex", true
	case "Value":
		// IndexEntry.Value
		return "IndexEntry.Value", true
	}
	return "", false
}

// cmpIsPredicateResult: f is a side-effect-free function with a single bool result and the
// comparison (possibly negated, possibly as one operand of a short-circuit) flows into that result.
func cmpIsPredicateResult(p *core.Program, f *ssa.Function, cmp *ssa.BinOp) bool {
	if f.Signature.Results().Len() != 1 || !isBoolT(f.Signature.Results().At(0).Type()) || mayWrite(p, f) {
		return false
	}
	reaches := false
	core.ForwardUses(cmp, func(u ssa.Instruction, _ ssa.Value) {
		if _, ok := u.(*ssa.Return); ok {
			reaches = true
		}
	})
	return reaches
}

func discoverCAS(p *core.Program) []casSite {
	var out []casSite
	for _, f := range p.SrcFuncs("agent/consul/state") {
		for _, b := range f.Blocks {
			for _, in := range b.Instrs {
				cmp, ok := in.(*ssa.BinOp)
				if !ok {
					continue
				}
				switch cmp.Op {
				case token.EQL, token.NEQ, token.LSS, token.GTR, token.LEQ, token.GEQ:
				default:
					continue
				}
				if !isUint(cmp.X.Type()) || !isUint(cmp.Y.Type()) {
					continue
				}
				for _, pair := range [][2]ssa.Value{{cmp.X, cmp.Y}, {cmp.Y, cmp.X}} {
					if _, isConst := pair[0].(*ssa.Const); isConst {
						continue
					}
					pa := core.AccessOf(pair[0])
					if !rootIsParam(pa) {
						continue
					}
					if desc, ok := storedSide(pair[1]); ok {
						exp := pa.Root.Name()
						if len(pa.Fields) > 0 {
							exp += "." + strings.Join(pa.Fields, ".")
						}
						out = append(out, casSite{fn: f, cmp: cmp, stored: exp + "~" + desc, exp: pair[0], row: pair[1]})
						break
					}
				}
			}
		}
	}
	return out
}

// tupleShape evaluates the results of ret under the facts holding at block fb.
type tupleShape struct {
	bools []core.Tri
	err   core.RetKind
	hasErr bool
}

func shapeOf(ret *ssa.Return, fb *ssa.BasicBlock) tupleShape {
	f := ret.Parent()
	var s tupleShape
	res := f.Signature.Results()
	for i := 0; i < res.Len(); i++ {
		v := core.ResolveResult(ret, i)
		t := res.At(i).Type()
		if core.IsErrorType(t) && i == res.Len()-1 {
			s.hasErr = true
			k := core.ErrKindOfValue(v, fb)
			if k == core.RetUnknown {
				k = core.ErrKindOfValue(v, ret.Block())
			}
			s.err = k
			continue
		}
		if b, ok := t.Underlying().(*types.Basic); ok && b.Kind() == types.Bool {
			tv := core.EvalBoolAt(v, fb)
			if tv == core.Unknown {
				tv = core.EvalBoolAt(v, ret.Block())
			}
			s.bools = append(s.bools, tv)
		}
	}
	return s
}

func (s tupleShape) String() string {
	var parts []string
	for _, b := range s.bools {
		parts = append(parts, [...]string{"bool?", "true", "false"}[b])
	}
	if s.hasErr {
		parts = append(parts, [...]string{"err?", "nil", "non-nil error"}[s.err])
	}
	return "(" + strings.Join(parts, ", ") + ")"
}

func runC10(c *Ctx) {
	p, r := c.P, c.R
	r.Clauses = []string{
		"C10.1 every compare-and-set function (discovered by data flow: a parameter-derived index compared with a stored ModifyIndex/index-table value) returns, on the mismatch edge, a tuple distinguishable from the applied one",
		"C10.8 the caller's expected index is compared with the stored one for equality, not by an ordering",
		"C10.7 the comparison is not optional: with its match edges removed no write is reachable, except below row-absent / expected-zero edges (C10.6) and the off-side of a boolean mode flag",
		"C10.2 every exported Store wrapper returning a bool reports true only on paths that passed Commit with a nil error and false only on paths that did not commit",
		"C10.3 the boolean of every CAS function/wrapper is consumed at every call site",
		"C10.4 the composite CA operation writes the config only below the act==true edge of the roots write",
		"C10.5 the leader converts a false reply of the composite CA apply into an error",
	}
	r.NotDecided = []string{
		"that the comparison is made against the current index for every pre-state",
		"atomicity of the two store transactions of CAOpSetRootsAndConfig (the code does not provide it; recorded as observation O2)",
		"that a failed write leaves all other indexes untouched (see C05)",
	}

	// ---- C10.1
	allSites := discoverCAS(p)
	var sites []casSite
	for _, s := range allSites {
		if s.cmp.Op == token.EQL || s.cmp.Op == token.NEQ {
			sites = append(sites, s)
			r.Hold("C10.8", core.FuncName(s.fn)+"/"+s.stored, p.Pos(s.cmp.Pos()), "the expected index is tested for equality")
			continue
		}
		// an ordering test between a caller-supplied expected index and the stored one
		if _, isSetter := isIndexSetter(p, s.fn); isSetter {
			continue // the max-merge index setter compares the raft index with the stored index by design (C06.W0)
		}
		r.Violate("C10.8", core.FuncName(s.fn)+"/"+s.stored, p.Pos(s.cmp.Pos()), "the caller's expected index is compared with the stored index by '"+s.cmp.Op.String()+"' instead of equality: a conditional write carrying an index the object never had (newer than the stored one) is applied and reported as applied")
	}
	r.Floor("C10.8", 19)
	r.Floor("C10.1", 19)
	r.Floor("C10.7", 19)
	casFuncs := map[*ssa.Function]bool{}
	var discovered []string
	for _, s := range sites {
		casFuncs[s.fn] = true
		name := core.FuncName(s.fn)
		discovered = append(discovered, name)
		te, fe := condEdgesOf(s.cmp)
		mism := te
		if s.cmp.Op == token.EQL {
			mism = fe
		}
		construct := name + "/" + s.stored
		pos := p.Pos(s.cmp.Pos())
		if len(mism) == 0 {
			if cmpIsPredicateResult(p, s.fn, s.cmp) {
				r.Hold("C10.1", construct, pos, "the comparison is the result of a side-effect-free predicate: a mismatch makes it report false (its call sites consume the result, C10.3)")
				continue
			}
			r.Undecide("C10.1", construct, pos, "the comparison does not feed a branch directly")
			continue
		}
		var worst *core.Obligation
		nret := 0
		for _, e := range mism {
			w := &core.Walk{}
			var rets []*ssa.Return
			w.Visit = func(in ssa.Instruction) {
				if rt, ok := in.(*ssa.Return); ok {
					rets = append(rets, rt)
				}
			}
			w.FromEdge(e.From, e.Succ)
			for _, rt := range rets {
				nret++
				sh := shapeOf(rt, e.From)
				applied := false
				undec := false
				allTrue := true
				for _, b := range sh.bools {
					if b == core.False {
						allTrue = false
					}
					if b == core.Unknown {
						undec = true
					}
				}
				switch {
				case sh.hasErr && sh.err == core.RetFailure:
				case len(sh.bools) > 0 && !allTrue:
				case sh.hasErr && sh.err == core.RetUnknown:
					undec = true
				case len(sh.bools) == 0 && !sh.hasErr:
					undec = true
				default:
					if !undec {
						applied = true
					}
				}
				if applied {
					o := core.Obligation{Rule: "C10.1", Construct: construct, Pos: pos, Decision: core.Violated,
						Reason: fmt.Sprintf("on the index-mismatch edge the function returns %s at %s, the same shape as an applied write: the caller cannot tell a skipped write from a performed one", sh, p.Pos(rt.Pos())),
						Path:   w.PathTo(p, rt.Block())}
					worst = &o
				} else if undec && worst == nil {
					o := core.Obligation{Rule: "C10.1", Construct: construct, Pos: pos, Decision: core.Undecided,
						Reason: fmt.Sprintf("cannot fold the tuple %s returned at %s on the mismatch edge", sh, p.Pos(rt.Pos()))}
					worst = &o
				}
			}
		}
		if worst != nil {
			r.Add(*worst)
		} else if nret == 0 {
			r.Undecide("C10.1", construct, pos, "no return reachable from the mismatch edge")
		} else {
			r.Hold("C10.1", construct, pos, fmt.Sprintf("%d return(s) reachable from the mismatch edge, none has the applied shape", nret))
		}
	}
	sort.Strings(discovered)
	r.Analysed["cas_functions"] = discovered

	// ---- C10.6: an absent row matches only the expected index zero. With the
	// edges "row is non-nil" and "expected == 0" removed, no write may remain
	// reachable from the function entry.
	for _, s := range sites {
		ra := core.AccessOf(s.row)
		if len(ra.Fields) == 0 || ra.LastField() != "ModifyIndex" {
			// table index / helper-folded comparison: absence is not a separate case (C10.7 only)
			checkAbsentRowNeedsZero(c, s, ra, true)
			continue
		}
		checkAbsentRowNeedsZero(c, s, ra, false)
	}
	r.Floor("C10.6", 10)

	// ---- C10.1b: inside a CAS function that reports a boolean, `true` is only
	// returned after a write on every path (no "applied" report from any of the
	// not-applicable edges: set-if-absent on an existing row, row missing, …).
	for f := range casFuncs {
		bi := boolResultIndex(f)
		if bi < 0 || f.Parent() != nil {
			continue
		}
		opensTxn := false
		mf := &core.MustFlow{F: f, Gen: func(in ssa.Instruction) []string {
			if op := core.AsMemdbOp(in); op != nil {
				if op.IsWrite() {
					return []string{"write"}
				}
				return nil
			}
			if ci, ok := in.(ssa.CallInstruction); ok {
				if g := ci.Common().StaticCallee(); g != nil && mayWrite(p, g) {
					return []string{"write"}
				}
			}
			return nil
		}}
		mf.Run()
		_ = opensTxn
		bad := ""
		n := 0
		for _, rt := range core.Returns(f) {
			bv := core.ResolveResult(rt, bi)
			if core.EvalBoolAt(bv, rt.Block()) != core.True {
				// `err == nil` of a Commit result counts as true-capable
				cmp, ok := bv.(*ssa.BinOp)
				if !(ok && cmp.Op == token.EQL && core.IsNilConst(cmp.Y)) {
					continue
				}
				if call, isCall := cmp.X.(*ssa.Call); !isCall || core.AsMemdbOp(call) == nil || core.AsMemdbOp(call).Op != "Commit" {
					continue
				}
			}
			n++
			must, reach := mf.At(rt)
			if reach && !must["write"] {
				bad = fmt.Sprintf("returns true at %s on a path that performed no write", p.Pos(rt.Pos()))
			}
		}
		name := core.FuncName(f)
		if bad != "" {
			r.Violate("C10.1b", name, p.FuncPos(f), bad)
		} else if n > 0 {
			r.Hold("C10.1b", name, p.FuncPos(f), fmt.Sprintf("%d true-returning exit(s), each preceded by a write on every path", n))
		}
	}
	r.Floor("C10.1b", 12)

	// ---- C10.2 wrappers
	var wrappers []*ssa.Function
	nWrapAll := 0
	for _, f := range p.SrcFuncs("agent/consul/state") {
		if f.Parent() != nil {
			continue
		}
		opens := false
		for _, b := range f.Blocks {
			for _, in := range b.Instrs {
				if ci, ok := in.(ssa.CallInstruction); ok {
					n := core.MethodNameOf(ci.Common())
					if n == "WriteTxn" || n == "WriteTxnRestore" {
						opens = true
					}
				}
			}
		}
		if !opens {
			continue
		}
		nWrapAll++
		if core.ErrResultIndex(f) < 0 {
			// e.g. TxnRW returns (TxnResults, TxnErrors): its commit discipline is rule C05.1
			continue
		}
		res := f.Signature.Results()
		hasBool := false
		for i := 0; i < res.Len(); i++ {
			if b, ok := res.At(i).Type().Underlying().(*types.Basic); ok && b.Kind() == types.Bool {
				hasBool = true
			}
		}
		if hasBool && core.ErrResultIndex(f) >= 0 {
			wrappers = append(wrappers, f)
		}
		checkWrapperCommit(c, f, hasBool)
	}
	r.Analysed["write_wrappers"] = nWrapAll
	r.Floor("C10.2", 70)

	// ---- C10.3 consumption of the boolean at call sites (state, fsm, consul)
	targets := map[*ssa.Function]bool{}
	for f := range casFuncs {
		if hasBoolResult(f) {
			targets[f] = true
		}
	}
	for _, f := range wrappers {
		targets[f] = true
	}
	nsites := 0
	for _, rel := range []string{"agent/consul/state", "agent/consul/fsm", "agent/consul"} {
		for _, f := range p.SrcFuncs(rel) {
			for _, b := range f.Blocks {
				for _, in := range b.Instrs {
					call, ok := in.(*ssa.Call)
					if !ok {
						continue
					}
					callee := call.Call.StaticCallee()
					if callee == nil || !targets[callee] {
						continue
					}
					nsites++
					construct := core.FuncName(f) + "→" + core.FuncName(callee)
					bi := boolResultIndex(callee)
					used := false
					if call.Referrers() != nil {
						// a single bool result (a predicate split off the CAS function) is the call value itself
						if callee.Signature.Results().Len() == 1 {
							core.ForwardUses(call, func(u ssa.Instruction, _ ssa.Value) {
								switch u.(type) {
								case *ssa.If, *ssa.Return, *ssa.Store, *ssa.MakeInterface, *ssa.Call:
									used = true
								}
							})
						}
						for _, rr := range *call.Referrers() {
							if ex, ok := rr.(*ssa.Extract); ok && ex.Index == bi {
								core.ForwardUses(ex, func(u ssa.Instruction, _ ssa.Value) {
									switch u.(type) {
									case *ssa.If, *ssa.Return, *ssa.Store, *ssa.MakeInterface, *ssa.Call:
										used = true
									}
								})
							}
							if _, ok := rr.(*ssa.Return); ok {
								used = true // tuple forwarded
							}
						}
					}
					if used {
						r.Hold("C10.3", construct, p.Pos(call.Pos()), "boolean result reaches a branch, a store or the caller's result")
					} else {
						r.Violate("C10.3", construct, p.Pos(call.Pos()), "the applied/not-applied boolean is dropped at this call site")
					}
				}
			}
		}
	}
	r.Floor("C10.3", 20)
	r.Analysed["cas_call_sites"] = nsites

	// ---- C10.4
	checkCompositeCA(c)
	// ---- C10.5
	checkLeaderTrustsBool(c)
}

func accessString(a core.Access) string {
	n := "?"
	if a.Root != nil {
		n = a.Root.Name()
	}
	return n + "." + strings.Join(a.Fields, ".")
}

func checkAbsentRowNeedsZero(c *Ctx, s casSite, ra core.Access, only7 bool) {
	p, r := c.P, c.R
	f := s.fn
	construct := core.FuncName(f) + "/" + s.stored
	pos := p.Pos(s.cmp.Pos())
	// the row: look through accessor methods (existing.(T).GetRaftIndex()) to the looked-up object
	rowRootOf := func(v ssa.Value) ssa.Value {
		for i := 0; i < 6; i++ {
			a := core.AccessOf(v)
			call, ok := a.Root.(*ssa.Call)
			if ok && call.Call.IsInvoke() && len(call.Call.Args) == 0 {
				v = call.Call.Value
				continue
			}
			if ok && !call.Call.IsInvoke() && call.Call.StaticCallee() != nil && call.Call.StaticCallee().Signature.Recv() != nil && len(call.Call.Args) == 1 && core.AsMemdbOp(call) == nil {
				v = call.Call.Args[0]
				continue
			}
			return a.Root
		}
		return nil
	}
	root := rowRootOf(s.row)
	isAlias := func(v ssa.Value) bool {
		if v == root {
			return true
		}
		a := core.AccessOf(v)
		return len(a.Fields) == 0 && a.Root == root
	}
	cut := map[core.Edge]bool{}
	cut7 := map[core.Edge]bool{}       // C10.7: row-absent edges and expected-zero edges (governed by C10.6)
	classified := map[core.Edge]bool{} // edges of row-nil / expected-zero tests (either direction)
	expKey := accessString(core.AccessOf(s.exp))
	nNilTests := 0
	for _, b := range f.Blocks {
		for _, in := range b.Instrs {
			switch x := in.(type) {
			case *ssa.BinOp:
				if x.Op != token.EQL && x.Op != token.NEQ {
					continue
				}
				te, fe := core.CondEdges(x)
				// nil tests on the row
				var other ssa.Value
				if core.IsNilConst(x.Y) {
					other = x.X
				} else if core.IsNilConst(x.X) {
					other = x.Y
				}
				if other != nil && isAlias(other) {
					nNilTests++
					nonNil, isNil := te, fe
					if x.Op == token.EQL {
						nonNil, isNil = fe, te
					}
					for _, e := range nonNil {
						cut[e] = true
					}
					for _, e := range isNil {
						cut7[e] = true
					}
					for _, e := range append(append([]core.Edge{}, te...), fe...) {
						classified[e] = true
					}
					continue
				}
				// expected == 0 tests
				var o2 ssa.Value
				if k, ok := core.ConstInt(x.Y); ok && k == 0 {
					o2 = x.X
				} else if k, ok := core.ConstInt(x.X); ok && k == 0 {
					o2 = x.Y
				}
				if o2 != nil && accessString(core.AccessOf(o2)) == expKey {
					zero := te
					if x.Op == token.NEQ {
						zero = fe
					}
					for _, e := range zero {
						cut[e] = true
						cut7[e] = true
					}
					for _, e := range append(append([]core.Edge{}, te...), fe...) {
						classified[e] = true
					}
				}
			case *ssa.Extract:
				// comma-ok type assertion on the row: ok ⇒ non-nil
				if ta, ok := x.Tuple.(*ssa.TypeAssert); ok && x.Index == 1 && isAlias(ta.X) {
					nNilTests++
					te, fe := core.CondEdges(x)
					for _, e := range te {
						cut[e] = true
					}
					for _, e := range fe {
						cut7[e] = true
					}
					for _, e := range append(append([]core.Edge{}, te...), fe...) {
						classified[e] = true
					}
				}
			}
		}
	}
	// mode flags: a branch edge that dominates the comparison and is neither a
	// row-nil nor an expected-zero test selects "conditional mode" (opts.CAS);
	// its sibling edge leaves that mode and is outside this rule.
	for _, b := range f.Blocks {
		if len(b.Instrs) == 0 {
			continue
		}
		if _, ok := b.Instrs[len(b.Instrs)-1].(*ssa.If); !ok {
			continue
		}
		for si := range b.Succs {
			e := core.Edge{From: b, Succ: si}
			if classified[e] || b.Succs[0] == b.Succs[1] {
				continue
			}
			if core.EdgeDominates(b, si, s.cmp.Block()) {
				cut[core.Edge{From: b, Succ: 1 - si}] = true
			}
		}
	}
	// ---- C10.7: the comparison is not optional. With its match edges removed (and the
	// row-absent / expected-zero edges, which C10.6 governs, and the off-side of a pure
	// boolean mode flag such as opts.CAS), no write may be reachable.
	{
		te, fe := condEdgesOf(s.cmp)
		match := fe
		if s.cmp.Op == token.EQL {
			match = te
		}
		c7 := map[core.Edge]bool{}
		for e := range cut7 {
			c7[e] = true
		}
		for _, e := range match {
			c7[e] = true
		}
		pureBool := func(v ssa.Value) bool {
			for i := 0; i < 3; i++ {
				if u, ok := v.(*ssa.UnOp); ok && u.Op == token.NOT {
					v = u.X
					continue
				}
				break
			}
			if _, isCmp := v.(*ssa.BinOp); isCmp {
				return false
			}
			if b, ok := v.Type().Underlying().(*types.Basic); !ok || b.Kind() != types.Bool {
				return false
			}
			a := core.AccessOf(v)
			_, isParam := a.Root.(*ssa.Parameter)
			return isParam
		}
		for _, b := range f.Blocks {
			if len(b.Instrs) == 0 || len(b.Succs) != 2 {
				continue
			}
			iff, ok := b.Instrs[len(b.Instrs)-1].(*ssa.If)
			if !ok || !pureBool(iff.Cond) {
				continue
			}
			for si := range b.Succs {
				if core.EdgeDominates(b, si, s.cmp.Block()) {
					c7[core.Edge{From: b, Succ: 1 - si}] = true
				}
			}
		}
		var hit7 ssa.Instruction
		w7 := &core.Walk{
			Cut: func(b *ssa.BasicBlock, si int) bool { return c7[core.Edge{From: b, Succ: si}] },
			Visit: func(in ssa.Instruction) {
				if hit7 != nil {
					return
				}
				if op := core.AsMemdbOp(in); op != nil {
					if op.IsWrite() {
						hit7 = in
					}
					return
				}
				if ci, ok := in.(ssa.CallInstruction); ok {
					if _, isDefer := in.(*ssa.Defer); isDefer {
						return
					}
					if g := ci.Common().StaticCallee(); g != nil && mayWrite(p, g) {
						hit7 = in
					}
				}
			},
		}
		w7.FromEntry(f)
		if len(match) == 0 && cmpIsPredicateResult(p, f, s.cmp) {
			// the comparison is a predicate's result: in every caller, each write lies below the predicate's true edge
			bad7 := ""
			sites7 := callersOf(p, f, "agent/consul/state")
			for _, cs := range sites7 {
				cv, ok := cs.(*ssa.Call)
				if !ok {
					bad7 = "the predicate is called in a go/defer statement at " + p.Pos(cs.Pos())
					continue
				}
				te, _ := core.CondEdges(cv)
				cutT := map[core.Edge]bool{}
				for _, e := range te {
					cutT[e] = true
				}
				wc := &core.Walk{
					Cut: func(b *ssa.BasicBlock, si int) bool { return cutT[core.Edge{From: b, Succ: si}] },
					Visit: func(in ssa.Instruction) {
						if op := core.AsMemdbOp(in); op != nil {
							if op.IsWrite() {
								bad7 = "the write at " + p.Pos(in.Pos()) + " is reachable although the predicate did not report a match"
							}
							return
						}
						if ci, ok := in.(ssa.CallInstruction); ok {
							if g := ci.Common().StaticCallee(); g != nil && mayWrite(p, g) {
								bad7 = "the write at " + p.Pos(in.Pos()) + " is reachable although the predicate did not report a match"
							}
						}
					},
				}
				wc.FromInstr(cv)
				if len(te) == 0 {
					bad7 = "the predicate's result does not decide a branch at " + p.Pos(cs.Pos())
				}
			}
			if len(sites7) == 0 {
				bad7 = "the predicate has no caller"
			}
			if bad7 != "" {
				r.Violate("C10.7", construct, pos, bad7+": a request with a stale expected index is applied and reported as applied")
			} else {
				r.Hold("C10.7", construct, pos, "the comparison is a predicate's result and every write of its callers lies below the predicate's true edge")
			}
		} else if len(match) == 0 {
			r.Undecide("C10.7", construct, pos, "the comparison does not feed a branch")
		} else if hit7 != nil {
			r.Violate("C10.7", construct, pos, fmt.Sprintf("the write at %s is reachable without the expected index having been compared and found equal (the comparison is skipped under a condition that is neither 'row absent', 'expected index zero' nor a boolean mode flag): a request with a stale expected index is applied and reported as applied", p.Pos(hit7.Pos())), w7.PathTo(p, hit7.Block())...)
		} else {
			r.Hold("C10.7", construct, pos, "every write lies below the comparison's match edge (or below row-absent / expected-zero / non-CAS-mode edges)")
		}
	}
	if only7 {
		return
	}
	var hit ssa.Instruction
	w := &core.Walk{
		Cut: func(b *ssa.BasicBlock, si int) bool { return cut[core.Edge{From: b, Succ: si}] },
		Visit: func(in ssa.Instruction) {
			if hit != nil {
				return
			}
			if op := core.AsMemdbOp(in); op != nil {
				if op.IsWrite() {
					hit = in
				}
				return
			}
			if ci, ok := in.(ssa.CallInstruction); ok {
				if g := ci.Common().StaticCallee(); g != nil && mayWrite(p, g) {
					hit = in
				}
			}
		},
	}
	w.FromEntry(f)
	if hit != nil {
		r.Violate("C10.6", construct, pos, fmt.Sprintf("the write at %s is reachable with the row absent and a non-zero expected index: a conditional write against a deleted object is applied", p.Pos(hit.Pos())), w.PathTo(p, hit.Block())...)
	} else {
		r.Hold("C10.6", construct, pos, fmt.Sprintf("with the row absent every path to a write requires expected == 0 (%d nil tests on the row)", nNilTests))
	}
}

func condEdgesOf(c ssa.Value) (t, f []core.Edge) {
	return core.CondEdges(c)
}

func hasBoolResult(f *ssa.Function) bool { return boolResultIndex(f) >= 0 }

func boolResultIndex(f *ssa.Function) int {
	res := f.Signature.Results()
	for i := 0; i < res.Len(); i++ {
		if b, ok := res.At(i).Type().Underlying().(*types.Basic); ok && b.Kind() == types.Bool {
			return i
		}
	}
	return -1
}

// checkWrapperCommit: C10.2. For every return of a wrapper that opens a write
// transaction: success (nil error) ⇒ Commit passed on every path to it and its
// error is nil there; a true boolean ⇒ the same; a false boolean ⇒ Commit was
// not passed on any path.
func checkWrapperCommit(c *Ctx, f *ssa.Function, hasBool bool) {
	p, r := c.P, c.R
	name := core.FuncName(f)
	isCommit := func(in ssa.Instruction) bool {
		op := core.AsMemdbOp(in)
		return op != nil && op.Op == "Commit"
	}
	mf := &core.MustFlow{F: f, Gen: func(in ssa.Instruction) []string {
		if isCommit(in) {
			return []string{"commit"}
		}
		return nil
	}}
	mf.Run()
	// may-analysis: blocks reachable after a Commit
	afterCommit := map[*ssa.BasicBlock]bool{}
	var commitCalls []ssa.Instruction
	for _, b := range f.Blocks {
		for _, in := range b.Instrs {
			if isCommit(in) {
				commitCalls = append(commitCalls, in)
			}
		}
	}
	commitBlocks := map[*ssa.BasicBlock]bool{}
	for _, cc := range commitCalls {
		commitBlocks[cc.Block()] = true
		w := &core.Walk{}
		w.FromInstr(cc)
		for _, b := range f.Blocks {
			if w.Reached(b) {
				afterCommit[b] = true
			}
		}
	}
	bi := boolResultIndex(f)
	ei := core.ErrResultIndex(f)
	pos := p.FuncPos(f)
	if len(commitCalls) == 0 {
		// A wrapper that never commits: only acceptable if it never reports success with effects; record.
		r.Add(core.Obligation{Rule: "C10.2", Construct: name, Pos: pos, Decision: core.Holds,
			Reason: "opens a write transaction and never commits (nothing is applied, nothing is reported as applied by a boolean)", Exception: "never-commits"})
		if hasBool {
			r.Violate("C10.2", name+"/never-commits", pos, "a bool-returning wrapper that never commits")
		}
		c.R.Notes = append(c.R.Notes, "observation: "+name+" opens a write transaction and never commits")
		return
	}
	bad := ""
	for _, rt := range core.Returns(f) {
		must, reach := mf.At(rt)
		if !reach {
			continue
		}
		committed := must["commit"]
		mayCommitted := afterCommit[rt.Block()] || (commitBlocks[rt.Block()] && committed)
		var bt core.Tri = core.Unknown
		var bv ssa.Value
		if bi >= 0 {
			bv = core.ResolveResult(rt, bi)
			bt = core.EvalBoolAt(bv, rt.Block())
		}
		ek := core.RetUnknown
		var ev ssa.Value
		if ei >= 0 {
			ev = core.ResolveResult(rt, ei)
			ek = core.ErrKindOfValue(ev, rt.Block())
		}
		isCommitResult := func(v ssa.Value) bool {
			if v == nil {
				return false
			}
			if call, ok := v.(*ssa.Call); ok {
				return isCommit(call)
			}
			return false
		}
		where := p.Pos(rt.Pos())
		switch {
		case bi >= 0 && bt == core.True:
			if !committed {
				if w := uncommittedWriteReaches(p, f, rt); w != "" {
					bad = fmt.Sprintf("returns true at %s on a path where the write at %s was not committed", where, w)
				}
			} else if !(ek == core.RetSuccess || isCommitResult(ev)) {
				bad = fmt.Sprintf("returns true at %s with a possibly non-nil error", where)
			} else if isCommitResult(ev) && ek != core.RetSuccess {
				bad = fmt.Sprintf("returns (true, Commit()) at %s: true is reported even when Commit fails", where)
			}
		case bi >= 0 && bt == core.False:
			if mayCommitted && !(ek == core.RetFailure) {
				bad = fmt.Sprintf("returns false with a nil/unknown error at %s on a path that may have committed", where)
			}
		case bi >= 0:
			// bool is computed: accept `err == nil` of Commit's result, or a value forwarded from the txn helper when Commit is passed
			if cmp, ok := bv.(*ssa.BinOp); ok && (cmp.Op == token.EQL) && core.IsNilConst(cmp.Y) && isCommitResult(cmp.X) && ev == cmp.X {
				break
			}
			if committed && (ek == core.RetSuccess) {
				break // forwarded helper boolean after a successful commit
			}
			if !mayCommitted && ek == core.RetFailure {
				break
			}
			if !mayCommitted {
				if w := uncommittedWriteReaches(p, f, rt); w == "" {
					break
				}
			}
			bad = fmt.Sprintf("boolean returned at %s is neither a constant nor `Commit()==nil`", where)
		default:
			// error-only wrapper: nil error ⇒ everything written was committed
			if ek != core.RetFailure && !committed {
				if w := uncommittedWriteReaches(p, f, rt); w != "" {
					bad = fmt.Sprintf("returns a nil error at %s although the write at %s was not committed", where, w)
				}
			}
		}
		if bad != "" {
			break
		}
	}
	if bad != "" {
		r.Violate("C10.2", name, pos, bad)
	} else {
		r.Hold("C10.2", name, pos, "reported ⇔ committed on every return")
	}
}

// mayWrite: f (or a static callee in consul, transitively) performs a memdb write.
func mayWrite(p *core.Program, f *ssa.Function) bool {
	return mayWriteRec(p, f, map[*ssa.Function]bool{})
}

func mayWriteRec(p *core.Program, f *ssa.Function, onStack map[*ssa.Function]bool) bool {
	if f == nil || f.Blocks == nil {
		return false
	}
	key := "mayWrite:" + f.String()
	if v, ok := p.MemoGet(key); ok {
		return v.(bool)
	}
	if onStack[f] {
		return false
	}
	onStack[f] = true
	defer delete(onStack, f)
	res := false
	for _, b := range f.Blocks {
		for _, in := range b.Instrs {
			if op := core.AsMemdbOp(in); op != nil {
				if op.IsWrite() {
					res = true
				}
				continue
			}
			if ci, ok := in.(ssa.CallInstruction); ok {
				if g := ci.Common().StaticCallee(); g != nil && g.Pkg != nil && core.IsConsul(g.Pkg.Pkg.Path()) {
					if mayWriteRec(p, g, onStack) {
						res = true
					}
				}
			}
			if res {
				break
			}
		}
		if res {
			break
		}
	}
	for _, a := range f.AnonFuncs {
		if !res && mayWriteRec(p, a, onStack) {
			res = true
		}
	}
	p.MemoSet(key, res)
	return res
}

// uncommittedWriteReaches: some memdb write (direct, or a call into a function
// that may write) can reach ret on a feasible path that avoids Commit. Returns
// the position of such a write, or "".
func uncommittedWriteReaches(p *core.Program, f *ssa.Function, ret *ssa.Return) string {
	for _, b := range f.Blocks {
		for _, in := range b.Instrs {
			isW := false
			if op := core.AsMemdbOp(in); op != nil {
				isW = op.IsWrite()
			} else if ci, ok := in.(ssa.CallInstruction); ok {
				if g := ci.Common().StaticCallee(); g != nil && mayWrite(p, g) {
					isW = true
				}
			}
			if !isW {
				continue
			}
			ff := core.NewFlagFlow(in)
			found := false
			w := &core.Walk{
				Cut: ff.Infeasible,
				Stop: func(i ssa.Instruction) bool {
					op := core.AsMemdbOp(i)
					return op != nil && op.Op == "Commit"
				},
				Visit: func(i ssa.Instruction) { found = found || i == ssa.Instruction(ret) },
			}
			w.FromInstr(in)
			if found {
				return p.Pos(in.Pos())
			}
		}
	}
	return ""
}

func checkCompositeCA(c *Ctx) {
	p, r := c.P, c.R
	// Find, in package fsm, functions calling both (*Store).CARootSetCAS and (*Store).CACheckAndSetConfig.
	found := 0
	for _, f := range p.SrcFuncs("agent/consul/fsm") {
		var rootCalls, cfgCalls []*ssa.Call
		for _, b := range f.Blocks {
			for _, in := range b.Instrs {
				if call, ok := in.(*ssa.Call); ok {
					switch core.MethodNameOf(&call.Call) {
					case "CARootSetCAS":
						rootCalls = append(rootCalls, call)
					case "CACheckAndSetConfig", "CASetConfig":
						cfgCalls = append(cfgCalls, call)
					}
				}
			}
		}
		if len(rootCalls) == 0 {
			continue
		}
		for _, rc := range rootCalls {
			// config writes reachable after the roots write
			for _, cc := range cfgCalls {
				reach := false
				w := &core.Walk{Visit: func(in ssa.Instruction) { reach = reach || in == ssa.Instruction(cc) }}
				w.FromInstr(rc)
				if !reach {
					continue
				}
				found++
				construct := core.FuncName(f) + "/" + core.MethodNameOf(&cc.Call) + "-after-CARootSetCAS"
				// accepted edges: act == true and err == nil of rc
				var edges []core.Edge
				if rc.Referrers() != nil {
					for _, rr := range *rc.Referrers() {
						ex, ok := rr.(*ssa.Extract)
						if !ok || ex.Index != 0 {
							continue
						}
						te, _ := core.CondEdges(ex)
						edges = append(edges, te...)
					}
				}
				if len(edges) == 0 {
					r.Violate("C10.4", construct, p.Pos(cc.Pos()), "the config write follows the roots CAS without any test of its applied/not-applied result")
					continue
				}
				// the config write must be unreachable from rc once the act==true edges are removed
				if core.CutMakesUnreachable(f, rc, edges, cc) {
					r.Hold("C10.4", construct, p.Pos(cc.Pos()), "config write only below the act==true edge of the roots write")
				} else {
					r.Violate("C10.4", construct, p.Pos(cc.Pos()), "the config write is reachable from the roots CAS on a path where the roots were not applied (act==false)")
				}
			}
		}
	}
	r.Floor("C10.4", 1)
	_ = found
}

func checkLeaderTrustsBool(c *Ctx) {
	p, r := c.P, c.R
	// functions in agent/consul that build a CARequest with Op CAOpSetRootsAndConfig and call ApplyCARequest
	n := 0
	for _, f := range p.SrcFuncs("agent/consul") {
		var applies []*ssa.Call
		for _, b := range f.Blocks {
			for _, in := range b.Instrs {
				if call, ok := in.(*ssa.Call); ok && core.MethodNameOf(&call.Call) == "ApplyCARequest" {
					applies = append(applies, call)
				}
			}
		}
		if len(applies) == 0 {
			continue
		}
		for _, ap := range applies {
			args := core.CallArgs(&ap.Call)
			if len(args) == 0 {
				continue
			}
			composite := false
			for _, v := range core.ReachingFieldStores(args[0], "Op", ap) {
				if sv, ok := core.ConstString(v); ok && sv == compositeOp(c) {
					composite = true
				}
			}
			if !composite {
				continue
			}
			n++
			construct := core.FuncName(f) + "/ApplyCARequest"
			// resp (Extract 0) must be type-asserted to bool, and the false edge of that bool must lead only to failure returns
			ok := false
			if ap.Referrers() != nil {
				for _, rr := range *ap.Referrers() {
					ex, isEx := rr.(*ssa.Extract)
					if !isEx || ex.Index != 0 || ex.Referrers() == nil {
						continue
					}
					for _, u := range *ex.Referrers() {
						ta, isTA := u.(*ssa.TypeAssert)
						if !isTA {
							continue
						}
						if b, isB := ta.AssertedType.Underlying().(*types.Basic); !isB || b.Kind() != types.Bool {
							continue
						}
						// the asserted bool value
						var bv ssa.Value = ta
						if ta.CommaOk && ta.Referrers() != nil {
							for _, e2 := range *ta.Referrers() {
								if ex2, isE := e2.(*ssa.Extract); isE && ex2.Index == 0 {
									bv = ex2
								}
							}
						}
						_, fe := core.CondEdges(bv)
						// From the edge where respOk is false (and ok true), every reachable return must be a failure.
						for _, e := range fe {
							allFail := true
							any := false
							w := &core.Walk{Visit: func(in ssa.Instruction) {
								if rt, isR := in.(*ssa.Return); isR {
									any = true
									if core.ClassifyReturn(rt) != core.RetFailure {
										allFail = false
									}
								}
							}}
							// restrict to the path where `ok` is also true: the && chain puts the respOk test below the ok edge already
							w.FromEdge(e.From, e.Succ)
							if any && allFail {
								ok = true
							}
						}
					}
				}
			}
			if ok {
				r.Hold("C10.5", construct, p.Pos(ap.Pos()), "false reply of the composite apply leads only to error returns")
			} else {
				r.Violate("C10.5", construct, p.Pos(ap.Pos()), "the reply of the composite roots+config apply is not type-asserted to bool with its false edge returning an error")
			}
		}
	}
	r.Floor("C10.5", 1)
	_ = n
}

// compositeOp: the value of structs.CAOpSetRootsAndConfig.
func compositeOp(c *Ctx) string {
	pk := c.P.Pkg("agent/structs")
	if pk == nil {
		return "?"
	}
	if k, ok := pk.Types.Scope().Lookup("CAOpSetRootsAndConfig").(*types.Const); ok {
		return constant.StringVal(k.Val())
	}
	return "?"
}

// mentionsConstString: the function uses a constant with this string value.
func mentionsConstString(f *ssa.Function, s string) bool {
	for _, b := range f.Blocks {
		for _, in := range b.Instrs {
			for _, op := range in.Operands(nil) {
				if *op == nil {
					continue
				}
				if v, ok := core.ConstString(*op); ok && v == s {
					return true
				}
			}
		}
	}
	return false
}
