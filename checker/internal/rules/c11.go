package rules

import (
	"fmt"
	"go/constant"
	"go/token"
	"go/types"
	"sort"
	"strings"

	"golang.org/x/tools/go/ssa"

	"verifcheck/internal/core"
)

func init() {
	register(&Rule{ID: "C11", Patterns: []string{"./agent/consul/state", "./agent/consul/stream", "./agent/consul/fsm", "./agent/submatview", "./agent/grpc-internal/services/subscribe"}, Run: runC11})
}

const (
	streamPkg  = "agent/consul/stream"
	matviewPkg = "agent/submatview"
)

// syncLockOf recognises sync.(RW)Mutex acquire / release on a struct field
// and keys it "<Type>.<field>".
func syncLockOf(in ssa.Instruction) (string, int) {
	ci, ok := in.(ssa.CallInstruction)
	if !ok {
		return "", 0
	}
	g := ci.Common().StaticCallee()
	if g == nil || g.Pkg == nil || g.Pkg.Pkg.Path() != "sync" || len(ci.Common().Args) == 0 {
		return "", 0
	}
	d := 0
	switch g.Name() {
	case "Lock", "RLock":
		d = 1
	case "Unlock", "RUnlock":
		d = -1
	default:
		return "", 0
	}
	fa, ok := ci.Common().Args[0].(*ssa.FieldAddr)
	if !ok {
		return "", 0
	}
	nt := core.NamedOf(fa.X.Type())
	if nt == nil {
		return "", 0
	}
	return nt.Obj().Name() + "." + core.FieldObj(fa).Name(), d
}

type guardedField struct {
	pkg, typ string
	fields   []string
	lock     string
}

var c11Guarded = []guardedField{
	{streamPkg, "EventPublisher", []string{"topicBuffers", "snapCache", "snapshotHandlers", "wildcards"}, "EventPublisher.lock"},
	{streamPkg, "topicBuffer", []string{"refs"}, "EventPublisher.lock"},
	{streamPkg, "subscriptions", []string{"byToken"}, "subscriptions.lock"},
	{matviewPkg, "materializer", []string{"index", "view", "updateCh", "err"}, "materializer.lock"},
}

func heldLocksOf(p *core.Program, f *ssa.Function) *core.HeldLocks {
	return p.Memo("heldlocks:"+core.FuncName(f)+"@"+p.FuncPos(f), func() any { return core.NewHeldLocks(f, syncLockOf) }).(*core.HeldLocks)
}

// callerHolds: every static call site of f (in the given packages) has the
// lock held, directly or because the caller is itself only called with it.
func callerHolds(p *core.Program, f *ssa.Function, lock string, pkgs []string, depth int) (bool, string) {
	if f.Parent() != nil {
		return false, "an anonymous function runs when its caller decides (timer, unsubscribe): it must take the lock itself"
	}
	if depth > 3 {
		return false, "call chain too deep"
	}
	callers := callersOf(p, f, pkgs...)
	if len(callers) == 0 {
		return false, "no static caller"
	}
	for _, ci := range callers {
		g := ci.Parent()
		if heldLocksOf(p, g).At(ci)[lock] {
			continue
		}
		if ok, why := callerHolds(p, g, lock, pkgs, depth+1); !ok {
			return false, "called from " + core.FuncName(g) + " at " + p.Pos(ci.Pos()) + " without " + lock + " (" + why + ")"
		}
	}
	return true, ""
}

func runC11(c *Ctx) {
	r := c.R
	r.Clauses = []string{
		"C11.1 events are generated from the transaction's change set before the memdb commit and handed to the publisher after it, under the commit lock (same rule as C05.4)",
		"C11.2 every access to the publisher's topic buffers, snapshot cache, handler table, wildcard table and buffer reference counts, to the subscription table, and to the materializer's index/view/error happens with the owning lock held (in the function, or at every call site of a caller-holds helper); snapshot creation+splice and subscription registration run under the publisher lock; the publisher lock is never taken while the subscription-table lock is held",
		"C11.3 forced resubscription: the ACL-change unsubscribe event is generated for token, role and policy changes and is in the list of generators; the publisher closes the affected subscriptions; a closed subscription never delivers another event; the subscribe endpoint turns forced close and ACL change into Aborted and never continues the loop; the client resets its view on Aborted and on a handler error; FSM restore refreshes all topics",
		"C11.4 the client applies a snapshot only at EndOfSnapshot, with the buffered events and that event's index; NewSnapshotToFollow resets the view first; the view index is assigned only from the delivered index and only after the view accepted the events",
		"C11.5 every topic that event generators emit has a registered snapshot handler",
		"C11.6 event generation is complete over the change kinds it distinguishes: in the service-health generator every non-delete service change reaches the rename / destination-change fix-up before any early exit, every delete emits a deregistration; every mapped config-entry change emits an event; every generator's error aborts the commit and its events are forwarded",
		"C11.9 a snapshot handler reads only those fields of the subscription subject that the subject's String() — the key for snapshot caching and event routing — also reads",
		"C11.8 no function of the stream package (nor an event payload method) writes into an event slice it was handed — element stores or the in-place filter idiom — because published batches are shared by all subscribers",
		"C11.10 event generation appends only to slices it created (or back into the slice it extends): no append into the spare capacity of a captured/shared slice",
		"C11.7 snapshot splice: the live buffer is joined at the first item with an index strictly larger than the snapshot's, the end-of-snapshot marker carries the snapshot's index; a subscription resumes without snapshot only when the requested index is still at the buffer head, and a stale non-zero index always gets NewSnapshotToFollow first",
	}
	r.NotDecided = []string{
		"equality of the materialised view with the direct query at every delivery (schedule- and history-quantified)",
		"the window between memdb commit and publication under concurrent transactions (commitLock is per transaction)",
		"lock-free eventBuffer linearizability",
		"whether payload filtering (HasReadPermission) and the direct query's ACL filter agree",
	}

	// ---- C11.1 (the C05.4 rule, re-run and recorded under this property)
	before := len(r.Obligations)
	checkTxnCommit(c)
	for i := before; i < len(r.Obligations); i++ {
		if r.Obligations[i].Rule == "C05.4" {
			r.Obligations[i].Rule = "C11.1"
			r.Counts["C05.4"]--
			r.Counts["C11.1"]++
		}
		if r.Counts["C05.4"] == 0 {
			delete(r.Counts, "C05.4")
		}
	}

	c11Lockset(c)
	c11LockOrder(c)
	c11Registry(c)
	c11Completeness(c)
	c11ForcedResubscribe(c)
	c11Client(c)
	c11Splice(c)
	c11SharedEventsImmutable(c)
	c11FreshEventSlices(c)
	c11SubjectKeys(c)
}

// ---- C11.2
func c11Lockset(c *Ctx) {
	p, r := c.P, c.R
	pkgs := []string{streamPkg, matviewPkg}
	n := 0
	for _, gf := range c11Guarded {
		isField := map[string]bool{}
		for _, f := range gf.fields {
			isField[f] = true
		}
		for _, f := range p.SrcFuncs(gf.pkg) {
			type acc struct {
				field string
				in    ssa.Instruction
			}
			var bad []acc
			seenField := map[string]bool{}
			hl := heldLocksOf(p, f)
			for _, b := range f.Blocks {
				for _, in := range b.Instrs {
					fa, ok := in.(*ssa.FieldAddr)
					if !ok {
						continue
					}
					nt := core.NamedOf(fa.X.Type())
					if nt == nil || nt.Obj().Name() != gf.typ || nt.Obj().Pkg() == nil || !strings.HasSuffix(nt.Obj().Pkg().Path(), "/"+gf.pkg) {
						continue
					}
					fn := core.FieldObj(fa).Name()
					if !isField[fn] {
						continue
					}
					// construction of a fresh object is not shared yet
					if _, fresh := fa.X.(*ssa.Alloc); fresh {
						continue
					}
					seenField[fn] = true
					if held := hl.At(in); held != nil && !held[gf.lock] {
						bad = append(bad, acc{fn, in})
					}
				}
			}
			fields := make([]string, 0, len(seenField))
			for k := range seenField {
				fields = append(fields, k)
			}
			sort.Strings(fields)
			for _, fn := range fields {
				n++
				construct := core.FuncName(f) + "/" + gf.typ + "." + fn
				var first *acc
				for i := range bad {
					if bad[i].field == fn {
						first = &bad[i]
						break
					}
				}
				if first == nil {
					r.Hold("C11.2", construct, p.FuncPos(f), gf.lock+" held at every access")
					continue
				}
				if ok, why := callerHolds(p, f, gf.lock, pkgs, 0); ok {
					r.Hold("C11.2", construct, p.FuncPos(f), "caller-holds helper: every call site has "+gf.lock)
				} else {
					r.Violate("C11.2", construct, p.Pos(first.in.Pos()), fmt.Sprintf("%s.%s is accessed without %s: %s — a subscription can be created against a buffer that a concurrent publish or unsubscribe is changing (missed or duplicated events)", gf.typ, fn, gf.lock, why))
				}
			}
		}
	}
	r.Floor("C11.2", 30)

	// snapshot creation + splice and subscription registration under the publisher lock
	sub := p.Func(streamPkg, "(*EventPublisher).Subscribe")
	if sub == nil {
		r.Unresolve("C11.2", "stream.(*EventPublisher).Subscribe", "not found")
		return
	}
	hl := heldLocksOf(p, sub)
	must := map[string]int{"appendAndSplice": 0, "add": 0, "bufferForSubscription": 0, "Head": 0}
	for _, in := range callsTo(sub, func(cm *ssa.CallCommon) bool { g := cm.StaticCallee(); _, ok := must[nameOf(g)]; return g != nil && ok }) {
		nm := nameOf(in.(ssa.CallInstruction).Common().StaticCallee())
		must[nm]++
		construct := "stream.(*EventPublisher).Subscribe/" + nm
		if hl.At(in)["EventPublisher.lock"] {
			r.Hold("C11.2", construct, p.Pos(in.Pos()), "under EventPublisher.lock")
		} else {
			r.Violate("C11.2", construct, p.Pos(in.Pos()), nm+" runs without the publisher lock: events published between taking the buffer head, building the snapshot and registering the subscription are lost or delivered twice")
		}
	}
	for _, nm := range []string{"appendAndSplice", "add", "bufferForSubscription"} {
		if must[nm] == 0 {
			r.MissingInstance("C11.2", "stream.(*EventPublisher).Subscribe/"+nm, "call not found")
		}
	}
	// publishEvent appends to the topic buffers under the lock
	if pe := p.Func(streamPkg, "(*EventPublisher).publishEvent"); pe != nil {
		hl := heldLocksOf(p, pe)
		for _, in := range callsTo(pe, func(cm *ssa.CallCommon) bool { g := cm.StaticCallee(); return g != nil && g.Name() == "Append" }) {
			if hl.At(in)["EventPublisher.lock"] {
				r.Hold("C11.2", "stream.(*EventPublisher).publishEvent/Append", p.Pos(in.Pos()), "under EventPublisher.lock")
			} else {
				r.Violate("C11.2", "stream.(*EventPublisher).publishEvent/Append", p.Pos(in.Pos()), "events are appended to a topic buffer without the publisher lock: a concurrent Subscribe can splice its snapshot past them")
			}
		}
	}
}

func nameOf(f *ssa.Function) string {
	if f == nil {
		return ""
	}
	return f.Name()
}

// ---- C11.2 (order)
func c11LockOrder(c *Ctx) {
	p, r := c.P, c.R
	// functions that (transitively, statically, inside the package) take the publisher lock
	takes := map[*ssa.Function]bool{}
	funcs := p.SrcFuncs(streamPkg)
	for _, f := range funcs {
		for _, b := range f.Blocks {
			for _, in := range b.Instrs {
				if k, d := syncLockOf(in); d > 0 && k == "EventPublisher.lock" {
					takes[f] = true
				}
			}
		}
	}
	for changed := true; changed; {
		changed = false
		for _, f := range funcs {
			if takes[f] {
				continue
			}
			for _, b := range f.Blocks {
				for _, in := range b.Instrs {
					if ci, ok := in.(ssa.CallInstruction); ok {
						if g := ci.Common().StaticCallee(); g != nil && takes[g] {
							takes[f] = true
							changed = true
						}
					}
				}
			}
		}
	}
	n := 0
	for _, f := range funcs {
		hl := heldLocksOf(p, f)
		usesSubsLock := false
		bad := ""
		for _, b := range f.Blocks {
			for _, in := range b.Instrs {
				if k, d := syncLockOf(in); d > 0 && k == "subscriptions.lock" {
					usesSubsLock = true
				}
				held := hl.At(in)
				if held == nil || !held["subscriptions.lock"] {
					continue
				}
				if k, d := syncLockOf(in); d > 0 && k == "EventPublisher.lock" {
					bad = p.Pos(in.Pos())
				}
				if ci, ok := in.(ssa.CallInstruction); ok {
					if g := ci.Common().StaticCallee(); g != nil && takes[g] {
						bad = p.Pos(in.Pos()) + " (through " + core.FuncName(g) + ")"
					}
				}
			}
		}
		if !usesSubsLock {
			continue
		}
		n++
		if bad != "" {
			r.Violate("C11.2", core.FuncName(f)+"/lock-order", p.FuncPos(f), "the publisher lock is acquired at "+bad+" while the subscription-table lock is held: Subscribe takes them in the opposite order (deadlock of publishing and subscribing)")
		} else {
			r.Hold("C11.2", core.FuncName(f)+"/lock-order", p.FuncPos(f), "publisher lock never taken under the subscription-table lock")
		}
	}
	if n < 4 {
		r.MissingInstance("C11.2", "<lock-order>", fmt.Sprintf("only %d functions take the subscription-table lock", n))
	}
}

// globalOf: v is (an interface made from) a load of a package-level variable.
func globalOf(v ssa.Value) *ssa.Global {
	for i := 0; i < 6; i++ {
		switch x := v.(type) {
		case *ssa.MakeInterface:
			v = x.X
		case *ssa.ChangeInterface:
			v = x.X
		case *ssa.ChangeType:
			v = x.X
		case *ssa.UnOp:
			if x.Op != token.MUL {
				return nil
			}
			if g, ok := x.X.(*ssa.Global); ok {
				return g
			}
			return nil
		default:
			return nil
		}
	}
	return nil
}

// topicKey names a topic value: the package variable it is loaded from, or
// its constant value.
func topicKey(v ssa.Value) string {
	if g := globalOf(v); g != nil {
		return g.Name()
	}
	for i := 0; i < 4; i++ {
		switch x := v.(type) {
		case *ssa.MakeInterface:
			v = x.X
		case *ssa.ChangeType:
			v = x.X
		case *ssa.Const:
			if x.Value != nil {
				return "const " + x.Value.ExactString()
			}
			return ""
		default:
			return ""
		}
	}
	return ""
}

func storedToGlobal(v ssa.Value, name string) bool {
	if v.Referrers() == nil {
		return false
	}
	for _, rr := range *v.Referrers() {
		if st, ok := rr.(*ssa.Store); ok && st.Val == v {
			if g, ok := st.Addr.(*ssa.Global); ok && g.Name() == name {
				return true
			}
		}
	}
	return false
}

// ---- C11.5
func c11Registry(c *Ctx) {
	p, r := c.P, c.R
	emitted := map[string]string{} // topic global -> where
	fns := p.SrcFuncs(statePkg)
	if sp := p.SSAPkg(statePkg); sp != nil {
		if ini := sp.Func("init"); ini != nil {
			fns = append(fns, ini)
		}
	}
	for _, f := range fns {
		for _, b := range f.Blocks {
			for _, in := range b.Instrs {
				switch x := in.(type) {
				case *ssa.Store:
					fa, ok := x.Addr.(*ssa.FieldAddr)
					if !ok || core.FieldObj(fa).Name() != "Topic" {
						continue
					}
					if nt := core.NamedOf(fa.X.Type()); nt == nil || nt.Obj().Name() != "Event" {
						continue
					}
					if k := topicKey(x.Val); k != "" {
						emitted[k] = p.Pos(in.Pos())
					}
				case *ssa.MapUpdate:
					mg := globalOf(x.Map)
					if (mg != nil && mg.Name() == "configEntryKindToTopic") || storedToGlobal(x.Map, "configEntryKindToTopic") {
						if k := topicKey(x.Value); k != "" {
							emitted[k] = p.Pos(in.Pos())
						}
					}
				}
			}
		}
	}
	registered := map[string]bool{}
	if reg := p.Func("agent/consul/fsm", "(*FSM).registerStreamSnapshotHandlers"); reg != nil {
		for _, in := range callsTo(reg, func(cm *ssa.CallCommon) bool { return core.MethodNameOf(cm) == "RegisterHandler" }) {
			args := in.(ssa.CallInstruction).Common().Args
			for _, a := range args {
				if k := topicKey(a); k != "" {
					registered[k] = true
				}
			}
		}
	} else {
		r.Unresolve("C11.5", "fsm.(*FSM).registerStreamSnapshotHandlers", "not found")
		return
	}
	names := make([]string, 0, len(emitted))
	for k := range emitted {
		names = append(names, k)
	}
	sort.Strings(names)
	for _, t := range names {
		if registered[t] {
			r.Hold("C11.5", "topic/"+t, emitted[t], "emitted by an event generator and registered with a snapshot handler")
		} else {
			r.Violate("C11.5", "topic/"+t, emitted[t], "events are emitted on topic "+t+" but no snapshot handler is registered for it: Subscribe fails with unknown topic and nobody can materialise it")
		}
	}
	r.Floor("C11.5", 20)
}

func stateConst(p *core.Program, pkgRel, name string) (constant.Value, bool) {
	pk := p.Pkg(pkgRel)
	if pk == nil {
		return nil, false
	}
	cn, ok := pk.Types.Scope().Lookup(name).(*types.Const)
	if !ok {
		return nil, false
	}
	return cn.Val(), true
}

// cmpWithConst: BinOps in f comparing something whose access path ends in
// field with the named package constant.
func cmpFieldWithConst(p *core.Program, f *ssa.Function, field, pkgRel, cname string) []*ssa.BinOp {
	cv, ok := stateConst(p, pkgRel, cname)
	if !ok {
		return nil
	}
	var out []*ssa.BinOp
	for _, b := range f.Blocks {
		for _, in := range b.Instrs {
			cmp, ok := in.(*ssa.BinOp)
			if !ok || (cmp.Op != token.EQL && cmp.Op != token.NEQ) {
				continue
			}
			for _, pair := range [][2]ssa.Value{{cmp.X, cmp.Y}, {cmp.Y, cmp.X}} {
				k, ok := pair[1].(*ssa.Const)
				if !ok || k.Value == nil || !constant.Compare(k.Value, token.EQL, cv) {
					continue
				}
				if field == "" || core.AccessOf(pair[0]).LastField() == field {
					out = append(out, cmp)
				}
			}
		}
	}
	return out
}

func eqEdges(cmp *ssa.BinOp) []core.Edge {
	te, fe := core.CondEdges(cmp)
	if cmp.Op == token.EQL {
		return te
	}
	return fe
}

// rangeLoopOver: the Next instruction of the range loop over a value named
// by pred, and the body-entry edge.
func rangeLoops(f *ssa.Function) []*ssa.Next {
	var out []*ssa.Next
	for _, b := range f.Blocks {
		for _, in := range b.Instrs {
			if nx, ok := in.(*ssa.Next); ok {
				out = append(out, nx)
			}
		}
	}
	return out
}

// loopHeaderOf: the innermost loop header (a block with a predecessor it
// dominates) that dominates b.
func loopHeaderOf(b *ssa.BasicBlock) *ssa.BasicBlock {
	var best *ssa.BasicBlock
	for _, h := range b.Parent().Blocks {
		if !h.Dominates(b) {
			continue
		}
		isHeader := false
		for _, pr := range h.Preds {
			if h.Dominates(pr) {
				isHeader = true
			}
		}
		if isHeader && (best == nil || best.Dominates(h)) {
			best = h
		}
	}
	return best
}

// ---- C11.6
func c11Completeness(c *Ctx) {
	p, r := c.P, c.R
	// (a) the generator list
	pd := p.Func(statePkg, "processDBChanges")
	if pd == nil {
		r.Unresolve("C11.6", "state.processDBChanges", "not found")
	} else {
		listed := map[string]bool{}
		for _, b := range pd.Blocks {
			for _, in := range b.Instrs {
				if st, ok := in.(*ssa.Store); ok {
					v := st.Val
					if ct, ok := v.(*ssa.ChangeType); ok {
						v = ct.X
					}
					if fn, ok := v.(*ssa.Function); ok {
						listed[fn.Name()] = true
					}
				}
			}
		}
		for _, want := range []string{"aclChangeUnsubscribeEvent", "caRootsChangeEvents", "ServiceHealthEventsFromChanges", "ServiceListUpdateEventsFromChanges", "ConfigEntryEventsFromChanges"} {
			if listed[want] {
				r.Hold("C11.6", "state.processDBChanges/"+want, p.FuncPos(pd), "in the list of event generators run for every commit")
			} else {
				r.Violate("C11.6", "state.processDBChanges/"+want, p.FuncPos(pd), want+" is no longer run for every commit: its changes never reach subscribers")
			}
		}
		// the dynamic call's error aborts, its events are forwarded
		var dyn *ssa.Call
		for _, b := range pd.Blocks {
			for _, in := range b.Instrs {
				if call, ok := in.(*ssa.Call); ok && call.Call.StaticCallee() == nil && !call.Call.IsInvoke() {
					if _, isBuiltin := call.Call.Value.(*ssa.Builtin); !isBuiltin {
						dyn = call
					}
				}
			}
		}
		if dyn == nil {
			r.Violate("C11.6", "state.processDBChanges/forward", p.FuncPos(pd), "the generators are not called")
		} else {
			bad := ""
			// error path: below err != nil the function returns a non-nil error
			reachNilRet := false
			for _, rt := range core.Returns(pd) {
				k := core.ClassifyReturn(rt)
				if k == core.RetSuccess {
					// must derive from the call's events
					derives := false
					for _, leaf := range core.Leaves(core.ResolveResult(rt, 0), core.SliceOpts{}) {
						if leaf == ssa.Value(dyn) {
							derives = true
						}
					}
					if !derives {
						bad = "the returned events do not include the generators' results"
					}
					// and must be unreachable with the nil-error edges cut
					if !core.CutMakesUnreachable(pd, dyn, nilErrEdges(dyn), rt) {
						reachNilRet = true
					}
				}
			}
			if reachNilRet {
				bad = "a generator's error does not abort: the commit proceeds with events missing"
			}
			if bad != "" {
				r.Violate("C11.6", "state.processDBChanges/forward", p.Pos(dyn.Pos()), bad)
			} else {
				r.Hold("C11.6", "state.processDBChanges/forward", p.Pos(dyn.Pos()), "each generator's error aborts the commit; its events are part of the result")
			}
		}
	}

	// (b) service health: every non-delete service change reaches the update fix-up
	sh := p.Func(statePkg, "ServiceHealthEventsFromChanges")
	if sh == nil {
		r.Unresolve("C11.6", "state.ServiceHealthEventsFromChanges", "not found")
	} else {
		name := core.FuncName(sh)
		upd := cmpFieldWithConst(p, sh, "changeType", statePkg, "changeUpdate")
		del := cmpFieldWithConst(p, sh, "changeType", statePkg, "changeDelete")
		// the rename comparison: ServiceName of Before against ServiceName of After
		var rename *ssa.BinOp
		for _, b := range sh.Blocks {
			for _, in := range b.Instrs {
				if cmp, ok := in.(*ssa.BinOp); ok && cmp.Op == token.NEQ {
					ax, ay := core.AccessOf(cmp.X), core.AccessOf(cmp.Y)
					if ax.LastField() == "ServiceName" && ay.LastField() == "ServiceName" && (ax.HasField("Before") && ay.HasField("After") || ax.HasField("After") && ay.HasField("Before")) {
						rename = cmp
					}
				}
			}
		}
		if rename == nil {
			r.Unresolve("C11.6", name+"/rename-fixup", "the comparison of the service name before and after an update was not found")
		} else {
			// the loop this comparison sits in
			var loop *ssa.Next
			for _, nx := range rangeLoops(sh) {
				// body entry: the header's true edge
				hb := nx.Block()
				if len(hb.Succs) != 2 {
					continue
				}
				if core.EdgeDominates(hb, 0, rename.Block()) {
					// innermost: the closest header dominating
					if loop == nil || loop.Block().Dominates(hb) {
						loop = nx
					}
				}
			}
			if loop == nil {
				r.Unresolve("C11.6", name+"/rename-fixup", "enclosing loop not found")
			} else {
				hb := loop.Block()
				// cut: delete-true edges, and stop at the update comparison(s) inside the loop
				cut := map[core.Edge]bool{}
				for _, d := range del {
					if hb.Dominates(d.Block()) {
						for _, e := range eqEdges(d) {
							cut[e] = true
						}
					}
				}
				isUpd := map[ssa.Instruction]bool{}
				for _, u := range upd {
					if hb.Dominates(u.Block()) {
						isUpd[u] = true
					}
				}
				bypass := false
				w := &core.Walk{Cut: func(b *ssa.BasicBlock, si int) bool { return cut[core.Edge{From: b, Succ: si}] },
					Stop:  func(in ssa.Instruction) bool { return isUpd[in] },
					Visit: func(in ssa.Instruction) { bypass = bypass || in == ssa.Instruction(loop) }}
				w.FromEdge(hb, 0)
				switch {
				case len(isUpd) == 0:
					r.Violate("C11.6", name+"/rename-fixup", p.Pos(rename.Pos()), "the rename fix-up is not keyed on the change being an update")
				case bypass:
					r.Violate("C11.6", name+"/rename-fixup", p.Pos(rename.Pos()), "an iteration over the changed services can end (early exit) before a non-delete change is tested for being an update: a service renamed in a transaction that also touches its node gets no deregistration under the old name, and subscribers of the old name keep the instance forever")
				default:
					r.Hold("C11.6", name+"/rename-fixup", p.Pos(rename.Pos()), "every non-delete service change is tested for update (rename / destination change) before any early exit")
				}
				// on the renamed edge, a deregistration built from Before is appended before the iteration ends
				te, _ := core.CondEdges(rename)
				okDereg := len(te) > 0
				for _, e := range te {
					found := false
					w := &core.Walk{Visit: func(in ssa.Instruction) {
						if call, ok := in.(*ssa.Call); ok {
							if g := call.Call.StaticCallee(); g != nil && g.Name() == "newServiceHealthEventDeregister" {
								for _, a := range call.Call.Args {
									if core.AccessOf(a).HasField("Before") {
										found = true
									}
								}
							}
						}
					}, Stop: func(in ssa.Instruction) bool { return in == ssa.Instruction(loop) }}
					w.FromEdge(e.From, e.Succ)
					// must, not may: the first block after the edge contains it
					must := false
					for _, in := range e.From.Succs[e.Succ].Instrs {
						if call, ok := in.(*ssa.Call); ok {
							if g := call.Call.StaticCallee(); g != nil && g.Name() == "newServiceHealthEventDeregister" {
								must = true
							}
						}
					}
					if !found || !must {
						okDereg = false
					}
				}
				if okDereg {
					r.Hold("C11.6", name+"/rename-dereg", p.Pos(rename.Pos()), "a renamed service is deregistered under its old name")
				} else {
					r.Violate("C11.6", name+"/rename-dereg", p.Pos(rename.Pos()), "a renamed service is not deregistered under its old name")
				}
				// deletes emit a deregistration from Before
				okDel := false
				for _, d := range del {
					if !hb.Dominates(d.Block()) {
						continue
					}
					for _, e := range eqEdges(d) {
						for _, in := range e.From.Succs[e.Succ].Instrs {
							if call, ok := in.(*ssa.Call); ok {
								if g := call.Call.StaticCallee(); g != nil && g.Name() == "newServiceHealthEventDeregister" {
									okDel = true
								}
							}
						}
					}
				}
				if okDel {
					r.Hold("C11.6", name+"/delete-dereg", p.FuncPos(sh), "a deleted service instance is deregistered")
				} else {
					r.Violate("C11.6", name+"/delete-dereg", p.FuncPos(sh), "a deleted service instance produces no deregistration event")
				}
			}
		}
	}

	// (c) config entries: below the mapped-kind edge every iteration appends an event
	ce := p.Func(statePkg, "ConfigEntryEventsFromChanges")
	if ce == nil {
		r.Unresolve("C11.6", "state.ConfigEntryEventsFromChanges", "not found")
	} else {
		name := core.FuncName(ce)
		var lookupOK ssa.Value
		var header *ssa.BasicBlock
		for _, b := range ce.Blocks {
			for _, in := range b.Instrs {
				if lk, ok := in.(*ssa.Lookup); ok && lk.CommaOk {
					if g := globalOf(lk.X); g != nil && g.Name() == "configEntryKindToTopic" && lk.Referrers() != nil {
						for _, rr := range *lk.Referrers() {
							if ex, ok := rr.(*ssa.Extract); ok && ex.Index == 1 {
								lookupOK = ex
								header = loopHeaderOf(b)
							}
						}
					}
				}
			}
		}
		if lookupOK == nil || header == nil {
			r.Unresolve("C11.6", name+"/mapped-kind", "kind→topic lookup or loop not found")
		} else {
			te, _ := core.CondEdges(lookupOK)
			bypass := false
			for _, e := range te {
				w := &core.Walk{
					Stop: func(in ssa.Instruction) bool {
						call, ok := in.(*ssa.Call)
						if !ok {
							return false
						}
						g := call.Call.StaticCallee()
						return g != nil && g.Name() == "configEntryEvent"
					}}
				w.FromEdge(e.From, e.Succ)
				bypass = bypass || w.Reached(header)
			}
			// the delete op
			delOp := false
			for _, b := range ce.Blocks {
				for _, in := range b.Instrs {
					if call, ok := in.(*ssa.Call); ok && core.MethodNameOf(&call.Call) == "Deleted" {
						delOp = true
					}
				}
			}
			switch {
			case len(te) == 0 || bypass:
				r.Violate("C11.6", name+"/mapped-kind", p.FuncPos(ce), "a change to a config entry of a streamed kind can pass without an event")
			case !delOp:
				r.Violate("C11.6", name+"/mapped-kind", p.FuncPos(ce), "deletions are not distinguished from upserts")
			default:
				r.Hold("C11.6", name+"/mapped-kind", p.FuncPos(ce), "every change of a streamed kind yields an upsert or delete event")
			}
		}
	}
	r.Floor("C11.6", 9)
}
