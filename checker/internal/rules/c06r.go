package rules

import (
	"fmt"
	"sort"
	"strings"

	"golang.org/x/tools/go/ssa"

	"verifcheck/internal/core"
)

// C06.R — table coverage of a reader's index.
//
// For every exported index-returning reader of package state: the tables
// whose rows it reads (transitively, through state helpers) against the
// constants that may flow into the keys it looks up in the index table.
// Both sides are may-sets; the key side is deliberately over-approximated
// (every string constant that can reach an index key), so a table reported
// as uncovered really has no index key naming it anywhere on the reader's
// paths.

type readSummary struct {
	consts      core.StrSet
	keyParams   map[int]bool
	tables      core.StrSet
	tableParams map[int]bool
	keyFns      core.StrSet // key-builder functions whose result is used as an index key
	via         map[string]string // table → call chain to the read
}

func newReadSummary() *readSummary {
	return &readSummary{consts: core.StrSet{}, keyParams: map[int]bool{}, tables: core.StrSet{}, tableParams: map[int]bool{}, keyFns: core.StrSet{}, via: map[string]string{}}
}

func readSummaryOf(p *core.Program, f *ssa.Function, stack map[*ssa.Function]bool) *readSummary {
	key := "readSummary:" + f.String()
	if v, ok := p.MemoGet(key); ok {
		return v.(*readSummary)
	}
	s := newReadSummary()
	if f.Blocks == nil || stack[f] {
		return s
	}
	stack[f] = true
	defer delete(stack, f)
	paramIdx := func(par *ssa.Parameter) int {
		for i, q := range f.Params {
			if q == par {
				return i
			}
		}
		return -1
	}
	flow := func(v ssa.Value, consts core.StrSet, params map[int]bool) {
		for _, leaf := range core.Leaves(v, core.SliceOpts{ThroughCalls: true}) {
			switch x := leaf.(type) {
			case *ssa.Const:
				if str, ok := core.ConstString(x); ok {
					consts[str] = true
				}
			case *ssa.Parameter:
				if i := paramIdx(x); i >= 0 {
					params[i] = true
				}
			case *ssa.Call:
				if g := x.Call.StaticCallee(); g != nil {
					s.keyFns[g.Name()] = true
				}
			}
		}
	}
	var scan func(g *ssa.Function)
	scan = func(g *ssa.Function) {
		for _, b := range g.Blocks {
			for _, in := range b.Instrs {
				if op := core.AsMemdbOp(in); op != nil {
					if !op.IsRead() {
						continue
					}
					switch {
					case op.TableKnown && op.Table == indexTableName:
						for _, a := range op.Args {
							flow(a, s.consts, s.keyParams)
						}
					case op.TableKnown:
						s.tables[op.Table] = true
						if _, ok := s.via[op.Table]; !ok {
							s.via[op.Table] = core.FuncName(g) + " at " + p.Pos(in.Pos())
						}
					default:
						if g == f {
							flow(op.TableVal, s.tables, s.tableParams)
						}
					}
					continue
				}
				ci, ok := in.(ssa.CallInstruction)
				if !ok {
					continue
				}
				h := ci.Common().StaticCallee()
				if h == nil || h.Blocks == nil || h.Pkg == nil || !strings.HasSuffix(h.Pkg.Pkg.Path(), "/"+statePkg) {
					continue
				}
				hs := readSummaryOf(p, h, stack)
				for k := range hs.consts {
					s.consts[k] = true
				}
				for k := range hs.tables {
					s.tables[k] = true
					if _, ok := s.via[k]; !ok {
						s.via[k] = core.FuncName(h) + " → " + hs.via[k]
					}
				}
				for k := range hs.keyFns {
					s.keyFns[k] = true
				}
				args := ci.Common().Args
				if g == f {
					for i := range hs.keyParams {
						if i < len(args) {
							flow(args[i], s.consts, s.keyParams)
						}
					}
					for i := range hs.tableParams {
						if i < len(args) {
							flow(args[i], s.tables, s.tableParams)
						}
					}
				}
			}
		}
		for _, a := range g.AnonFuncs {
			scan(a)
		}
	}
	scan(f)
	if len(stack) == 1 {
		p.MemoSet(key, s)
	}
	return s
}

func checkReaderTableCoverage(c *Ctx) {
	p, r := c.P, c.R
	var survey []string
	n := 0
	for _, f := range p.SrcFuncs(statePkg) {
		if f.Parent() != nil || f.Object() == nil || !f.Object().Exported() {
			continue
		}
		res := f.Signature.Results()
		if res.Len() < 2 || !isUint(res.At(0).Type()) {
			continue
		}
		isReader := false
		for _, prm := range f.Params {
			ts := core.ShortType(prm.Type())
			if strings.Contains(ts, "WatchSet") || strings.Contains(ts, "ReadTxn") || strings.Contains(ts, "memdb.Txn") {
				isReader = true
			}
		}
		if !isReader || mayWrite(p, f) {
			continue
		}
		s := readSummaryOf(p, f, map[*ssa.Function]bool{})
		var missing []string
		for _, t := range s.tables.Keys() {
			if t == indexTableName {
				continue
			}
			covered := s.consts[t]
			for _, k := range extraFamily[t] {
				if s.consts[k] {
					covered = true
				}
			}
			for _, fn := range extraFamilyFn[t] {
				if s.keyFns[fn] {
					covered = true
				}
			}
			if _, ok := rowIndexTables[t]; ok {
				covered = true
			}
			if _, ok := internalTables[t]; ok {
				covered = true
			}
			for k := range s.consts {
				if strings.HasPrefix(k, t+".") {
					covered = true // a key derived from the table's name
				}
			}
			if !covered {
				missing = append(missing, t+" (via "+s.via[t]+")")
			}
		}
		sort.Strings(missing)
		n++
		name := core.FuncName(f)
		survey = append(survey, fmt.Sprintf("%s: reads %v; index keys mention %v; uncovered %v", name, s.tables.Keys(), s.consts.Keys(), missing))
		_ = r
	}
	r.Analysed["reader_table_coverage"] = survey
}
