package rules

import (
	"fmt"
	"sort"
	"strings"

	"golang.org/x/tools/go/ssa"

	"verifcheck/internal/core"
)

// C06.R — table coverage of a reader's index.
//
// For every exported index-returning reader of package state: the tables
// whose rows it reads (transitively, through state helpers) against the
// constants that may flow into the keys it looks up in the index table.
// Both sides are may-sets; the key side is deliberately over-approximated
// (every string constant that can reach an index key), so a table reported
// as uncovered really has no index key naming it anywhere on the reader's
// paths.

type readSummary struct {
	consts      core.StrSet
	keyParams   map[int]bool
	tables      core.StrSet
	tableParams map[int]bool
	keyFns      core.StrSet // key-builder functions whose result is used as an index key
	via         map[string]string // table → call chain to the read
}

func newReadSummary() *readSummary {
	return &readSummary{consts: core.StrSet{}, keyParams: map[int]bool{}, tables: core.StrSet{}, tableParams: map[int]bool{}, keyFns: core.StrSet{}, via: map[string]string{}}
}

func readSummaryOf(p *core.Program, f *ssa.Function, stack map[*ssa.Function]bool) *readSummary {
	key := "readSummary:" + f.String()
	if v, ok := p.MemoGet(key); ok {
		return v.(*readSummary)
	}
	s := newReadSummary()
	if f.Blocks == nil || stack[f] {
		return s
	}
	stack[f] = true
	defer delete(stack, f)
	paramIdx := func(par *ssa.Parameter) int {
		for i, q := range f.Params {
			if q == par {
				return i
			}
		}
		return -1
	}
	flow := func(v ssa.Value, consts core.StrSet, params map[int]bool) {
		for _, leaf := range core.Leaves(v, core.SliceOpts{ThroughCalls: true}) {
			switch x := leaf.(type) {
			case *ssa.Const:
				if str, ok := core.ConstString(x); ok {
					consts[str] = true
				}
			case *ssa.Parameter:
				if i := paramIdx(x); i >= 0 {
					params[i] = true
				}
			case *ssa.Call:
				if g := x.Call.StaticCallee(); g != nil {
					s.keyFns[g.Name()] = true
				}
			}
		}
	}
	var scan func(g *ssa.Function)
	scan = func(g *ssa.Function) {
		for _, b := range g.Blocks {
			for _, in := range b.Instrs {
				if op := core.AsMemdbOp(in); op != nil {
					if !op.IsRead() {
						continue
					}
					switch {
					case op.TableKnown && op.Table == indexTableName:
						for _, a := range op.Args {
							flow(a, s.consts, s.keyParams)
						}
					case op.TableKnown:
						s.tables[op.Table] = true
						if _, ok := s.via[op.Table]; !ok {
							s.via[op.Table] = core.FuncName(g) + " at " + p.Pos(in.Pos())
						}
					default:
						if g == f {
							flow(op.TableVal, s.tables, s.tableParams)
						}
					}
					continue
				}
				ci, ok := in.(ssa.CallInstruction)
				if !ok {
					continue
				}
				h := ci.Common().StaticCallee()
				if h == nil || h.Blocks == nil || h.Pkg == nil || !strings.HasSuffix(h.Pkg.Pkg.Path(), "/"+statePkg) {
					continue
				}
				hs := readSummaryOf(p, h, stack)
				for k := range hs.consts {
					s.consts[k] = true
				}
				for k := range hs.tables {
					s.tables[k] = true
					if _, ok := s.via[k]; !ok {
						s.via[k] = core.FuncName(h) + " → " + hs.via[k]
					}
				}
				for k := range hs.keyFns {
					s.keyFns[k] = true
				}
				args := ci.Common().Args
				if g == f {
					for i := range hs.keyParams {
						if i < len(args) {
							flow(args[i], s.consts, s.keyParams)
						}
					}
					for i := range hs.tableParams {
						if i < len(args) {
							flow(args[i], s.tables, s.tableParams)
						}
					}
				}
			}
		}
		for _, a := range g.AnonFuncs {
			scan(a)
		}
	}
	scan(f)
	if len(stack) == 1 {
		p.MemoSet(key, s)
	}
	return s
}

// entity-key families: a reader that consults a per-entity key built by one of
// these functions covers the table only if EVERY write site of the table bumps
// a key built by the same function (verified below, not assumed).
var entityKeyFamilies = map[string][]string{
	"services": {"nodeIndexName"},
}

// tables whose rows are themselves the index source of their dedicated reader.
var selfIndexedTables = map[string]string{
	"tombstones": "the graveyard reader returns the largest tombstone index; the tombstone rows are the index source (expiry is the property's stated exception)",
}

func checkReaderTableCoverage(c *Ctx) {
	p, r := c.P, c.R
	// verify the entity-key families against the write sites
	sites, _ := stateWriteSites(p)
	familyOK := map[string]map[string]bool{}
	for table, fns := range entityKeyFamilies {
		familyOK[table] = map[string]bool{}
		for _, fn := range fns {
			ok, nSites := true, 0
			for _, s := range sites {
				if s.op.Table != table || isRestoreMethod(s.fn) {
					continue
				}
				nSites++
				keys, _ := bumpsAfter(p, s.op.Instr, bulkDeleteCut(s.op), 6)
				has := false
				for _, k := range keys.Keys() {
					if strings.HasPrefix(k, fn+"(") {
						has = true
					}
				}
				if !has {
					ok = false
					r.Violate("C06.R", "family/"+table+"/"+fn+"/"+core.FuncName(s.fn), p.Pos(s.op.Instr.Pos()), fmt.Sprintf("a write to %s does not bump a %s key on every path: readers that rely on that per-entity key (NodeServices) would miss this change", table, fn))
				}
			}
			if ok && nSites > 0 {
				familyOK[table][fn] = true
				r.Hold("C06.R", "family/"+table+"/"+fn, "", fmt.Sprintf("all %d write sites of %s bump a %s key", nSites, table, fn))
			}
		}
	}
	var survey []string
	n := 0
	for _, f := range p.SrcFuncs(statePkg) {
		if f.Parent() != nil || f.Object() == nil || !f.Object().Exported() {
			continue
		}
		res := f.Signature.Results()
		if res.Len() < 2 || !isUint(res.At(0).Type()) {
			continue
		}
		isReader := false
		for _, prm := range f.Params {
			ts := core.ShortType(prm.Type())
			if strings.Contains(ts, "WatchSet") || strings.Contains(ts, "ReadTxn") || strings.Contains(ts, "memdb.Txn") {
				isReader = true
			}
		}
		if !isReader || mayWrite(p, f) {
			continue
		}
		s := readSummaryOf(p, f, map[*ssa.Function]bool{})
		name := core.FuncName(f)
		n++
		var missing []string
		for _, t := range s.tables.Keys() {
			if t == indexTableName {
				continue
			}
			covered := s.consts[t]
			why := "an index key naming the table is consulted"
			for _, k := range extraFamily[t] {
				if s.consts[k] {
					covered = true
				}
			}
			for _, fn := range extraFamilyFn[t] {
				if s.keyFns[fn] {
					covered = true
				}
			}
			for k := range s.consts {
				if strings.HasPrefix(k, t+".") {
					covered = true // a key derived from the table's name
				}
			}
			for fn := range familyOK[t] {
				if s.keyFns[fn] {
					covered, why = true, "the per-entity key "+fn+" is consulted and every write of the table bumps it"
				}
			}
			if w, ok := rowIndexTables[t]; ok {
				covered, why = true, w
			}
			if w, ok := internalTables[t]; ok {
				covered, why = true, w
			}
			if w, ok := selfIndexedTables[t]; ok {
				covered, why = true, w
			}
			construct := name + "/" + t
			if covered {
				r.Hold("C06.R", construct, p.FuncPos(f), why)
			} else {
				missing = append(missing, t)
				r.Violate("C06.R", construct, p.FuncPos(f), fmt.Sprintf("the query reads table %s (via %s) but none of the index keys it consults names that table (keys mention: %s): a write to %s that changes this query's result leaves the reported index where it was, so a blocked client is woken by its watch (or not at all) and goes back to sleep", t, s.via[t], strings.Join(s.consts.Keys(), ", "), t))
			}
		}
		sort.Strings(missing)
		survey = append(survey, fmt.Sprintf("%s: reads %v; index keys mention %v; uncovered %v", name, s.tables.Keys(), s.consts.Keys(), missing))
	}
	r.Analysed["reader_table_coverage"] = survey
	r.Floor("C06.R", 150)
}
