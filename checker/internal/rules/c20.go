package rules

import (
	"fmt"
	"go/token"
	"strings"

	"golang.org/x/tools/go/ssa"

	"verifcheck/internal/core"
)

func init() {
	register(&Rule{ID: "C20", Patterns: []string{"./snapshot", "./command/snapshot/...", "./agent/consul"}, Run: runC20})
}

const snapPkg = "snapshot"

// successGuarded: every non-failing return of f lies below the nil edge of the
// error produced by `guard` (edge cut from the function entry).
func successGuarded(f *ssa.Function, guard ssa.Instruction) (bool, *ssa.Return) {
	var errV ssa.Value
	if v, ok := guard.(ssa.Value); ok {
		if core.IsErrorType(v.Type()) {
			errV = v
		} else if v.Referrers() != nil {
			for _, rr := range *v.Referrers() {
				if ex, ok := rr.(*ssa.Extract); ok && core.IsErrorType(ex.Type()) {
					errV = ex
				}
			}
		}
	}
	if errV == nil {
		return false, nil
	}
	var nilEdges []core.Edge
	for _, cmp := range nilCmps(errV) {
		te, fe := core.CondEdges(cmp)
		if cmp.Op == token.EQL {
			nilEdges = append(nilEdges, te...)
		} else {
			nilEdges = append(nilEdges, fe...)
		}
	}
	if len(nilEdges) == 0 {
		return false, nil
	}
	for _, rt := range core.Returns(f) {
		if core.ClassifyReturn(rt) == core.RetFailure {
			continue
		}
		if !core.CutMakesUnreachable(f, nil, nilEdges, rt) {
			return false, rt
		}
	}
	return true, nil
}

func callsTo(f *ssa.Function, pred func(*ssa.CallCommon) bool) []ssa.Instruction {
	var out []ssa.Instruction
	for _, b := range f.Blocks {
		for _, in := range b.Instrs {
			if ci, ok := in.(ssa.CallInstruction); ok && pred(ci.Common()) {
				out = append(out, in)
			}
		}
	}
	return out
}

func runC20(c *Ctx) {
	p, r := c.P, c.R
	r.Clauses = []string{
		"C20.1 the archive writer and reader agree on the member names, every member except the checksum file is registered in the hash list on both sides, and an unexpected member is an error",
		"C20.2 every registered hash is fed while the member is written and while it is read; the hash list hands out one hash per name (a repeated name continues the same hash)",
		"C20.3 the reader cannot succeed without the checksum verification having succeeded; the verification rejects a mismatching digest, an unlisted name, and a listed-but-missing file",
		"C20.5 the metadata document is encoded from and decoded into the same static type (raft.SnapshotMeta): no detour through a generic map or another struct, which would change 64-bit counters or drop fields without the checksum noticing",
		"C20.6 the gzip reader is left in multistream mode (no Multistream(false)): stopping after the first gzip member would let content appended behind the archive escape the unread-bytes check",
		"C20.4 nothing reaches Raft before verification: Read/Verify succeed only below successful read and gzip conclusion, and raft.Restore is called only by snapshot.Restore, below a successful Read",
	}
	r.NotDecided = []string{"byte-exact round trip", "detection at every corruption position (tar/gzip framing is library behaviour)"}

	wf := p.Func(snapPkg, "write")
	rf := p.Func(snapPkg, "read")
	if wf == nil || rf == nil {
		r.Unresolve("C20.1", "snapshot.read/write", "archive functions not found")
		return
	}
	// member names written: stores of constant strings to tar.Header.Name in write
	written := map[string]bool{}
	for _, gf := range funcGroup(wf, 2) {
		for _, b := range gf.Blocks {
			for _, in := range b.Instrs {
				st, ok := in.(*ssa.Store)
				if !ok {
					continue
				}
				fa, ok := st.Addr.(*ssa.FieldAddr)
				if !ok || core.FieldObj(fa).Name() != "Name" {
					continue
				}
				if n := core.NamedOf(fa.X.Type()); n == nil || n.Obj().Name() != "Header" {
					continue
				}
				if s, ok := core.ConstString(st.Val); ok {
					written[s] = true
				}
			}
		}
	}
	// member names the reader has a case for: comparisons of Header.Name with constants
	readCases := map[string]bool{}
	var caseEdges []core.Edge
	rgroup, wgroup := funcGroup(rf, 2), funcGroup(wf, 2)
	for _, gf := range rgroup {
		for _, b := range gf.Blocks {
			for _, in := range b.Instrs {
				cmp, ok := in.(*ssa.BinOp)
				if !ok || cmp.Op != token.EQL {
					continue
				}
				var k string
				var other ssa.Value
				if s, ok := core.ConstString(cmp.Y); ok {
					k, other = s, cmp.X
				} else if s, ok := core.ConstString(cmp.X); ok {
					k, other = s, cmp.Y
				} else {
					continue
				}
				if core.AccessOf(other).LastField() != "Name" {
					continue
				}
				readCases[k] = true
				te, _ := core.CondEdges(cmp)
				caseEdges = append(caseEdges, te...)
			}
		}
	}
	hashed := func(fs []*ssa.Function) (map[string]ssa.Value, []string) {
		out := map[string]ssa.Value{}
		var nonConst []string
		for _, in := range callsToGroup(fs, func(cm *ssa.CallCommon) bool {
			g := cm.StaticCallee()
			return g != nil && g.Name() == "Add" && g.Signature.Recv() != nil && strings.HasSuffix(core.ShortType(g.Signature.Recv().Type()), "hashList")
		}) {
			args := core.CallArgs(in.(ssa.CallInstruction).Common())
			if len(args) == 1 {
				if s, ok := core.ConstString(args[0]); ok {
					if _, dup := out[s]; dup {
						nonConst = append(nonConst, "duplicate registration of "+s+" at "+p.Pos(in.Pos()))
					}
					out[s] = in.(ssa.Value)
				} else {
					nonConst = append(nonConst, "non-constant member name at "+p.Pos(in.Pos()))
				}
			}
		}
		return out, nonConst
	}
	hw, ncw := hashed(wgroup)
	hr, ncr := hashed(rgroup)
	for _, m := range sortedKeys(written) {
		construct := "member:" + m
		switch {
		case !readCases[m]:
			r.Violate("C20.1", construct, p.FuncPos(wf), "the writer emits member "+m+" but the reader has no case for it: every archive the writer produces is rejected (or the member is ignored)")
		case m != "SHA256SUMS" && (hw[m] == nil || hr[m] == nil):
			r.Violate("C20.1", construct, p.FuncPos(wf), fmt.Sprintf("member %s is not registered in the hash list on both sides (writer=%v reader=%v): its bytes are not covered by the checksum file", m, hw[m] != nil, hr[m] != nil))
		default:
			r.Hold("C20.1", construct, p.FuncPos(wf), "written, read, hashed on both sides")
		}
	}
	for _, m := range sortedKeys(readCases) {
		if !written[m] {
			r.Violate("C20.1", "member:"+m, p.FuncPos(rf), "the reader accepts member "+m+" which the writer never produces: an extra member is silently accepted")
		}
	}
	for _, s := range append(ncw, ncr...) {
		r.Violate("C20.1", "hashList.Add/"+s, "", "hash registration is not one constant name per member: "+s+" (a repeated member would get a fresh hash, so the checksum covers only its last occurrence)")
	}
	r.Floor("C20.1", 3)
	// default case: with all case edges removed, the path from tar.Next must end in failure, never loop
	for _, nx := range callsToGroup(rgroup, func(cm *ssa.CallCommon) bool { return core.MethodNameOf(cm) == "Next" }) {
		cut := map[core.Edge]bool{}
		for _, e := range caseEdges {
			cut[e] = true
		}
		// also remove the error/EOF edges of Next's own error
		var errV ssa.Value
		if v, ok := nx.(ssa.Value); ok && v.Referrers() != nil {
			for _, rr := range *v.Referrers() {
				if ex, ok := rr.(*ssa.Extract); ok && core.IsErrorType(ex.Type()) {
					errV = ex
				}
			}
		}
		if errV != nil && errV.Referrers() != nil {
			for _, rr := range *errV.Referrers() {
				if cmp, ok := rr.(*ssa.BinOp); ok && (cmp.Op == token.EQL || cmp.Op == token.NEQ) {
					te, fe := core.CondEdges(cmp)
					// keep only the "no error, not EOF" continuation: err == io.EOF true edge and err != nil true edge are cut
					if core.IsNilConst(cmp.Y) || core.IsNilConst(cmp.X) {
						if cmp.Op == token.NEQ {
							for _, e := range te {
								cut[e] = true
							}
						} else {
							for _, e := range fe {
								cut[e] = true
							}
						}
					} else {
						if cmp.Op == token.EQL {
							for _, e := range te {
								cut[e] = true
							}
						} else {
							for _, e := range fe {
								cut[e] = true
							}
						}
					}
				}
			}
		}
		loops, okReturn := false, false
		badRet := ""
		w := &core.Walk{
			Cut:  func(b *ssa.BasicBlock, si int) bool { return cut[core.Edge{From: b, Succ: si}] },
			Stop: func(in ssa.Instruction) bool { return in == nx },
			Visit: func(in ssa.Instruction) {
				if in == nx {
					loops = true
				}
				if rt, ok := in.(*ssa.Return); ok {
					if core.ClassifyReturn(rt) == core.RetFailure {
						okReturn = true
					} else {
						badRet = p.Pos(rt.Pos())
					}
				}
			},
		}
		w.FromInstr(nx)
		switch {
		case loops:
			r.Violate("C20.1", "read/unexpected-member", p.Pos(nx.Pos()), "a member whose name matches no case is skipped and the loop goes on: an archive with an unexpected member is accepted")
		case badRet != "":
			r.Violate("C20.1", "read/unexpected-member", p.Pos(nx.Pos()), "a member whose name matches no case leads to a successful return at "+badRet)
		case okReturn:
			r.Hold("C20.1", "read/unexpected-member", p.Pos(nx.Pos()), "an unexpected member is an error")
		default:
			r.Undecide("C20.1", "read/unexpected-member", p.Pos(nx.Pos()), "cannot find the default path")
		}
	}

	// ---- C20.2 hashes are fed
	for _, side := range []struct {
		name string
		m    map[string]ssa.Value
	}{{"write", hw}, {"read", hr}} {
		for _, m := range sortedKeys(boolKeys(side.m)) {
			fed := false
			core.ForwardUses(side.m[m], func(u ssa.Instruction, _ ssa.Value) {
				if ci, ok := u.(ssa.CallInstruction); ok {
					nm := core.CalleeName(ci.Common())
					if nm == "io.TeeReader" || nm == "io.MultiWriter" || nm == "io.Copy" || nm == "io.CopyN" {
						fed = true
					}
				}
			})
			construct := side.name + "/hash:" + m
			if fed {
				r.Hold("C20.2", construct, p.Pos(side.m[m].Pos()), "the member's bytes pass through its hash")
			} else {
				r.Violate("C20.2", construct, p.Pos(side.m[m].Pos()), "the hash registered for "+m+" in "+side.name+" is never fed the member's bytes: the checksum comparison is vacuous (or always fails)")
			}
		}
	}
	r.Floor("C20.2", 4)
	// hashList.Add returns the existing hash for a repeated name
	if add := p.Func(snapPkg, "(*hashList).Add"); add != nil {
		returnsExisting := false
		for _, b := range add.Blocks {
			for _, in := range b.Instrs {
				lk, ok := in.(*ssa.Lookup)
				if !ok || !lk.CommaOk || lk.Referrers() == nil {
					continue
				}
				var val, okv ssa.Value
				for _, rr := range *lk.Referrers() {
					if ex, isEx := rr.(*ssa.Extract); isEx {
						if ex.Index == 0 {
							val = ex
						} else {
							okv = ex
						}
					}
				}
				if val == nil || okv == nil {
					continue
				}
				te, _ := core.CondEdges(okv)
				for _, e := range te {
					w := &core.Walk{Visit: func(x ssa.Instruction) {
						if rt, isR := x.(*ssa.Return); isR && len(rt.Results) == 1 && core.ResolveResult(rt, 0) == val {
							returnsExisting = true
						}
					}}
					w.FromEdge(e.From, e.Succ)
				}
			}
		}
		if returnsExisting {
			r.Hold("C20.2", "hashList.Add/idempotent", p.FuncPos(add), "a repeated name gets the hash already registered")
		} else {
			r.Violate("C20.2", "hashList.Add/idempotent", p.FuncPos(add), "a repeated name gets a fresh hash that replaces the running one: with a duplicated member only its last occurrence is covered by SHA256SUMS while all occurrences are extracted")
		}
	} else {
		r.Unresolve("C20.2", "snapshot.(*hashList).Add", "not found")
	}

	// ---- C20.3
	dv := callsTo(rf, func(cm *ssa.CallCommon) bool { return core.MethodNameOf(cm) == "DecodeAndVerify" })
	if len(dv) == 0 {
		r.Violate("C20.3", "read/verify", p.FuncPos(rf), "the archive reader never verifies the checksums")
	} else if ok, rt := successGuarded(rf, dv[0]); ok {
		r.Hold("C20.3", "read/verify", p.Pos(dv[0].Pos()), "every successful return of the reader lies below a successful DecodeAndVerify")
	} else {
		where := ""
		if rt != nil {
			where = " (return at " + p.Pos(rt.Pos()) + ")"
		}
		r.Violate("C20.3", "read/verify", p.Pos(dv[0].Pos()), "the reader can succeed without the checksum verification having succeeded"+where+": a corrupted archive is accepted")
	}
	if dvf := p.Func(snapPkg, "(*hashList).DecodeAndVerify"); dvf != nil {
		// (a) mismatch → error, (b) unlisted name → error
		failOnly := func(edges []core.Edge, self ssa.Instruction) (bool, bool) {
			any, all := false, true
			for _, e := range edges {
				w := &core.Walk{
					Stop: func(in ssa.Instruction) bool { return in == self }, // next iteration of the scan loop
					Visit: func(in ssa.Instruction) {
						if rt, ok := in.(*ssa.Return); ok {
							any = true
							if core.ClassifyReturn(rt) != core.RetFailure {
								all = false
							}
						}
					}}
				w.FromEdge(e.From, e.Succ)
			}
			return any, all
		}
		okA, okB := false, false
		for _, b := range dvf.Blocks {
			for _, in := range b.Instrs {
				switch x := in.(type) {
				case *ssa.Call:
					if core.CalleeName(&x.Call) == "bytes.Equal" {
						_, fe := core.CondEdges(x)
						if any, all := failOnly(fe, x); any && all {
							okA = true
						}
					}
				case *ssa.Lookup:
					if x.CommaOk && core.AccessOf(x.X).LastField() == "hashes" && x.Referrers() != nil {
						for _, rr := range *x.Referrers() {
							if ex, ok := rr.(*ssa.Extract); ok && ex.Index == 1 {
								_, fe := core.CondEdges(ex)
								if any, all := failOnly(fe, x); any && all {
									okB = true
								}
							}
						}
					}
				}
			}
		}
		// (c) completeness: success only after ranging over the registered hashes
		mf := &core.MustFlow{F: dvf, Gen: func(in ssa.Instruction) []string {
			if rg, ok := in.(*ssa.Range); ok && core.AccessOf(rg.X).LastField() == "hashes" {
				return []string{"complete"}
			}
			return nil
		}}
		mf.Run()
		okC := true
		for _, rt := range core.Returns(dvf) {
			if core.ClassifyReturn(rt) == core.RetFailure {
				continue
			}
			if s, reach := mf.At(rt); reach && !s["complete"] {
				okC = false
			}
		}
		for _, chk := range []struct {
			name string
			ok   bool
			why  string
		}{
			{"mismatch", okA, "a digest that differs from the recomputed one does not lead to an error: altered state or metadata bytes are accepted"},
			{"unlisted", okB, "a checksum line for a name that was never hashed does not lead to an error"},
			{"completeness", okC, "verification can succeed without checking that every hashed member has a checksum line: an archive lacking a member's checksum is accepted"},
		} {
			if chk.ok {
				r.Hold("C20.3", "DecodeAndVerify/"+chk.name, p.FuncPos(dvf), "rejects")
			} else {
				r.Violate("C20.3", "DecodeAndVerify/"+chk.name, p.FuncPos(dvf), chk.why)
			}
		}
	} else {
		r.Unresolve("C20.3", "snapshot.(*hashList).DecodeAndVerify", "not found")
	}
	r.Floor("C20.3", 4)

	// ---- C20.4
	for _, fn := range []string{"Read", "Verify"} {
		f := p.Func(snapPkg, fn)
		if f == nil {
			r.Unresolve("C20.4", "snapshot."+fn, "not found")
			continue
		}
		for _, want := range []string{"read", "concludeGzipRead"} {
			construct := "snapshot." + fn + "/" + want
			site, ok, rt := successNeeds(f, func(g *ssa.Function) bool {
				return g.Name() == want && core.FuncPkgPath(g) == core.ConsulModulePrefix+"/"+snapPkg
			}, 2)
			switch {
			case site == nil:
				r.Violate("C20.4", construct, p.FuncPos(f), fn+" no longer calls "+want+": truncated or unverified archives are handed on")
			case ok:
				r.Hold("C20.4", construct, p.Pos(site.Pos()), "success only below a successful "+want)
			default:
				where := ""
				if rt != nil {
					where = " (return at " + p.Pos(rt.Pos()) + ")"
				}
				r.Violate("C20.4", construct, p.Pos(site.Pos()), fn+" can succeed although "+want+" failed"+where)
			}
		}
	}
	// raft.Restore: only from snapshot.Restore, below a successful Read
	nRaft := 0
	for path := range p.All {
		if !core.IsConsul(path) {
			continue
		}
		rel := strings.TrimPrefix(path, core.ConsulModulePrefix+"/")
		for _, f := range p.SrcFuncs(rel) {
			for _, in := range callsTo(f, func(cm *ssa.CallCommon) bool {
				g := cm.StaticCallee()
				return g != nil && g.Name() == "Restore" && g.Signature.Recv() != nil && strings.HasSuffix(core.ShortType(g.Signature.Recv().Type()), "raft.Raft")
			}) {
				nRaft++
				construct := core.FuncName(f) + "/raft.Restore"
				if core.FuncPkgPath(f) != core.ConsulModulePrefix+"/"+snapPkg {
					r.Violate("C20.4", construct, p.Pos(in.Pos()), "raft.Restore is called outside package snapshot: archive contents can reach Raft without going through read's verification")
					continue
				}
				reads := callsTo(f, func(cm *ssa.CallCommon) bool {
					g := cm.StaticCallee()
					return g != nil && g.Name() == "Read" && core.FuncPkgPath(g) == core.ConsulModulePrefix+"/"+snapPkg
				})
				if len(reads) == 0 {
					r.Violate("C20.4", construct, p.Pos(in.Pos()), "raft.Restore is not preceded by snapshot.Read")
					continue
				}
				var errV ssa.Value
				if v, ok := reads[0].(ssa.Value); ok && v.Referrers() != nil {
					for _, rr := range *v.Referrers() {
						if ex, ok := rr.(*ssa.Extract); ok && core.IsErrorType(ex.Type()) {
							errV = ex
						}
					}
				}
				var nilEdges []core.Edge
				if errV != nil {
					for _, cmp := range nilCmps(errV) {
						te, fe := core.CondEdges(cmp)
						if cmp.Op == token.EQL {
							nilEdges = append(nilEdges, te...)
						} else {
							nilEdges = append(nilEdges, fe...)
						}
					}
				}
				if len(nilEdges) > 0 && core.CutMakesUnreachable(f, nil, nilEdges, in) {
					r.Hold("C20.4", construct, p.Pos(in.Pos()), "raft.Restore only below a successful snapshot.Read")
				} else {
					r.Violate("C20.4", construct, p.Pos(in.Pos()), "raft.Restore is reachable on a path where snapshot.Read did not succeed: an unverified archive is handed to Raft")
				}
			}
		}
	}
	if nRaft == 0 {
		r.MissingInstance("C20.4", "<raft.Restore>", "no call to raft.Restore found in the loaded packages")
	}
	r.Floor("C20.4", 5)
	checkMetaTypeAgreement(c)
	checkGzipMultistream(c)
}

func boolKeys(m map[string]ssa.Value) map[string]bool {
	out := map[string]bool{}
	for k := range m {
		out[k] = true
	}
	return out
}

// C20.5
func checkMetaTypeAgreement(c *Ctx) {
	p, r := c.P, c.R
	typeOfJSONArg := func(f *ssa.Function, method string) []string {
		var out []string
		for _, in := range callsToGroup(funcGroup(f, 2), func(cm *ssa.CallCommon) bool {
			g := cm.StaticCallee()
			if g == nil || g.Pkg == nil || g.Pkg.Pkg.Path() != "encoding/json" {
				return false
			}
			return g.Name() == method || (method == "Decode" && g.Name() == "Unmarshal") || (method == "Encode" && g.Name() == "Marshal")
		}) {
			args := in.(ssa.CallInstruction).Common().Args
			v := args[len(args)-1]
			if mi, ok := v.(*ssa.MakeInterface); ok {
				v = mi.X
			}
			out = append(out, core.ShortType(v.Type()))
		}
		return out
	}
	var wf, rf *ssa.Function
	for _, f := range p.SrcFuncs("snapshot") {
		switch f.Name() {
		case "write":
			wf = f
		case "read":
			rf = f
		}
	}
	if wf == nil || rf == nil {
		r.Unresolve("C20.5", "snapshot.write/read", "not found")
		return
	}
	enc, dec := typeOfJSONArg(wf, "Encode"), typeOfJSONArg(rf, "Decode")
	ok := len(enc) > 0 && len(dec) > 0
	for _, t := range append(append([]string{}, enc...), dec...) {
		if !strings.HasSuffix(t, "raft.SnapshotMeta") {
			ok = false
		}
	}
	if ok {
		r.Hold("C20.5", "snapshot/meta.json", p.FuncPos(wf), fmt.Sprintf("encoded from %v, decoded into %v", enc, dec))
	} else {
		r.Violate("C20.5", "snapshot/meta.json", p.FuncPos(wf), fmt.Sprintf("the metadata document is encoded from %v and decoded into %v: going through another type (a generic map turns every number into a float64) changes Index/Term/ConfigurationIndex above 2^53 or drops fields, and the checksum is computed over the already altered document, so verification passes and the restored metadata differs from the saved one", enc, dec))
	}
}

// C20.6
func checkGzipMultistream(c *Ctx) {
	p, r := c.P, c.R
	n, readers := 0, 0
	for _, f := range p.SrcFuncs(snapPkg) {
		for _, in := range callsTo(f, func(cm *ssa.CallCommon) bool { return strings.HasSuffix(core.CalleeName(cm), "gzip.NewReader") }) {
			_ = in
			readers++
		}
		for _, in := range callsTo(f, func(cm *ssa.CallCommon) bool {
			g := cm.StaticCallee()
			return g != nil && g.Name() == "Multistream" && g.Pkg != nil && g.Pkg.Pkg.Path() == "compress/gzip"
		}) {
			args := in.(ssa.CallInstruction).Common().Args
			if v, ok := core.ConstBool(args[len(args)-1]); ok && v {
				continue
			}
			n++
			r.Violate("C20.6", core.FuncName(f)+"/Multistream", p.Pos(in.Pos()), "the gzip reader is told to stop after the first member: whatever is appended behind the archive (a second member with an unexpected file, a whole second archive, garbage) is never read, so the unread-bytes check cannot see it and the archive is accepted and handed to Raft")
		}
	}
	if readers == 0 {
		r.MissingInstance("C20.6", "<gzip readers>", "no gzip reader found in package snapshot")
	} else if n == 0 {
		r.Hold("C20.6", "snapshot/gzip", "", fmt.Sprintf("%d gzip readers, all in multistream mode", readers))
	}
}
