package rules

import (
	"fmt"
	"go/token"
	"strings"

	"golang.org/x/tools/go/ssa"

	"verifcheck/internal/core"
)

func init() {
	register(&Rule{ID: "C14", Patterns: []string{"./agent/xds"}, Run: runC14})
}

const xdsPkg = "agent/xds"

// reachesRegex: the string value ends up (possibly through xds helper
// functions it is passed to) in a call to MakeEnvoyRegexMatch.
func reachesRegex(v ssa.Value, depth int) bool {
	if depth > 3 {
		return false
	}
	found := false
	core.ForwardUses(v, func(u ssa.Instruction, via ssa.Value) {
		c2, ok := u.(ssa.CallInstruction)
		if !ok || found {
			return
		}
		if strings.HasSuffix(core.CalleeName(c2.Common()), "MakeEnvoyRegexMatch") {
			found = true
			return
		}
		g := c2.Common().StaticCallee()
		if g == nil || g.Blocks == nil || !strings.HasSuffix(core.FuncPkgPath(g), "/"+xdsPkg) {
			return
		}
		for i, a := range c2.Common().Args {
			if a == via && i < len(g.Params) && reachesRegex(g.Params[i], depth+1) {
				found = true
			}
		}
	})
	return found
}

func runC14(c *Ctx) {
	p, r := c.P, c.R
	r.Clauses = []string{
		"C14.1 every identity component spliced into a SPIFFE principal regex is a constant or has passed regexp.QuoteMeta",
		"C14.2 intentions are sorted by precedence and de-duplicated by source before they are converted, and precedence is removed only afterwards",
		"C14.5 the source containment test answers true only below the edges on which the two sources' peers are equal and their partitions are equal (wildcards never cross a peer or partition boundary)",
		"C14.4 in the pairwise source walk a source is subtracted only from lower-precedence entries, and both containment directions of a pair are handled (more specific: AND NOT; broader: the shadowed entry is dropped)",
		"C14.3 precedence removal never shortens the list it is given and marks an element for removal only when its action equals the default action or below a source-containment test (shadowed by a higher-precedence entry)",
	}
	r.NotDecided = []string{"semantic equivalence of the generated AND/NOT principal and permission algebra with the precedence semantics for all identities and requests (would need an evaluator or a solver)"}

	// ---- C14.1: functions whose string result reaches MakeEnvoyRegexMatch and that build a SpiffeID
	n := 0
	for _, f := range p.SrcFuncs(xdsPkg) {
		if f.Parent() != nil || f.Signature.Results().Len() != 1 || core.ShortType(f.Signature.Results().At(0).Type()) != "string" {
			continue
		}
		// builds a connect.SpiffeID* literal?
		type fieldStore struct {
			field string
			st    *ssa.Store
		}
		var stores []fieldStore
		for _, b := range f.Blocks {
			for _, in := range b.Instrs {
				st, ok := in.(*ssa.Store)
				if !ok {
					continue
				}
				fa, ok := st.Addr.(*ssa.FieldAddr)
				if !ok {
					continue
				}
				nt := core.NamedOf(fa.X.Type())
				if nt == nil || !strings.HasPrefix(nt.Obj().Name(), "SpiffeID") {
					continue
				}
				stores = append(stores, fieldStore{core.FieldObj(fa).Name(), st})
			}
		}
		if len(stores) == 0 {
			continue
		}
		// does the result reach a regex matcher? (callers hand it to MakeEnvoyRegexMatch)
		reaches := false
		for _, ci := range callersOf(p, f, xdsPkg) {
			if v, ok := ci.(ssa.Value); ok && reachesRegex(v, 0) {
				reaches = true
			}
		}
		if !reaches {
			continue
		}
		for _, fs := range stores {
			n++
			construct := core.FuncName(f) + "/" + fs.field
			var raw []string
			leaves := core.Leaves(fs.st.Val, core.SliceOpts{IntoCallees: 2, StopAt: func(v ssa.Value) bool {
				call, ok := v.(*ssa.Call)
				return ok && core.CalleeName(&call.Call) == "regexp.QuoteMeta"
			}})
			for _, leaf := range leaves {
				switch x := leaf.(type) {
				case *ssa.Const:
				case *ssa.Call:
					if core.CalleeName(&x.Call) == "regexp.QuoteMeta" {
						continue
					}
					raw = append(raw, core.MethodNameOf(&x.Call)+"()")
				case *ssa.Parameter:
					raw = append(raw, x.Name())
				default:
					raw = append(raw, leaf.Name())
				}
			}
			// loads of fields of the parameter are reported by field
			if len(raw) > 0 {
				a := core.AccessOf(fs.st.Val)
				desc := strings.Join(raw, ",")
				if len(a.Fields) > 0 {
					desc = strings.Join(a.Fields, ".")
				}
				r.Violate("C14.1", construct, p.Pos(fs.st.Pos()), fmt.Sprintf("the %s segment of the SPIFFE pattern comes from %s without regexp.QuoteMeta: a regex metacharacter in it (a '.' matches any character) makes the principal match near-miss identities", fs.field, desc))
			} else {
				r.Hold("C14.1", construct, p.Pos(fs.st.Pos()), "constant or QuoteMeta'd")
			}
		}
	}
	r.Floor("C14.1", 7)

	// ---- C14.2
	for _, f := range p.SrcFuncs(xdsPkg) {
		if f.Parent() != nil {
			continue
		}
		var dedup, convert []ssa.Instruction
		for _, b := range f.Blocks {
			for _, in := range b.Instrs {
				if ci, ok := in.(ssa.CallInstruction); ok {
					if g := ci.Common().StaticCallee(); g != nil {
						switch g.Name() {
						case "removeSameSourceIntentions":
							dedup = append(dedup, in)
						case "intentionToIntermediateRBACForm":
							convert = append(convert, in)
						}
					}
				}
			}
		}
		if len(dedup) == 0 && len(convert) == 0 {
			continue
		}
		mf := &core.MustFlow{F: f, Gen: func(in ssa.Instruction) []string {
			ci, ok := in.(ssa.CallInstruction)
			if !ok {
				return nil
			}
			if core.CalleePkgPath(ci.Common()) == "sort" {
				for _, a := range ci.Common().Args {
					if mi, ok := a.(*ssa.MakeInterface); ok && strings.Contains(core.ShortType(mi.X.Type()), "IntentionPrecedenceSorter") {
						return []string{"sorted"}
					}
				}
			}
			if g := ci.Common().StaticCallee(); g != nil && g.Name() == "removeSameSourceIntentions" {
				return []string{"dedup"}
			}
			return nil
		}}
		mf.Run()
		name := core.FuncName(f)
		bad := ""
		for _, d := range dedup {
			if s, _ := mf.At(d); !s["sorted"] {
				bad = "same-source intentions are removed before the list is sorted by precedence: the higher-precedence intention of a source may be the one dropped"
			}
		}
		for _, cv := range convert {
			if s, _ := mf.At(cv); !s["sorted"] || !s["dedup"] {
				bad = "intentions are converted to RBAC form before being sorted by precedence and de-duplicated by source"
			}
		}
		if bad != "" {
			r.Violate("C14.2", name, p.FuncPos(f), bad)
		} else {
			r.Hold("C14.2", name, p.FuncPos(f), "sort by precedence, then de-duplicate by source, then convert")
		}
	}
	// precedence is removed from the converted list (data dependence): removeIntentionPrecedence takes the result of the conversion
	if mr := p.Func(xdsPkg, "makeRBACRules"); mr != nil {
		okDep := false
		for _, in := range callsTo(mr, func(cm *ssa.CallCommon) bool {
			g := cm.StaticCallee()
			return g != nil && g.Name() == "removeIntentionPrecedence"
		}) {
			for _, a := range in.(ssa.CallInstruction).Common().Args {
				for _, leaf := range core.Leaves(a, core.SliceOpts{}) {
					if call, ok := leaf.(*ssa.Call); ok {
						if g := call.Call.StaticCallee(); g != nil && g.Name() == "intentionListToIntermediateRBACForm" {
							okDep = true
						}
					}
				}
			}
		}
		if okDep {
			r.Hold("C14.2", "xds.makeRBACRules/precedence-after-conversion", p.FuncPos(mr), "precedence is removed from the sorted, converted list")
		} else {
			r.Violate("C14.2", "xds.makeRBACRules/precedence-after-conversion", p.FuncPos(mr), "precedence removal does not operate on the sorted, converted intention list")
		}
	}
	r.Floor("C14.2", 2)

	// ---- C14.3
	for _, fname := range []string{"removeSourcePrecedence", "removePermissionPrecedence"} {
		f := p.Func(xdsPkg, fname)
		if f == nil {
			r.Unresolve("C14.3", "xds."+fname, "not found")
			continue
		}
		list := f.Params[0]
		bad := ""
		for _, b := range f.Blocks {
			for _, in := range b.Instrs {
				switch x := in.(type) {
				case *ssa.Slice:
					// a window that is only read (ranged over, indexed, measured) drops nothing
					if (x.High != nil || x.Low != nil) && core.AccessOf(x.X).Root == ssa.Value(list) && !sliceOnlyRead(x, 0) {
						bad = "the input list is re-sliced at " + p.Pos(in.Pos()) + ": elements are dropped before their precedence has been distributed to the others"
					}
				case *ssa.Store:
					fa, ok := x.Addr.(*ssa.FieldAddr)
					if !ok || core.FieldObj(fa).Name() != "Skip" {
						continue
					}
					if v, ok := core.ConstBool(x.Val); !ok || !v {
						continue
					}
					// must lie below an `Action == default` edge (edge cut: handles || conditions)
					var eqEdges []core.Edge
					for _, bb := range f.Blocks {
						for _, y := range bb.Instrs {
							cmp, ok := y.(*ssa.BinOp)
							if !ok || cmp.Op != token.EQL {
								continue
							}
							if core.AccessOf(cmp.X).LastField() != "Action" && core.AccessOf(cmp.Y).LastField() != "Action" {
								continue
							}
							te, _ := core.CondEdges(cmp)
							eqEdges = append(eqEdges, te...)
						}
					}
					// … or below the edge on which a higher-precedence entry's source covers this one (shadowed)
					for _, sh := range callsTo(f, func(cm *ssa.CallCommon) bool { g := cm.StaticCallee(); return g != nil && g.Name() == "ixnSourceMatches" }) {
						te, _ := core.CondEdges(sh.(ssa.Value))
						eqEdges = append(eqEdges, te...)
					}
					guarded := len(eqEdges) > 0 && core.CutMakesUnreachable(f, nil, eqEdges, in)
					if !guarded {
						bad = "an element is marked for removal at " + p.Pos(in.Pos()) + " on a path that neither tests its action against the default action nor lies below a source-containment test"
					}
				}
			}
		}
		if bad != "" {
			r.Violate("C14.3", "xds."+fname, p.FuncPos(f), bad+": the generated policy no longer follows first-match-wins")
		} else {
			r.Hold("C14.3", "xds."+fname, p.FuncPos(f), "list never shortened; removal only for elements equal to the default action")
		}
	}
	r.Floor("C14.3", 2)
	_ = n
	checkSourcePrecedencePairs(c)
	checkSourceMatchRequiresPeerAndPartition(c)
	checkPeeredSourceNeedsBundle(c)
}

// sliceOnlyRead: the slice value is only indexed, measured or windowed again
// (which is what ranging over it lowers to) — never stored, returned, passed
// on or merged back into a variable.
func sliceOnlyRead(v ssa.Value, depth int) bool {
	if v.Referrers() == nil || depth > 3 {
		return depth <= 3
	}
	for _, rr := range *v.Referrers() {
		switch x := rr.(type) {
		case *ssa.IndexAddr:
			if x.X != v {
				return false
			}
		case *ssa.Slice:
			if x.X != v || !sliceOnlyRead(x, depth+1) {
				return false
			}
		case *ssa.Call:
			bi, ok := x.Call.Value.(*ssa.Builtin)
			if !ok || (bi.Name() != "len" && bi.Name() != "cap") {
				return false
			}
		case *ssa.DebugRef:
		default:
			return false
		}
	}
	return true
}

// C14.4: the pairwise walk that turns precedence into AND-NOT terms.
//   (a) a source is subtracted only from entries of LOWER precedence: the entry written to has a
//       larger index than the entry whose source is subtracted (list sorted by precedence);
//   (b) both containment directions of an ordered pair are handled: "higher is more specific"
//       (subtract) and "higher is broader" (the lower entry is shadowed and dropped).
func checkSourcePrecedencePairs(c *Ctx) {
	p, r := c.P, c.R
	f := p.Func(xdsPkg, "removeSourcePrecedence")
	if f == nil {
		r.Unresolve("C14.4", "xds.removeSourcePrecedence", "not found")
		return
	}
	list := f.Params[0]
	// position of an element access: list[k] is {nil, k}; list[lo:][k] is {lo, k}
	// (absolute index lo+k). The zero elemPos means "not an element of the list".
	type elemPos struct{ low, idx ssa.Value }
	none := elemPos{}
	indexOf := func(v ssa.Value) elemPos {
		for i := 0; i < 6; i++ {
			switch x := v.(type) {
			case *ssa.UnOp:
				v = x.X
			case *ssa.FieldAddr:
				v = x.X
			case *ssa.IndexAddr:
				if x.X == ssa.Value(list) {
					return elemPos{nil, x.Index}
				}
				if sl, ok := x.X.(*ssa.Slice); ok && sl.X == ssa.Value(list) && sl.High == nil && sl.Max == nil {
					return elemPos{sl.Low, x.Index}
				}
				if core.AccessOf(x.X).Root == ssa.Value(list) {
					if _, isSlice := x.X.(*ssa.Slice); !isSlice {
						return elemPos{nil, x.Index}
					}
				}
				return none
			default:
				return none
			}
		}
		return none
	}
	name := core.FuncName(f)
	// (a)
	var posI, posJ elemPos
	var subtractI, subtractJ ssa.Value
	var at ssa.Instruction
	for _, b := range f.Blocks {
		for _, in := range b.Instrs {
			st, ok := in.(*ssa.Store)
			if !ok {
				continue
			}
			fa, ok := st.Addr.(*ssa.FieldAddr)
			if !ok || core.FieldObj(fa).Name() != "NotSources" {
				continue
			}
			call, ok := st.Val.(*ssa.Call)
			if !ok {
				continue
			}
			if bi, ok := call.Call.Value.(*ssa.Builtin); !ok || bi.Name() != "append" {
				continue
			}
			posJ = indexOf(fa)
			subtractJ = posJ.idx
			for _, e := range core.UnpackVariadic(call.Call.Args[1]) {
				if k := indexOf(e); k != none {
					posI = k
					subtractI = k.idx
				}
			}
			at = in
		}
	}
	if subtractI == nil || subtractJ == nil {
		r.Unresolve("C14.4", name+"/lower-only", "the subtraction of a higher-precedence source from another entry was not found")
	} else {
		ok := false
		why := ""
		one := func(v ssa.Value) bool { k, isK := core.ConstInt(v); return isK && k == 1 }
		if posJ.low != nil {
			// the written entry comes from the window list[i+1:]: every element of it lies below entry i
			if bo, isBin := posJ.low.(*ssa.BinOp); isBin && bo.Op == token.ADD && posI.low == nil &&
				(bo.X == subtractI && one(bo.Y) || bo.Y == subtractI && one(bo.X)) {
				ok = true
			} else {
				why = "the window the written entry is taken from does not start just above the subtracted entry"
			}
		} else if posI.low != nil {
			why = "the subtracted entry is taken from a window of the list"
		} else if phi, isPhi := subtractJ.(*ssa.Phi); isPhi {
			back, isHeader := isLoopHeaderPhi(phi)
			isBack := map[int]bool{}
			for _, i := range back {
				isBack[i] = true
			}
			if isHeader {
				ok = true
				for i, e := range phi.Edges {
					bo, isBin := e.(*ssa.BinOp)
					switch {
					case isBack[i]:
						if !(isBin && bo.Op == token.ADD && bo.X == ssa.Value(phi) && one(bo.Y)) {
							ok, why = false, "the inner index does not only move upwards"
						}
					default:
						if !(isBin && bo.Op == token.ADD && bo.X == subtractI && one(bo.Y)) {
							ok, why = false, "the inner index does not start just above the outer one"
						}
					}
				}
			}
		}
		if !ok && posI.low == nil && posJ.low == nil {
			// an explicit guard j > i
			var gt []core.Edge
			for _, b := range f.Blocks {
				for _, in := range b.Instrs {
					if cmp, isCmp := in.(*ssa.BinOp); isCmp {
						te, fe := core.CondEdges(cmp)
						switch {
						case cmp.Op == token.GTR && cmp.X == subtractJ && cmp.Y == subtractI, cmp.Op == token.LSS && cmp.X == subtractI && cmp.Y == subtractJ:
							gt = append(gt, te...)
						case cmp.Op == token.LEQ && cmp.X == subtractJ && cmp.Y == subtractI, cmp.Op == token.GEQ && cmp.X == subtractI && cmp.Y == subtractJ:
							gt = append(gt, fe...)
						}
					}
				}
			}
			if len(gt) > 0 && core.CutMakesUnreachable(f, nil, gt, at) {
				ok = true
			}
		}
		if ok {
			r.Hold("C14.4", name+"/lower-only", p.Pos(at.Pos()), "a source is subtracted only from entries further down the precedence-sorted list")
		} else {
			r.Violate("C14.4", name+"/lower-only", p.Pos(at.Pos()), "a source can be subtracted (AND NOT) from an entry of HIGHER precedence ("+why+"): source specificity is not precedence — '* -> api' (8) outranks 'web -> *' (6) — so carving web out of the higher-precedence rule lets the lower-precedence intention decide for web")
		}
	}
	// (b)
	var fwd, rev bool
	for _, in := range callsTo(f, func(cm *ssa.CallCommon) bool { g := cm.StaticCallee(); return g != nil && g.Name() == "ixnSourceMatches" }) {
		args := in.(ssa.CallInstruction).Common().Args
		if len(args) != 2 || subtractI == nil {
			continue
		}
		a, b := indexOf(args[0]), indexOf(args[1])
		if a == posI && b == posJ {
			fwd = true
		}
		if a == posJ && b == posI {
			// and the lower entry is dropped on its true edge
			te, _ := core.CondEdges(in.(ssa.Value))
			for _, e := range te {
				for _, x := range e.From.Succs[e.Succ].Instrs {
					if st, ok := x.(*ssa.Store); ok {
						if fa, ok := st.Addr.(*ssa.FieldAddr); ok && core.FieldObj(fa).Name() == "Skip" && indexOf(fa) == posJ {
							if v, ok := core.ConstBool(st.Val); ok && v {
								rev = true
							}
						}
					}
				}
			}
		}
	}
	switch {
	case fwd && rev:
		r.Hold("C14.4", name+"/both-directions", p.FuncPos(f), "higher-is-more-specific subtracts; higher-is-broader drops the shadowed entry")
	case fwd:
		r.Violate("C14.4", name+"/both-directions", p.FuncPos(f), "only the case 'the higher-precedence source is more specific' is handled; when the higher-precedence intention has the BROADER source ('* -> api' over 'web -> *') the lower one is left in place and still decides for its callers: under default deny with '* -> api deny' and 'web -> * allow' the proxy admits web although the intention decision is deny")
	default:
		r.Unresolve("C14.4", name+"/both-directions", "source containment test between the pair not found")
	}
}

// C14.5
func checkSourceMatchRequiresPeerAndPartition(c *Ctx) {
	p, r := c.P, c.R
	f := p.Func(xdsPkg, "ixnSourceMatches")
	if f == nil {
		r.Unresolve("C14.5", "xds.ixnSourceMatches", "not found")
		return
	}
	// equality tests between the two parameters on a given selector
	eqEdgesOn := func(sel string) []core.Edge {
		var out []core.Edge
		for _, b := range f.Blocks {
			for _, in := range b.Instrs {
				cmp, ok := in.(*ssa.BinOp)
				if !ok || (cmp.Op != token.EQL && cmp.Op != token.NEQ) {
					continue
				}
				side := func(v ssa.Value) (int, bool) {
					hit, which := false, -1
					core.Leaves(v, core.SliceOpts{ThroughCalls: true, StopAt: func(x ssa.Value) bool {
						if call, ok := x.(*ssa.Call); ok && strings.Contains(core.MethodNameOf(&call.Call), sel) {
							hit = true
						}
						if core.AccessOf(x).LastField() == sel {
							hit = true
						}
						for i, prm := range f.Params {
							if x == ssa.Value(prm) {
								which = i
							}
						}
						return false
					}})
					return which, hit
				}
				wx, hx := side(cmp.X)
				wy, hy := side(cmp.Y)
				if !hx || !hy || wx < 0 || wy < 0 || wx == wy {
					continue
				}
				te, fe := core.CondEdges(cmp)
				if cmp.Op == token.EQL {
					out = append(out, te...)
				} else {
					out = append(out, fe...)
				}
			}
		}
		return out
	}
	canReturnTrueWithout := func(edges []core.Edge) bool {
		cut := map[core.Edge]bool{}
		for _, e := range edges {
			cut[e] = true
		}
		w := &core.Walk{Cut: func(b *ssa.BasicBlock, si int) bool { return cut[core.Edge{From: b, Succ: si}] }}
		w.FromEntry(f)
		for _, rt := range core.Returns(f) {
			v := core.ResolveResult(rt, 0)
			switch x := v.(type) {
			case *ssa.Const:
				if b, ok := core.ConstBool(x); ok && b && (w.Reached(rt.Block()) || rt.Block() == f.Blocks[0]) {
					return true
				}
			case *ssa.Phi:
				for i, e := range x.Edges {
					if b, ok := core.ConstBool(e); ok && !b {
						continue
					}
					pred := x.Block().Preds[i]
					if w.Reached(pred) || pred == f.Blocks[0] {
						// is this incoming edge itself cut?
						edgeCut := false
						for si, s := range pred.Succs {
							if s == x.Block() && cut[core.Edge{From: pred, Succ: si}] {
								edgeCut = true
							}
						}
						if !edgeCut {
							return true
						}
					}
				}
			default:
				if w.Reached(rt.Block()) || rt.Block() == f.Blocks[0] {
					return true
				}
			}
		}
		return false
	}
	for _, sel := range []struct{ field, what string }{{"Peer", "peer"}, {"Partition", "partition"}} {
		edges := eqEdgesOn(sel.field)
		construct := "xds.ixnSourceMatches/" + sel.what
		switch {
		case len(edges) == 0:
			r.Violate("C14.5", construct, p.FuncPos(f), "the "+sel.what+"s of the two sources are not compared: a wildcard source would cover sources of every "+sel.what)
		case canReturnTrueWithout(edges):
			r.Violate("C14.5", construct, p.FuncPos(f), "the containment test can answer true on a path on which the two sources' "+sel.what+"s were not found equal: a local wildcard source is then taken to cover a source imported from a peer (or another partition), so the precedence walk drops or narrows the other intention and the caller falls to the default decision")
		default:
			r.Hold("C14.5", construct, p.FuncPos(f), "true only below the "+sel.what+"-equal edge")
		}
	}
}


// C14.6: a peered source is turned into a principal only with its peer's trust bundle in hand.
// The bundle supplies the trust domain and exported partition of the SPIFFE pattern; without it
// the pattern falls back to the LOCAL trust domain and names the like-named local service. So
// every use of the looked-up bundle lies below "found" (comma-ok true) or "source is local"
// (SourcePeer == "").
func checkPeeredSourceNeedsBundle(c *Ctx) {
	p, r := c.P, c.R
	n := 0
	for _, f := range p.SrcFuncs(xdsPkg) {
		for _, b := range f.Blocks {
			for _, in := range b.Instrs {
				lk, ok := in.(*ssa.Lookup)
				if !ok || core.AccessOf(lk.Index).LastField() != "SourcePeer" {
					continue
				}
				if !strings.Contains(core.ShortType(lk.X.Type()), "PeeringTrustBundle") {
					continue
				}
				n++
				construct := core.FuncName(f) + "/bundle[SourcePeer]"
				pos := p.Pos(lk.Pos())
				if !lk.CommaOk {
					r.Violate("C14.6", construct, pos, "the trust bundle of a source peer is looked up without testing that it was found: a peered intention whose bundle has not arrived is converted with a nil bundle, its principal falls back to the local trust domain and matches the like-named LOCAL service")
					continue
				}
				var okV, val ssa.Value
				if lk.Referrers() != nil {
					for _, rr := range *lk.Referrers() {
						if ex, ok := rr.(*ssa.Extract); ok {
							if ex.Index == 1 {
								okV = ex
							} else {
								val = ex
							}
						}
					}
				}
				var accepted []core.Edge
				if okV != nil {
					te, _ := core.CondEdges(okV)
					accepted = append(accepted, te...)
				}
				accepted = append(accepted, core.GuardEdges(f, 1, func(cv core.CmpView) (bool, bool) {
					if cv.Op != token.EQL && cv.Op != token.NEQ {
						return false, false
					}
					for _, pair := range [][2]ssa.Value{{cv.X, cv.Y}, {cv.Y, cv.X}} {
						if k, ok := core.ConstString(pair[0]); ok && k == "" && core.AccessOf(pair[1]).LastField() == "SourcePeer" {
							return cv.Op == token.EQL, cv.Op == token.NEQ
						}
					}
					return false, false
				})...)
				bad := ""
				if val != nil {
					core.ForwardUses(val, func(u ssa.Instruction, _ ssa.Value) {
						ci, isCall := u.(ssa.CallInstruction)
						if !isCall || u.Parent() != f {
							return
						}
						if g := ci.Common().StaticCallee(); g == nil || !core.IsConsulFunc(g) {
							return
						}
						if !core.CutMakesUnreachable(f, lk, accepted, u) {
							bad = p.Pos(u.Pos())
						}
					})
				}
				if bad != "" || okV == nil {
					r.Violate("C14.6", construct, pos, "the looked-up trust bundle is used at "+bad+" on a path on which the source is peered and its bundle was not found: the principal falls back to the local trust domain and matches the like-named LOCAL service")
				} else {
					r.Hold("C14.6", construct, pos, "the bundle is used only when found, or for a local source")
				}
			}
		}
	}
	if n == 0 {
		r.MissingInstance("C14.6", "<bundle lookups>", "no lookup of a trust bundle by SourcePeer found in agent/xds")
	}
}
