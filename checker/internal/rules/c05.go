package rules

import (
	"fmt"
	"go/constant"
	"go/token"
	"go/types"
	"sort"
	"strings"

	"golang.org/x/tools/go/ssa"

	"verifcheck/internal/core"
)

func init() {
	register(&Rule{ID: "C05", Patterns: []string{"./agent/consul/state", "./agent/consul/fsm", "./agent/consul"}, Run: runC05})
}

// txnOpeners: method names that open or end a memdb transaction.
var txnLifecycle = map[string]bool{"WriteTxn": true, "WriteTxnRestore": true, "ReadTxn": true, "Txn": true, "Commit": true, "Abort": true}

// reachableStatic: functions reachable from roots over static calls (and
// closures created on the way) inside package state.
func reachableStatic(p *core.Program, roots []*ssa.Function, pkgRel string) map[*ssa.Function][]string {
	return reachableStaticSkip(p, roots, pkgRel, nil)
}

// reachableStaticSkip does not enter closures for which skip reports true
// (closures handed to tx.Defer run after commit).
func reachableStaticSkip(p *core.Program, roots []*ssa.Function, pkgRel string, skip func(mc *ssa.MakeClosure) bool) map[*ssa.Function][]string {
	want := core.ConsulModulePrefix + "/" + pkgRel
	out := map[*ssa.Function][]string{}
	var visit func(f *ssa.Function, path []string)
	visit = func(f *ssa.Function, path []string) {
		if f == nil || f.Blocks == nil {
			return
		}
		if _, ok := out[f]; ok {
			return
		}
		path = append(append([]string{}, path...), core.FuncName(f))
		out[f] = path
		for _, b := range f.Blocks {
			for _, in := range b.Instrs {
				switch x := in.(type) {
				case ssa.CallInstruction:
					if g := x.Common().StaticCallee(); g != nil && g.Pkg != nil && g.Pkg.Pkg.Path() == want {
						visit(g, path)
					}
				case *ssa.MakeClosure:
					if skip != nil && skip(x) {
						continue
					}
					if g, ok := x.Fn.(*ssa.Function); ok {
						visit(g, path)
					}
				}
			}
		}
	}
	for _, r := range roots {
		visit(r, nil)
	}
	return out
}

// findDispatch: the function that switches over TxnOp and calls the per-kind verb handlers.
func findDispatch(p *core.Program) *ssa.Function {
	var best *ssa.Function
	for _, f := range p.SrcFuncs(statePkg) {
		if f.Parent() != nil {
			continue
		}
		sig := f.Signature
		if sig.Results().Len() != 2 {
			continue
		}
		if !strings.HasSuffix(core.ShortType(sig.Results().At(1).Type()), "TxnErrors") {
			continue
		}
		hasOps := false
		for _, prm := range f.Params {
			if strings.HasSuffix(core.ShortType(prm.Type()), "TxnOps") {
				hasOps = true
			}
		}
		takesTx := false
		for _, prm := range f.Params {
			if strings.HasSuffix(core.ShortType(prm.Type()), "WriteTxn") {
				takesTx = true
			}
		}
		if hasOps && takesTx {
			best = f
		}
	}
	return best
}

func runC05(c *Ctx) {
	p, r := c.P, c.R
	r.Clauses = []string{
		"C05.1 the read-write transaction commits only below the no-errors edge of the dispatch result, aborts by defer, and commits on every path that returns results",
		"C05.2 nothing reachable from the dispatch loop opens, commits or aborts a transaction (including read transactions: every read sees the transaction's own writes), and every memdb operation there goes through a transaction handed down as a parameter",
		"C05.3 nothing reachable from the dispatch loop has effects outside the transaction except through tx.Defer (tombstone GC hint, lock-delay timer) — no goroutines, channel sends or event publication",
		"C05.8 no map or slice that is part of a stored row (reached from a memdb read result through field selections or a shallow struct copy, without a Clone/DeepCopy in between) is mutated in place in package state: such a change happens outside the copy-on-write transaction and survives an abort",
		"C05.4 in txn.Commit usage accounting and event generation can fail only before the memdb commit; events published are the ones generated from this transaction's change set; memdb commit precedes publish; both under commitLock",
		"C05.5 the read-only transaction path hands a read transaction to the dispatch loop",
		"C05.6 a conditional verb that reports not-applied is turned into an error in every verb handler",
		"C05.7 every verb the endpoint-side validators accept has a case in the state-machine handler for that verb type",
	}
	r.NotDecided = []string{"that memdb.Txn.Abort discards everything (library semantics)", "aliasing of request objects into the store before an abort"}

	disp := findDispatch(p)
	if disp == nil {
		r.Unresolve("C05.2", "<dispatch>", "no function in package state takes (WriteTxn, …, TxnOps) and returns TxnErrors")
		return
	}
	r.Analysed["dispatch"] = core.FuncName(disp)
	// closures handed to tx.Defer run after commit: they are not part of the dispatch
	isDeferArg := func(mc *ssa.MakeClosure) bool {
		if mc.Referrers() == nil {
			return false
		}
		for _, rr := range *mc.Referrers() {
			if op := core.AsMemdbOp(rr); op != nil && op.Op == "Defer" {
				return true
			}
		}
		return false
	}
	reach := reachableStaticSkip(p, []*ssa.Function{disp}, statePkg, isDeferArg)
	r.Analysed["functions_reachable_from_dispatch"] = len(reach)

	// ---- C05.1 / C05.5: callers of dispatch
	for _, ci := range callersOf(p, disp, statePkg) {
		f := ci.Parent()
		name := core.FuncName(f)
		pos := p.Pos(ci.Pos())
		// which tx is passed?
		var txArg ssa.Value
		for i, prm := range disp.Params {
			if strings.HasSuffix(core.ShortType(prm.Type()), "WriteTxn") && i < len(ci.Common().Args) {
				txArg = ci.Common().Args[i]
			}
		}
		root := core.AccessOf(txArg).Root
		if mi, ok := txArg.(*ssa.MakeInterface); ok {
			root = core.AccessOf(mi.X).Root
		}
		opener := ""
		if call, ok := root.(*ssa.Call); ok {
			opener = core.MethodNameOf(&call.Call)
			if opener == "Txn" {
				args := core.CallArgs(&call.Call)
				if len(args) == 1 {
					if b, ok := core.ConstBool(args[0]); ok && !b {
						opener = "Txn(false)"
					}
				}
			}
		}
		var commits []ssa.Instruction
		hasDeferAbort := false
		for _, b := range f.Blocks {
			for _, in := range b.Instrs {
				if op := core.AsMemdbOp(in); op != nil && op.Op == "Commit" {
					commits = append(commits, in)
				}
				if d, ok := in.(*ssa.Defer); ok && core.MethodNameOf(&d.Call) == "Abort" {
					hasDeferAbort = true
				}
			}
		}
		switch opener {
		case "WriteTxn":
			// errors value: Extract #1 of the dispatch call; edges on which len(errors)==0
			var okEdges []core.Edge
			call := ci.(*ssa.Call)
			if call.Referrers() != nil {
				for _, rr := range *call.Referrers() {
					ex, ok := rr.(*ssa.Extract)
					if !ok || ex.Index != 1 || ex.Referrers() == nil {
						continue
					}
					for _, u := range *ex.Referrers() {
						lc, ok := u.(*ssa.Call)
						if !ok {
							continue
						}
						if b, ok := lc.Call.Value.(*ssa.Builtin); !ok || b.Name() != "len" || lc.Referrers() == nil {
							continue
						}
						for _, cu := range *lc.Referrers() {
							cmp, ok := cu.(*ssa.BinOp)
							if !ok {
								continue
							}
							k, isK := core.ConstInt(cmp.Y)
							te, fe := core.CondEdges(cmp)
							switch {
							case isK && k == 0 && (cmp.Op == token.GTR || cmp.Op == token.NEQ):
								okEdges = append(okEdges, fe...)
							case isK && k == 0 && cmp.Op == token.EQL:
								okEdges = append(okEdges, te...)
							}
						}
					}
				}
			}
			bad := ""
			if !hasDeferAbort {
				bad = "no deferred Abort"
			}
			if len(commits) == 0 {
				bad = "the read-write transaction never commits"
			}
			for _, cm := range commits {
				if len(okEdges) == 0 || !core.CutMakesUnreachable(f, ci, okEdges, cm) {
					bad = "Commit at " + p.Pos(cm.Pos()) + " is reachable from the dispatch loop on a path where the error list was not tested empty: a transaction with a failed operation can be committed"
				}
			}
			// every return carrying results (errors nil) passed Commit
			mf := &core.MustFlow{F: f, Start: ci, Gen: func(in ssa.Instruction) []string {
				if op := core.AsMemdbOp(in); op != nil && op.Op == "Commit" {
					return []string{"commit"}
				}
				return nil
			}}
			mf.Run()
			for _, rt := range core.Returns(f) {
				if len(rt.Results) != 2 {
					continue
				}
				if !core.IsNilConst(core.ResolveResult(rt, 1)) {
					continue
				}
				if set, reachRt := mf.At(rt); reachRt && !set["commit"] && bad == "" {
					bad = "results are returned at " + p.Pos(rt.Pos()) + " without error on a path that did not commit"
				}
			}
			if bad != "" {
				r.Violate("C05.1", name, pos, bad)
			} else {
				r.Hold("C05.1", name, pos, "commit only below the no-errors edge; deferred Abort; results only after Commit")
			}
		case "Txn(false)", "ReadTxn":
			if len(commits) > 0 {
				r.Violate("C05.5", name, pos, "the read-only path commits")
			} else {
				r.Hold("C05.5", name, pos, "dispatch runs on a read transaction ("+opener+")")
			}
		default:
			r.Violate("C05.5", name, pos, fmt.Sprintf("the transaction handed to the dispatch loop is neither WriteTxn nor a read transaction (opened by %q)", opener))
		}
	}
	r.Floor("C05.1", 1)
	r.Floor("C05.5", 1)

	// ---- C05.2 / C05.3 over everything reachable from dispatch
	var fns []*ssa.Function
	for f := range reach {
		fns = append(fns, f)
	}
	sort.Slice(fns, func(i, j int) bool { return fns[i].String() < fns[j].String() })
	deferClosures := map[*ssa.Function]bool{}
	for _, f := range fns {
		for _, b := range f.Blocks {
			for _, in := range b.Instrs {
				if op := core.AsMemdbOp(in); op != nil && op.Op == "Defer" && len(op.Args) == 1 {
					if mc, ok := op.Args[0].(*ssa.MakeClosure); ok {
						if g, ok := mc.Fn.(*ssa.Function); ok {
							deferClosures[g] = true
						}
					}
				}
			}
		}
	}
	nOps := 0
	for _, f := range fns {
		if deferClosures[f] {
			continue // runs after commit
		}
		name := core.FuncName(f)
		via := reach[f]
		for _, b := range f.Blocks {
			for _, in := range b.Instrs {
				switch x := in.(type) {
				case *ssa.Go:
					r.Violate("C05.3", name+"/go", p.Pos(in.Pos()), "a goroutine is started inside a transaction's dispatch: its effects survive an abort", via...)
				case *ssa.Send:
					r.Violate("C05.3", name+"/send", p.Pos(in.Pos()), "a channel send inside a transaction's dispatch survives an abort", via...)
				case ssa.CallInstruction:
					cm := x.Common()
					mn := core.MethodNameOf(cm)
					if op := core.AsMemdbOp(in); op != nil {
						if op.Op == "Commit" || op.Op == "Abort" {
							r.Violate("C05.2", name+"/"+op.Op, p.Pos(in.Pos()), "a transaction is committed/aborted inside the dispatch loop", via...)
							continue
						}
						if op.Op == "Defer" {
							continue
						}
						nOps++
						// the receiver must be a parameter (or captured variable) of this function
						recv := op.Recv
						if mi, ok := recv.(*ssa.MakeInterface); ok {
							recv = mi.X
						}
						root := core.AccessOf(recv).Root
						switch root.(type) {
						case *ssa.Parameter, *ssa.FreeVar:
						default:
							r.Violate("C05.2", name+"/"+op.Op+":"+op.Table, p.Pos(in.Pos()), "memdb operation on a transaction that was not handed down from the dispatch loop", via...)
						}
						continue
					}
					if txnLifecycle[mn] {
						// opening any transaction (db.Txn(false), ReadTxn, WriteTxn) below dispatch
						recvT := ""
						if cm.IsInvoke() {
							recvT = core.ShortType(cm.Value.Type())
						} else if g := cm.StaticCallee(); g != nil && g.Signature.Recv() != nil {
							recvT = core.ShortType(g.Signature.Recv().Type())
						}
						if strings.Contains(recvT, "changeTrackerDB") || strings.Contains(recvT, "MemDB") || strings.Contains(recvT, "ReadDB") || strings.Contains(recvT, "AbortTxn") || strings.Contains(recvT, "txn") {
							r.Violate("C05.2", name+"/"+mn, p.Pos(in.Pos()), "a separate transaction ("+mn+" on "+recvT+") is used below the dispatch loop: it does not see the transaction's own earlier writes / escapes its atomicity", via...)
						}
						continue
					}
					// effects on leader-local objects
					if g := cm.StaticCallee(); g != nil && g.Signature.Recv() != nil {
						rt := core.ShortType(g.Signature.Recv().Type())
						switch {
						case strings.HasSuffix(rt, "TombstoneGC") && mn == "Hint":
							r.Violate("C05.3", name+"/TombstoneGC.Hint", p.Pos(in.Pos()), "the tombstone GC is hinted directly instead of through tx.Defer: the hint survives an abort", via...)
						case strings.HasSuffix(rt, "Delay") && mn == "SetExpiration":
							r.Violate("C05.3", name+"/Delay.SetExpiration", p.Pos(in.Pos()), "the lock delay is set directly instead of through tx.Defer: when a later operation of the transaction fails, the store is rolled back but the delay stays and refuses other sessions the key after a later regular release", via...)
						case strings.HasSuffix(rt, "EventPublisher") || strings.Contains(rt, "stream."):
							if mn == "Publish" {
								r.Violate("C05.3", name+"/Publish", p.Pos(in.Pos()), "events are published from inside the dispatch loop, before commit", via...)
							}
						}
					}
					if cm.IsInvoke() && mn == "Publish" {
						r.Violate("C05.3", name+"/Publish", p.Pos(in.Pos()), "events are published from inside the dispatch loop, before commit", via...)
					}
				}
			}
		}
	}
	r.Analysed["memdb_ops_below_dispatch"] = nOps
	r.Add(core.Obligation{Rule: "C05.2", Construct: "<reachable-set>", Decision: core.Holds,
		Reason: fmt.Sprintf("%d functions reachable from %s, %d memdb operations, none opens/commits/aborts a transaction", len(reach), core.FuncName(disp), nOps)})
	if nOps < 100 {
		r.MissingInstance("C05.2", "<memdb-ops>", fmt.Sprintf("only %d memdb operations found below the dispatch loop (expected > 100): the reachable set collapsed", nOps))
	}
	// the positive instance of the Defer idiom
	nDefer := len(deferClosures)
	if nDefer == 0 {
		r.MissingInstance("C05.3", "<tx.Defer>", "no tx.Defer closure is reachable from the dispatch loop (the tombstone GC hint used to be one)")
	} else {
		r.Hold("C05.3", "<tx.Defer>", "", fmt.Sprintf("%d post-commit closures registered through tx.Defer", nDefer))
	}

	checkTxnCommit(c)
	checkFailedVerbIsError(c, reach)
	checkWriteErrorsNotSwallowed(c, reach)
	checkVerbCoverage(c, reach)
}

// C05.4
// fieldCallsIn lists the calls in g made through a function-typed struct field
// of the given name.
func fieldCallsIn(g *ssa.Function, field string) []ssa.CallInstruction {
	var out []ssa.CallInstruction
	for _, b := range g.Blocks {
		for _, in := range b.Instrs {
			ci, ok := in.(ssa.CallInstruction)
			if !ok || ci.Common().StaticCallee() != nil || ci.Common().IsInvoke() {
				continue
			}
			if ld, ok := ci.Common().Value.(*ssa.UnOp); ok {
				if fa, ok := ld.X.(*ssa.FieldAddr); ok && core.FieldObj(fa) != nil && core.FieldObj(fa).Name() == field {
					out = append(out, ci)
				}
			}
		}
	}
	return out
}

// forwardsFieldCall: g calls the hook stored in the named field (directly, or
// through another such helper) and every result of the hook that g's
// signature can carry is returned by g — so that, for the caller, a call of g
// stands for a call of the hook.
func forwardsFieldCall(g *ssa.Function, field string, depth int) bool {
	if g == nil || len(g.Blocks) == 0 || depth < 0 {
		return false
	}
	var hooks []ssa.Value
	for _, ci := range fieldCallsIn(g, field) {
		if v, ok := ci.(ssa.Value); ok {
			hooks = append(hooks, v)
		} else {
			return false // go / defer of the hook is not a call of the hook here
		}
	}
	for _, b := range g.Blocks {
		for _, in := range b.Instrs {
			if c, ok := in.(*ssa.Call); ok {
				if h := c.Call.StaticCallee(); h != nil && h != g && h.Pkg == g.Pkg && forwardsFieldCall(h, field, depth-1) {
					hooks = append(hooks, c)
				}
			}
		}
	}
	if len(hooks) == 0 {
		return false
	}
	// a hook with results: they reach g's returns
	for _, h := range hooks {
		if tup, ok := h.Type().(*types.Tuple); ok && tup.Len() == 0 {
			continue
		}
		reached := false
		for _, rt := range core.Returns(g) {
			for i := range rt.Results {
				for _, leaf := range core.Leaves(core.ResolveResult(rt, i), core.SliceOpts{}) {
					if leaf == h {
						reached = true
					}
				}
			}
		}
		if !reached {
			return false
		}
	}
	return true
}

func checkTxnCommit(c *Ctx) {
	p, r := c.P, c.R
	f := p.Func(statePkg, "(*txn).Commit")
	if f == nil {
		r.Unresolve("C05.4", "state.(*txn).Commit", "method not found")
		return
	}
	name := core.FuncName(f)
	var memCommit, usage, pre, pub, lock ssa.Instruction
	directUnlock := false
	for _, b := range f.Blocks {
		for _, in := range b.Instrs {
			ci, ok := in.(ssa.CallInstruction)
			if !ok {
				continue
			}
			cm := ci.Common()
			mn := core.MethodNameOf(cm)
			if g := cm.StaticCallee(); g != nil {
				if g.Pkg != nil && g.Pkg.Pkg.Path() == "github.com/hashicorp/go-memdb" && mn == "Commit" {
					memCommit = in
				}
				if g.Pkg != nil && core.IsConsul(g.Pkg.Pkg.Path()) && insertsInto(p, g, "usage", 3) {
					usage = in
				}
				if mn == "Lock" && strings.Contains(g.String(), "sync.Mutex") {
					if _, isDefer := in.(*ssa.Defer); !isDefer {
						lock = in
					}
				}
				// the hooks may be invoked through a small helper of the package
				// (func (tx *txn) eventsForChanges(...) { return tx.prePublish(...) })
				if g.Pkg != nil && core.IsConsul(g.Pkg.Pkg.Path()) {
					if forwardsFieldCall(g, "prePublish", 2) {
						pre = in
					}
					if forwardsFieldCall(g, "publish", 2) {
						pub = in
					}
				}
				if mn == "Unlock" && strings.Contains(g.String(), "sync.Mutex") {
					if _, isDefer := in.(*ssa.Defer); !isDefer {
						directUnlock = true
					}
				}
				continue
			}
			// calls through function-typed fields
			if ld, ok := cm.Value.(*ssa.UnOp); ok {
				if fa, ok := ld.X.(*ssa.FieldAddr); ok && core.FieldObj(fa) != nil {
					switch core.FieldObj(fa).Name() {
					case "prePublish":
						pre = in
					case "publish":
						pub = in
					}
				}
			}
		}
	}
	pos := p.FuncPos(f)
	if memCommit == nil || pre == nil || pub == nil || lock == nil {
		r.Violate("C05.4", name, pos, fmt.Sprintf("structure not found: memdb commit=%v prePublish=%v publish=%v lock=%v", memCommit != nil, pre != nil, pub != nil, lock != nil))
		return
	}
	mf := &core.MustFlow{F: f, Gen: func(in ssa.Instruction) []string {
		switch in {
		case lock:
			return []string{"lock"}
		case memCommit:
			return []string{"commit"}
		case pre:
			return []string{"pre"}
		}
		return nil
	}}
	mf.Run()
	bad := ""
	if s, _ := mf.At(pub); !s["lock"] || !s["commit"] {
		bad = "publish is reachable without holding commitLock / before the memdb commit: events could be delivered for a transaction that is not committed, or out of order"
	}
	if s, _ := mf.At(memCommit); !s["lock"] {
		bad = "the memdb commit is not under commitLock: events of concurrent transactions can be published out of commit order"
	}
	if s, _ := mf.At(pre); !s["lock"] {
		bad = "event generation is not under commitLock"
	}
	if directUnlock {
		bad = "commitLock is released explicitly (not by defer) inside Commit"
	}
	// events passed to publish derive from prePublish's result
	derived := false
	for _, a := range pub.(ssa.CallInstruction).Common().Args {
		for _, leaf := range core.Leaves(a, core.SliceOpts{}) {
			if leaf == pre.(ssa.Value) {
				derived = true
			}
		}
	}
	if !derived && bad == "" {
		bad = "the events handed to publish do not come from prePublish(tx, changes)"
	}
	// failure of prePublish / updateUsage returns before the memdb commit
	for _, src := range []ssa.Instruction{pre, usage} {
		if src == nil {
			continue
		}
		var errV ssa.Value
		if v, ok := src.(ssa.Value); ok {
			if core.IsErrorType(v.Type()) {
				errV = v
			} else if v.Referrers() != nil {
				for _, rr := range *v.Referrers() {
					if ex, ok := rr.(*ssa.Extract); ok && core.IsErrorType(ex.Type()) {
						errV = ex
					}
				}
			}
		}
		if errV == nil {
			if bad == "" {
				bad = "the error of " + p.Pos(src.Pos()) + " is dropped"
			}
			continue
		}
		var nilEdges []core.Edge
		for _, cmp := range nilCmps(errV) {
			te, fe := core.CondEdges(cmp)
			if cmp.Op == token.EQL {
				nilEdges = append(nilEdges, te...)
			} else {
				nilEdges = append(nilEdges, fe...)
			}
		}
		if !core.CutMakesUnreachable(f, src, nilEdges, memCommit) && bad == "" {
			bad = "the memdb commit is reachable after a failed " + core.MethodNameOf(src.(ssa.CallInstruction).Common()) + ": a transaction whose events or usage could not be computed is committed"
		}
	}
	if usage == nil && bad == "" {
		bad = "usage accounting (the writer of table usage) is no longer called from Commit"
	}
	if bad != "" {
		r.Violate("C05.4", name, pos, bad)
	} else {
		r.Hold("C05.4", name, pos, "usage and event generation fail before the memdb commit; publish after commit with the generated events; all under commitLock")
	}
	// no other publisher call reachable in package state write paths
	n := 0
	for _, g := range p.SrcFuncs(statePkg) {
		if g == f {
			continue
		}
		for _, b := range g.Blocks {
			for _, in := range b.Instrs {
				ci, ok := in.(ssa.CallInstruction)
				if !ok {
					continue
				}
				cm := ci.Common()
				if core.MethodNameOf(cm) != "Publish" && !(cm.Value != nil && isFieldLoad(cm.Value, "publish")) {
					continue
				}
				n++
				r.Violate("C05.4", core.FuncName(g)+"/publish", p.Pos(in.Pos()), "events are published outside txn.Commit")
			}
		}
	}
	_ = n
}

func isFieldLoad(v ssa.Value, field string) bool {
	ld, ok := v.(*ssa.UnOp)
	if !ok {
		return false
	}
	fa, ok := ld.X.(*ssa.FieldAddr)
	return ok && core.FieldObj(fa) != nil && core.FieldObj(fa).Name() == field
}

// C05.6
func checkFailedVerbIsError(c *Ctx, reach map[*ssa.Function][]string) {
	p, r := c.P, c.R
	n := 0
	for f := range reach {
		// every function of the transaction's call tree that consumes a conditional write's
		// (applied, error) pair — the verb handlers, wherever a refactor puts them below the dispatcher
		for _, b := range f.Blocks {
			for _, in := range b.Instrs {
				call, ok := in.(*ssa.Call)
				if !ok {
					continue
				}
				g := call.Call.StaticCallee()
				if g == nil || g.Pkg == nil || !core.IsConsul(g.Pkg.Pkg.Path()) || boolResultIndex(g) != 0 || core.ErrResultIndex(g) != 1 || !mayWrite(p, g) {
					continue
				}
				var okV ssa.Value
				if call.Referrers() != nil {
					for _, rr := range *call.Referrers() {
						if ex, ok := rr.(*ssa.Extract); ok && ex.Index == 0 {
							okV = ex
						}
					}
				}
				n++
				construct := core.FuncName(f) + "→" + core.FuncName(g)
				pos := p.Pos(call.Pos())
				if okV == nil {
					r.Violate("C05.6", construct, pos, "the not-applied boolean of a conditional verb is dropped: a failed check does not fail the transaction")
					continue
				}
				_, fe := core.CondEdges(okV)
				if len(fe) == 0 {
					r.Violate("C05.6", construct, pos, "the not-applied boolean never decides a branch")
					continue
				}
				bad := ""
				for _, e := range fe {
					nf := core.NewNilFlow(e.From, e.Succ, nil)
					for _, rt := range core.Returns(f) {
						if !nf.Reached(rt.Block()) {
							continue
						}
						if nf.ReturnKind(rt) != core.RetFailure {
							bad = "with the verb reported not-applied, the handler can still return without error at " + p.Pos(rt.Pos())
						}
					}
				}
				if bad != "" {
					r.Violate("C05.6", construct, pos, bad+": the transaction would commit although one of its operations failed its check")
				} else {
					r.Hold("C05.6", construct, pos, "not-applied ⇒ the handler returns a non-nil error on every path")
				}
			}
		}
	}
	r.Floor("C05.6", 8)
	_ = n
}

// C05.7
func checkVerbCoverage(c *Ctx, reach map[*ssa.Function][]string) {
	p, r := c.P, c.R
	// constants of named string types from package api compared with == in a function
	type verbUse struct {
		typ string
		val string
	}
	collect := func(f *ssa.Function, onlyAccepted bool) []verbUse {
		var out []verbUse
		for _, b := range f.Blocks {
			for _, in := range b.Instrs {
				cmp, ok := in.(*ssa.BinOp)
				if !ok || cmp.Op != token.EQL {
					continue
				}
				for _, side := range []ssa.Value{cmp.X, cmp.Y} {
					k, ok := side.(*ssa.Const)
					if !ok || k.Value == nil || k.Value.Kind() != constant.String {
						continue
					}
					named, ok := types.Unalias(k.Type()).(*types.Named)
					if !ok || named.Obj().Pkg() == nil || !strings.HasSuffix(named.Obj().Pkg().Path(), "/api") || !strings.HasSuffix(named.Obj().Name(), "Op") {
						continue
					}
					if onlyAccepted {
						te, _ := core.CondEdges(cmp)
						accepted := false
						for _, e := range te {
							w := &core.Walk{Visit: func(i ssa.Instruction) {
								if rt, ok := i.(*ssa.Return); ok && core.ClassifyReturn(rt) != core.RetFailure {
									accepted = true
								}
							}}
							w.FromEdge(e.From, e.Succ)
						}
						if !accepted {
							continue
						}
					}
					out = append(out, verbUse{named.Obj().Name(), constant.StringVal(k.Value)})
				}
			}
		}
		return out
	}
	handled := map[string]map[string]bool{}
	for f := range reach {
		for _, u := range collect(f, false) {
			if handled[u.typ] == nil {
				handled[u.typ] = map[string]bool{}
			}
			handled[u.typ][u.val] = true
		}
	}
	accepted := map[string]map[string]string{}
	for _, f := range p.SrcFuncs("agent/consul") {
		if f.Parent() != nil {
			continue
		}
		for _, u := range collect(f, true) {
			if accepted[u.typ] == nil {
				accepted[u.typ] = map[string]string{}
			}
			accepted[u.typ][u.val] = core.FuncName(f)
		}
	}
	n := 0
	var types_ []string
	for t := range accepted {
		types_ = append(types_, t)
	}
	sort.Strings(types_)
	for _, t := range types_ {
		var vals []string
		for v := range accepted[t] {
			vals = append(vals, v)
		}
		sort.Strings(vals)
		for _, v := range vals {
			n++
			construct := t + ":" + v
			if handled[t][v] {
				r.Hold("C05.7", construct, "", "accepted by "+accepted[t][v]+", handled in the state machine")
			} else {
				r.Violate("C05.7", construct, "", "verb "+v+" is accepted by "+accepted[t][v]+" but has no case in the state-machine handler for "+t+": applying it panics on every replica")
			}
		}
	}
	r.Floor("C05.7", 25)
	checkRowsNotMutatedInPlace(c)
	_ = n
}

// C05.8
func checkRowsNotMutatedInPlace(c *Ctx) {
	p, r := c.P, c.R
	isCopyCall := func(v ssa.Value) bool {
		call, ok := v.(*ssa.Call)
		if !ok {
			return false
		}
		switch core.MethodNameOf(&call.Call) {
		case "Clone", "DeepCopy", "PartialClone", "Copy", "clone":
			return true
		}
		if g := call.Call.StaticCallee(); g != nil && (strings.Contains(g.Name(), "Clone") || strings.Contains(g.Name(), "Copy")) {
			return true
		}
		return false
	}
	// where does the container come from?
	fromRow := func(v ssa.Value) (string, bool) {
		for _, leaf := range core.Leaves(v, core.SliceOpts{StopAt: isCopyCall}) {
			call, ok := leaf.(*ssa.Call)
			if !ok {
				continue
			}
			if isCopyCall(call) {
				continue
			}
			if op := core.AsMemdbOp(call); op != nil && op.IsRead() {
				t := op.Table
				if !op.TableKnown {
					t = "?"
				}
				return "a " + op.Op + " on table " + t, true
			}
			if call.Call.IsInvoke() && call.Call.Method.Name() == "Next" && strings.Contains(core.ShortType(call.Call.Value.Type()), "ResultIterator") {
				return "a row iterator", true
			}
		}
		return "", false
	}
	n, nFns := 0, 0
	perFn := map[string]int{}
	for _, f := range p.SrcFuncs(statePkg) {
		nFns++
		for _, b := range f.Blocks {
			for _, in := range b.Instrs {
				var container ssa.Value
				what := ""
				switch x := in.(type) {
				case *ssa.MapUpdate:
					container, what = x.Map, "map update"
				case *ssa.Call:
					if bi, ok := x.Call.Value.(*ssa.Builtin); ok && bi.Name() == "delete" {
						container, what = x.Call.Args[0], "delete from map"
					}
				case *ssa.Store:
					if ia, ok := x.Addr.(*ssa.IndexAddr); ok {
						if _, isSlice := ia.X.Type().Underlying().(*types.Slice); isSlice {
							container, what = ia.X, "slice element store"
						}
					}
				}
				if container == nil {
					continue
				}
				// containers made here are fine
				switch container.(type) {
				case *ssa.MakeMap, *ssa.MakeSlice:
					continue
				}
				// a field of a local struct copy: judge what the field holds at this point (a later
				// `c.F = make(...)` replaces what came with the copy)
				var src string
				ok := false
				if ld, isLd := container.(*ssa.UnOp); isLd && ld.Op == token.MUL {
					if fa, isFA := ld.X.(*ssa.FieldAddr); isFA {
						if al, isAl := fa.X.(*ssa.Alloc); isAl {
							for _, v := range core.FieldSourcesAt(al, fa.Field, ld, 0) {
								if v == ssa.Value(al) {
									continue
								}
								if s2, ok2 := fromRow(v); ok2 {
									src, ok = s2, true
								}
							}
							if !ok {
								continue
							}
						}
					}
				}
				if !ok {
					src, ok = fromRow(container)
				}
				if !ok {
					continue
				}
				n++
				base := core.FuncName(f) + "/" + strings.Join(core.AccessOf(container).Fields, ".")
				perFn[base]++
				construct := base
				if perFn[base] > 1 {
					construct = fmt.Sprintf("%s#%d", base, perFn[base])
				}
				r.Violate("C05.8", construct, p.Pos(in.Pos()), fmt.Sprintf("%s on a container that belongs to a stored row (reached from %s without a deep copy; a struct copy shares its maps and slices): the committed row changes outside the transaction, so an aborted transaction — a later verb of the same Txn failing — leaves the change behind", what, src))
			}
		}
	}
	if n == 0 {
		r.Hold("C05.8", "state", "", fmt.Sprintf("%d functions of package state: no in-place mutation of a container reached from a stored row", nFns))
	}
	if nFns < 800 {
		r.MissingInstance("C05.8", "<functions>", fmt.Sprintf("only %d functions", nFns))
	}
}


// C05.9: inside the transaction's call tree the error of a writing helper is
// never swallowed: with the helper's error known non-nil, every return the
// caller can still reach is a failing return. (`if err := write(); err == nil
// { … }` with a shadowed err, an error assigned to a variable that is
// overwritten before it is tested, an error compared but not returned: the
// transaction would commit although one of its operations failed.)
func checkWriteErrorsNotSwallowed(c *Ctx, reach map[*ssa.Function][]string) {
	p, r := c.P, c.R
	var fns []*ssa.Function
	for f := range reach {
		fns = append(fns, f)
	}
	sort.Slice(fns, func(i, j int) bool { return fns[i].String() < fns[j].String() })
	n := 0
	seenKey := map[string]int{}
	for _, f := range fns {
		if core.ErrResultIndex(f) < 0 {
			continue
		}
		for _, b := range f.Blocks {
			for _, in := range b.Instrs {
				call, ok := in.(*ssa.Call)
				if !ok {
					continue
				}
				g := call.Call.StaticCallee()
				if g == nil || g.Pkg == nil || !core.IsConsul(g.Pkg.Pkg.Path()) || core.ErrResultIndex(g) < 0 || !mayWrite(p, g) {
					continue
				}
				n++
				base := core.FuncName(f) + "→" + core.FuncName(g)
				seenKey[base]++
				construct := base
				if seenKey[base] > 1 {
					construct = fmt.Sprintf("%s#%d", base, seenKey[base])
				}
				pos := p.Pos(call.Pos())
				var errV ssa.Value
				if core.IsErrorType(call.Type()) {
					errV = call
				} else if call.Referrers() != nil {
					for _, rr := range *call.Referrers() {
						if ex, ok := rr.(*ssa.Extract); ok && ex.Index == core.ErrResultIndex(g) {
							errV = ex
						}
					}
				}
				if errV == nil || errV.Referrers() == nil || len(*errV.Referrers()) == 0 {
					r.Violate("C05.9", construct, pos, "the error of a writing helper is dropped: a failed operation does not fail the transaction")
					continue
				}
				bad := ""
				check := func(rt *ssa.Return, kind core.RetKind) {
					if kind != core.RetFailure && bad == "" {
						bad = "with " + core.FuncName(g) + " having failed, the function can still return without error at " + p.Pos(rt.Pos())
					}
				}
				// a return in the call's own block
				if rt, ok := b.Instrs[len(b.Instrs)-1].(*ssa.Return); ok {
					v := core.ResolveResult(rt, core.ErrResultIndex(f))
					if v != errV {
						check(rt, core.ClassifyReturn(rt))
					}
				}
				for si := range b.Succs {
					nf := core.NewNilFlow(b, si, map[ssa.Value]core.Tri{errV: core.False})
					for _, rt := range core.Returns(f) {
						if rt.Block() == b || !nf.Reached(rt.Block()) {
							continue
						}
						check(rt, nf.ReturnKind(rt))
					}
				}
				if bad != "" {
					r.Violate("C05.9", construct, pos, bad+": the transaction would commit although one of its operations failed")
				} else {
					r.Hold("C05.9", construct, pos, "a failure of the helper makes every reachable return a failing one")
				}
			}
		}
	}
	r.Floor("C05.9", 40)
	_ = n
}
