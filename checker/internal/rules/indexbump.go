package rules

import (
	"sort"
	"strings"

	"golang.org/x/tools/go/ssa"

	"verifcheck/internal/core"
)

const statePkg = "agent/consul/state"

// indexTable is the value of state.tableIndex.
const indexTableName = "index"

// indexKeyOfInsert: for tx.Insert("index", &IndexEntry{Key: k, …}) returns k.
func indexKeyOfInsert(op *core.MemdbOp) (core.KeyExpr, bool) {
	if op == nil || op.Op != "Insert" || !op.TableKnown || op.Table != indexTableName {
		return core.KeyExpr{}, false
	}
	obj := op.Obj
	if mi, ok := obj.(*ssa.MakeInterface); ok {
		obj = mi.X
	}
	alloc, ok := obj.(*ssa.Alloc)
	if !ok {
		return core.KeyExpr{Kind: '?'}, true
	}
	if alloc.Referrers() == nil {
		return core.KeyExpr{Kind: '?'}, true
	}
	for _, r := range *alloc.Referrers() {
		fa, ok := r.(*ssa.FieldAddr)
		if !ok || core.FieldObj(fa) == nil || core.FieldObj(fa).Name() != "Key" || fa.Referrers() == nil {
			continue
		}
		for _, rr := range *fa.Referrers() {
			if st, ok := rr.(*ssa.Store); ok && st.Addr == fa {
				return core.KeyExprOf(st.Val), true
			}
		}
	}
	return core.KeyExpr{Kind: '?'}, true
}

// isIndexSetter: a function whose only memdb write is an insert into the
// index table with a key that is one of its parameters (indexUpdateMaxTxn and
// friends). Calls to it are primitive bump events for the substituted key,
// including on its "stored index is already newer" early return.
func isIndexSetter(p *core.Program, f *ssa.Function) (core.KeyExpr, bool) {
	if f == nil || f.Blocks == nil {
		return core.KeyExpr{}, false
	}
	key := "indexSetter:" + f.String()
	type res struct {
		k  core.KeyExpr
		ok bool
	}
	if v, ok := p.MemoGet(key); ok {
		r := v.(res)
		return r.k, r.ok
	}
	var k core.KeyExpr
	n, other := 0, 0
	for _, b := range f.Blocks {
		for _, in := range b.Instrs {
			op := core.AsMemdbOp(in)
			if op == nil {
				if ci, ok := in.(ssa.CallInstruction); ok {
					if g := ci.Common().StaticCallee(); g != nil && g.Pkg != nil && core.IsConsul(g.Pkg.Pkg.Path()) && mayWrite(p, g) {
						other++
					}
				}
				continue
			}
			if !op.IsWrite() {
				continue
			}
			if ke, ok := indexKeyOfInsert(op); ok && ke.Kind == 'p' {
				k = ke
				n++
			} else {
				other++
			}
		}
	}
	r := res{k, n == 1 && other == 0}
	p.MemoSet(key, r)
	return r.k, r.ok
}

// bumpKeysOfInstr: index keys certainly bumped by executing instr
// (direct insert into the index table, a call to an index setter, or a call to
// a function whose summary guarantees bumps on all its non-failing paths).
func bumpKeysOfInstr(p *core.Program, in ssa.Instruction, depth int) []string {
	if op := core.AsMemdbOp(in); op != nil {
		if ke, ok := indexKeyOfInsert(op); ok {
			return []string{ke.String()}
		}
		return nil
	}
	ci, ok := in.(ssa.CallInstruction)
	if !ok {
		return nil
	}
	c := ci.Common()
	g := c.StaticCallee()
	if g == nil || g.Pkg == nil || !core.IsConsul(g.Pkg.Pkg.Path()) || g.Blocks == nil {
		return nil
	}
	args := make([]core.KeyExpr, len(c.Args))
	for i, a := range c.Args {
		args[i] = core.KeyExprOf(a)
	}
	if k, ok := isIndexSetter(p, g); ok {
		return []string{k.Subst(args).String()}
	}
	if depth <= 0 {
		return nil
	}
	// the error result of the callee must not be dropped
	if core.ErrResultIndex(g) >= 0 {
		if v, ok := in.(ssa.Value); ok {
			if v.Referrers() == nil || len(*v.Referrers()) == 0 {
				return nil
			}
		}
	}
	sum := bumpSummary(p, g, depth-1)
	out := make([]string, 0, len(sum))
	for _, k := range sum {
		out = append(out, k.Subst(args).String())
	}
	return out
}

// bumpSummary: keys bumped on every non-failing path of f.
func bumpSummary(p *core.Program, f *ssa.Function, depth int) []core.KeyExpr {
	key := "bumpSummary:" + f.String()
	if v, ok := p.MemoGet(key); ok {
		return v.([]core.KeyExpr)
	}
	p.MemoSet(key, []core.KeyExpr(nil)) // recursion guard
	exprs := map[string]core.KeyExpr{}
	mf := &core.MustFlow{F: f, Gen: func(in ssa.Instruction) []string {
		return bumpGen(p, in, depth, exprs)
	}}
	mf.Run()
	var acc core.StrSet
	for _, rt := range core.Returns(f) {
		if core.ClassifyReturn(rt) == core.RetFailure {
			continue
		}
		set, reach := mf.At(rt)
		if !reach {
			continue
		}
		if acc == nil {
			acc = set.Clone()
		} else {
			for k := range acc {
				if !set[k] {
					delete(acc, k)
				}
			}
		}
	}
	var out []core.KeyExpr
	for _, k := range acc.Keys() {
		out = append(out, exprs[k])
	}
	p.MemoSet(key, out)
	return out
}

// bumpGen is bumpKeysOfInstr that also records the structured expressions.
func bumpGen(p *core.Program, in ssa.Instruction, depth int, exprs map[string]core.KeyExpr) []string {
	if op := core.AsMemdbOp(in); op != nil {
		if ke, ok := indexKeyOfInsert(op); ok {
			exprs[ke.String()] = ke
			return []string{ke.String()}
		}
		return nil
	}
	ci, ok := in.(ssa.CallInstruction)
	if !ok {
		return nil
	}
	c := ci.Common()
	g := c.StaticCallee()
	if g == nil || g.Pkg == nil || !core.IsConsul(g.Pkg.Pkg.Path()) || g.Blocks == nil {
		return nil
	}
	args := make([]core.KeyExpr, len(c.Args))
	for i, a := range c.Args {
		args[i] = core.KeyExprOf(a)
	}
	if k, ok := isIndexSetter(p, g); ok {
		ke := k.Subst(args)
		exprs[ke.String()] = ke
		return []string{ke.String()}
	}
	if depth <= 0 {
		return nil
	}
	if core.ErrResultIndex(g) >= 0 {
		if v, ok := in.(ssa.Value); ok {
			if v.Referrers() == nil || len(*v.Referrers()) == 0 {
				return nil
			}
		}
	}
	var out []string
	for _, k := range bumpSummary(p, g, depth-1) {
		ke := k.Subst(args)
		exprs[ke.String()] = ke
		out = append(out, ke.String())
	}
	return out
}

// writeSite is a memdb write on a non-index table.
type writeSite struct {
	fn *ssa.Function
	op *core.MemdbOp
}

func stateWriteSites(p *core.Program) (sites []writeSite, unresolved []writeSite) {
	for _, f := range p.SrcFuncs(statePkg) {
		for _, b := range f.Blocks {
			for _, in := range b.Instrs {
				op := core.AsMemdbOp(in)
				if op == nil || !op.IsWrite() {
					continue
				}
				if !op.TableKnown {
					unresolved = append(unresolved, writeSite{f, op})
					continue
				}
				sites = append(sites, writeSite{f, op})
			}
		}
	}
	return
}

// callersOf: static call sites of f inside the given packages.
func callersOf(p *core.Program, f *ssa.Function, rels ...string) []ssa.CallInstruction {
	key := "callers:" + strings.Join(rels, ",")
	var idx map[*ssa.Function][]ssa.CallInstruction
	if v, ok := p.MemoGet(key); ok {
		idx = v.(map[*ssa.Function][]ssa.CallInstruction)
	} else {
		idx = map[*ssa.Function][]ssa.CallInstruction{}
		for _, rel := range rels {
			for _, g := range p.SrcFuncs(rel) {
				for _, b := range g.Blocks {
					for _, in := range b.Instrs {
						if ci, ok := in.(ssa.CallInstruction); ok {
							if callee := ci.Common().StaticCallee(); callee != nil {
								idx[callee] = append(idx[callee], ci)
							}
						}
					}
				}
			}
		}
		p.MemoSet(key, idx)
	}
	return idx[f]
}

// bumpsAfter computes, for the instruction `from` in its function, the set of
// index keys bumped on every feasible non-failing path from it to a return;
// cut removes additional edges. Returns the intersection over those returns
// and a witness return for which a wanted key (pred) is missing.
func bumpsAfter(p *core.Program, from ssa.Instruction, extraCut func(*ssa.BasicBlock, int) bool, depth int) (core.StrSet, []*ssa.Return) {
	f := from.Parent()
	ff := core.NewFlagFlow(from)
	exprs := map[string]core.KeyExpr{}
	mf := &core.MustFlow{F: f, Start: from,
		Gen: func(in ssa.Instruction) []string { return bumpGen(p, in, depth, exprs) },
		Cut: func(b *ssa.BasicBlock, si int) bool {
			if ff.Infeasible(b, si) {
				return true
			}
			return extraCut != nil && extraCut(b, si)
		}}
	mf.Run()
	var acc core.StrSet
	var rets []*ssa.Return
	for _, rt := range core.Returns(f) {
		if core.ClassifyReturn(rt) == core.RetFailure {
			continue
		}
		set, reach := mf.At(rt)
		if !reach {
			continue
		}
		rets = append(rets, rt)
		if acc == nil {
			acc = set.Clone()
		} else {
			for k := range acc {
				if !set[k] {
					delete(acc, k)
				}
			}
		}
	}
	if acc == nil {
		acc = core.StrSet{}
	}
	return acc, rets
}

func sortedKeys(m map[string]bool) []string {
	out := make([]string, 0, len(m))
	for k := range m {
		out = append(out, k)
	}
	sort.Strings(out)
	return out
}
