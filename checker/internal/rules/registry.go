// Package rules holds one file per property; each registers its rule set.
package rules

import (
	"sort"

	"verifcheck/internal/core"
)

// Ctx is what a property's rules get.
type Ctx struct {
	P        *core.Program
	R        *core.Report
	Tier     string
	VerifDir string
}

// Rule is the rule set of one property.
type Rule struct {
	ID               string
	Patterns         []string // packages loaded in the quick tier
	ThoroughPatterns []string // packages loaded in the thorough tier (default: Patterns)
	Run              func(*Ctx)
}

var registry = map[string]*Rule{}

func register(r *Rule) { registry[r.ID] = r }

func Get(id string) *Rule { return registry[id] }

func IDs() []string {
	var out []string
	for k := range registry {
		out = append(out, k)
	}
	sort.Strings(out)
	return out
}

// Common root sets.
var (
	stateGroup = []string{"./agent/consul/state", "./agent/consul/fsm", "./agent/consul/stream", "./agent/structs", "./agent/consul/discoverychain", "./agent/configentry"}
	serverGroup = []string{"./agent/consul", "./agent/blockingquery", "./agent/structs/aclfilter", "./agent/connect", "./agent/connect/ca"}
)
