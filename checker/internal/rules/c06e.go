package rules

import (
	"fmt"
	"strings"

	"golang.org/x/tools/go/ssa"

	"verifcheck/internal/core"
)

// C06.E — blocking-query bodies in the RPC endpoints: every index a state-store
// reader hands back inside the query function reaches the reply's index (it is
// assigned to it, or joined by a max / a comparison that assigns it). A reader
// whose data is used while its index is dropped lets that data change without
// the reply's index moving.
func checkEndpointIndexesJoined(c *Ctx) {
	p, r := c.P, c.R
	n := 0
	perFn := map[string]int{}
	for _, f := range p.SrcFuncs("agent/consul") {
		// the query function: func(memdb.WatchSet, *state.Store) error
		if f.Signature.Params().Len() != 2 || f.Signature.Results().Len() != 1 {
			continue
		}
		if !strings.Contains(core.ShortType(f.Signature.Params().At(0).Type()), "WatchSet") || !strings.Contains(core.ShortType(f.Signature.Params().At(1).Type()), "state.Store") {
			continue
		}
		for _, b := range f.Blocks {
			for _, in := range b.Instrs {
				call, ok := in.(*ssa.Call)
				if !ok {
					continue
				}
				g := call.Call.StaticCallee()
				if g == nil || g.Signature.Recv() == nil || !strings.HasSuffix(core.FuncPkgPath(g), "/"+statePkg) {
					continue
				}
				res := g.Signature.Results()
				if res.Len() < 2 || !isUint(res.At(0).Type()) {
					continue
				}
				// takes the watch set: a blocking reader
				takesWS := false
				for _, a := range call.Call.Args {
					if strings.Contains(core.ShortType(a.Type()), "WatchSet") && !core.IsNilConst(a) {
						takesWS = true // (an explicit nil watch set marks a lookup that is deliberately not part of the watched result)
					}
				}
				if !takesWS {
					continue
				}
				var idx *ssa.Extract
				dataUsed := false
				if call.Referrers() != nil {
					for _, rr := range *call.Referrers() {
						if ex, ok := rr.(*ssa.Extract); ok {
							if ex.Index == 0 {
								idx = ex
							} else if !core.IsErrorType(ex.Type()) && ex.Referrers() != nil && len(*ex.Referrers()) > 0 {
								dataUsed = true
							}
						}
					}
				}
				if !dataUsed {
					continue
				}
				n++
				base := core.FuncName(f) + "→" + g.Name()
				perFn[base]++
				construct := base
				if perFn[base] > 1 {
					construct = fmt.Sprintf("%s#%d", base, perFn[base])
				}
				reaches := false
				if idx != nil {
					core.ForwardUses(idx, func(u ssa.Instruction, via ssa.Value) {
						switch x := u.(type) {
						case *ssa.Store:
							if fa, ok := x.Addr.(*ssa.FieldAddr); ok && core.FieldObj(fa).Name() == "Index" {
								reaches = true
							}
							// stored into a captured variable that is later assigned to the index: accept any store to a non-local cell
							if _, isAlloc := x.Addr.(*ssa.Alloc); !isAlloc {
								reaches = true
							}
						case *ssa.Return:
							reaches = true
						case ssa.CallInstruction:
							// handed to a helper (setMeta, max): followed no further, accepted
							if x.Common().StaticCallee() != nil || x.Common().IsInvoke() {
								reaches = true
							}
						case *ssa.BinOp:
							reaches = true // compared / joined with the running maximum
						}
					})
				}
				if reaches {
					r.Hold("C06.E", construct, p.Pos(call.Pos()), "the reader's index reaches the reply index")
				} else {
					r.Violate("C06.E", construct, p.Pos(call.Pos()), "the data "+g.Name()+" returns is used in the reply but its index is dropped: a change to that data does not move the reply's index, so a blocked client is not told")
				}
			}
		}
	}
	r.Floor("C06.E", 60)
}
