package core

import (
	"go/constant"
	"go/token"
	"go/types"

	"golang.org/x/tools/go/ssa"
)

// A Cmp is a comparison that guards code of an analysed function: either a
// comparison instruction of the function itself, or one that lives in a helper
// the function calls (a predicate returning bool, or a checker returning an
// error) and whose outcome is known on some edges of the analysed function.
//
// It exists so that a rule phrased as "the write happens only below X == Y"
// gives the same answer whether the comparison is written inline, or extracted
// into `func (c *T) check(x) error { if x != c.y { return err }; return nil }`
// or `func isNewer(a, b) bool { return a > b }` — both are routine refactors.
type Cmp struct {
	Op    token.Token
	X, Y  ssa.Value     // operands; a helper's parameters are bound to the call's arguments where they are used directly
	Instr *ssa.BinOp    // the comparison itself
	In    *ssa.Function // the function that contains Instr
	True  []Edge        // edges of the analysed function on which the comparison holds
	False []Edge        // edges of the analysed function on which it does not hold
	Via   []*ssa.Function
}

// Comparisons lists the comparisons guarding f: its own, and those of helper
// predicates / checkers it calls, up to the given call depth (2 is plenty).
func Comparisons(f *ssa.Function, depth int) []Cmp {
	var out []Cmp
	if f == nil {
		return nil
	}
	for _, b := range f.Blocks {
		for _, in := range b.Instrs {
			switch in := in.(type) {
			case *ssa.BinOp:
				if !isCompare(in.Op) {
					continue
				}
				te, fe := condEdges(in)
				out = append(out, Cmp{Op: in.Op, X: in.X, Y: in.Y, Instr: in, In: f, True: te, False: fe})
			case *ssa.Call:
				if depth <= 0 {
					continue
				}
				g := in.Call.StaticCallee()
				if g == nil || len(g.Blocks) == 0 || g == f || !IsConsulFunc(g) {
					continue
				}
				out = append(out, helperComparisons(in, g, depth)...)
			}
		}
	}
	return out
}

func isCompare(op token.Token) bool {
	switch op {
	case token.EQL, token.NEQ, token.LSS, token.LEQ, token.GTR, token.GEQ:
		return true
	}
	return false
}

// IsConsulFunc: the function belongs to one of the repository's modules.
func IsConsulFunc(g *ssa.Function) bool {
	if g == nil {
		return false
	}
	pk := g.Pkg
	if pk == nil && g.Origin() != nil {
		pk = g.Origin().Pkg
	}
	if pk == nil && g.Parent() != nil {
		return IsConsulFunc(g.Parent())
	}
	if pk == nil || pk.Pkg == nil {
		return false
	}
	path := pk.Pkg.Path()
	return len(path) >= len(consulModulePrefix) && path[:len(consulModulePrefix)] == consulModulePrefix
}

const consulModulePrefix = "github.com/hashicorp/consul"

// resultEdges returns the edges of the caller on which the helper's deciding
// result (last result: bool or error) is "positive" (true / nil) and
// "negative" (false / non-nil).
func resultEdges(call *ssa.Call) (pos, neg []Edge, kind string) {
	sig := call.Call.Signature()
	n := sig.Results().Len()
	if n == 0 {
		return nil, nil, ""
	}
	last := sig.Results().At(n - 1).Type()
	var v ssa.Value = call
	if n > 1 {
		v = nil
		if call.Referrers() != nil {
			for _, r := range *call.Referrers() {
				if ex, ok := r.(*ssa.Extract); ok && ex.Index == n-1 {
					v = ex
				}
			}
		}
		if v == nil {
			return nil, nil, ""
		}
	}
	switch {
	case IsErrorType(last):
		for _, cmp := range nilComparisons(v) {
			te, fe := condEdges(cmp)
			if cmp.Op == token.EQL {
				pos = append(pos, te...)
				neg = append(neg, fe...)
			} else {
				pos = append(pos, fe...)
				neg = append(neg, te...)
			}
		}
		return pos, neg, "error"
	case isBoolType(last):
		te, fe := condEdges(v)
		return te, fe, "bool"
	}
	return nil, nil, ""
}

func isBoolType(t types.Type) bool {
	b, ok := t.Underlying().(*types.Basic)
	return ok && b.Kind() == types.Bool
}

func helperComparisons(call *ssa.Call, g *ssa.Function, depth int) []Cmp {
	pos, neg, kind := resultEdges(call)
	if kind == "" || (len(pos) == 0 && len(neg) == 0) {
		return nil
	}
	bind := func(v ssa.Value) ssa.Value {
		if pa, ok := v.(*ssa.Parameter); ok {
			for i, q := range g.Params {
				if q == pa && i < len(call.Call.Args) {
					return call.Call.Args[i]
				}
			}
		}
		return v
	}
	rets := Returns(g)
	if len(rets) == 0 {
		return nil
	}
	ri := len(rets[0].Results) - 1
	// The ways the helper produces its deciding result: (block the result is
	// decided in, the value). A bool result built with && / || is a phi; each
	// incoming edge is one case.
	type resCase struct {
		b        *ssa.BasicBlock
		v        ssa.Value // nil for an error result
		pos, neg bool      // the result may be positive / negative in this case
	}
	var cases []resCase
	for _, rt := range rets {
		if kind == "error" {
			c := resCase{b: rt.Block(), pos: true, neg: true}
			switch ClassifyReturn(rt) {
			case RetSuccess:
				c.neg = false
			case RetFailure:
				c.pos = false
			}
			cases = append(cases, c)
			continue
		}
		rv := ResolveResult(rt, ri)
		var expand func(v ssa.Value, b *ssa.BasicBlock, depth int)
		expand = func(v ssa.Value, b *ssa.BasicBlock, depth int) {
			if k, ok := v.(*ssa.Const); ok && k.Value != nil && k.Value.Kind() == constant.Bool {
				t := constant.BoolVal(k.Value)
				cases = append(cases, resCase{b: b, v: v, pos: t, neg: !t})
				return
			}
			if ph, ok := v.(*ssa.Phi); ok && depth < 3 {
				for i, e := range ph.Edges {
					expand(e, ph.Block().Preds[i], depth+1)
				}
				return
			}
			cases = append(cases, resCase{b: b, v: v, pos: true, neg: true})
		}
		expand(rv, rt.Block(), 0)
	}
	reachWithout := func(cutEdges []Edge) map[*ssa.BasicBlock]bool {
		cut := map[Edge]bool{}
		for _, e := range cutEdges {
			cut[e] = true
		}
		w := &Walk{Cut: func(b *ssa.BasicBlock, si int) bool { return cut[Edge{b, si}] }}
		w.FromEntry(g)
		out := map[*ssa.BasicBlock]bool{}
		for _, b := range g.Blocks {
			if w.Reached(b) {
				out[b] = true
			}
		}
		return out
	}
	var out []Cmp
	for _, k := range Comparisons(g, depth-1) {
		c := Cmp{Op: k.Op, X: bind(k.X), Y: bind(k.Y), Instr: k.Instr, In: k.In, Via: append([]*ssa.Function{g}, k.Via...)}
		var noTrue, noFalse map[*ssa.BasicBlock]bool // blocks reachable although k's true (false) edges are cut
		if len(k.True) > 0 {
			noTrue = reachWithout(k.True)
		}
		if len(k.False) > 0 {
			noFalse = reachWithout(k.False)
		}
		// implies(wantPos, wantTrue): whenever the result is positive (negative), k is true (false)
		implies := func(wantPos, wantTrue bool) bool {
			any := false
			for _, cs := range cases {
				if wantPos && !cs.pos || !wantPos && !cs.neg {
					continue
				}
				any = true
				if cs.v != nil && k.In == g {
					if same, negd := sameBool(cs.v, k.Instr); same {
						// result == k (or !k): positive result means k (¬k)
						if (wantPos != negd) == wantTrue {
							continue
						}
						return false
					}
				}
				blocked := noFalse
				if wantTrue {
					blocked = noTrue
				}
				if blocked == nil || blocked[cs.b] {
					return false
				}
			}
			return any
		}
		if implies(true, true) {
			c.True = append(c.True, pos...)
		}
		if implies(true, false) {
			c.False = append(c.False, pos...)
		}
		if implies(false, true) {
			c.True = append(c.True, neg...)
		}
		if implies(false, false) {
			c.False = append(c.False, neg...)
		}
		if len(c.True) > 0 || len(c.False) > 0 {
			out = append(out, c)
		}
	}
	return out
}

// sameBool: v is cmp, or !cmp.
func sameBool(v ssa.Value, cmp *ssa.BinOp) (same, negated bool) {
	if v == ssa.Value(cmp) {
		return true, false
	}
	if u, ok := v.(*ssa.UnOp); ok && u.Op == token.NOT && u.X == ssa.Value(cmp) {
		return true, true
	}
	return false, false
}


// ---------------------------------------------------------------------------
// Natural loops

// Loop is a natural loop: the header and every block that can reach a back
// edge to the header without passing through the header.
type Loop struct {
	Header *ssa.BasicBlock
	Blocks map[*ssa.BasicBlock]bool
}

// NaturalLoops lists the natural loops of f (one per header; back edges to
// the same header are merged).
func NaturalLoops(f *ssa.Function) []Loop {
	byHeader := map[*ssa.BasicBlock]*Loop{}
	var order []*ssa.BasicBlock
	for _, t := range f.Blocks {
		for _, h := range t.Succs {
			if !h.Dominates(t) {
				continue
			}
			lp := byHeader[h]
			if lp == nil {
				lp = &Loop{Header: h, Blocks: map[*ssa.BasicBlock]bool{h: true}}
				byHeader[h] = lp
				order = append(order, h)
			}
			stack := []*ssa.BasicBlock{t}
			for len(stack) > 0 {
				x := stack[len(stack)-1]
				stack = stack[:len(stack)-1]
				if lp.Blocks[x] {
					continue
				}
				lp.Blocks[x] = true
				stack = append(stack, x.Preds...)
			}
		}
	}
	var out []Loop
	for _, h := range order {
		out = append(out, *byHeader[h])
	}
	return out
}

// InnermostLoop returns the smallest natural loop of b's function containing b.
func InnermostLoop(b *ssa.BasicBlock) (Loop, bool) {
	var best Loop
	found := false
	for _, lp := range NaturalLoops(b.Parent()) {
		if lp.Blocks[b] && (!found || len(lp.Blocks) < len(best.Blocks)) {
			best, found = lp, true
		}
	}
	return best, found
}

// ---------------------------------------------------------------------------
// Guards through helpers, for disjunctive conditions

// activeBindings maps a helper's parameters to the caller's arguments while a
// rule's predicate looks at the helper's comparisons (see GuardEdges): AccessOf
// and Bound continue through a bound parameter into the caller's frame, so
// "row.Session == entry.Session" is recognised inside
// `func prepare(entry *T, stored any) bool` exactly as in the caller.
var activeBindings = map[*ssa.Parameter]ssa.Value{}

// Bound resolves a helper parameter to the caller's argument (when a binding
// is active), repeatedly.
func Bound(v ssa.Value) ssa.Value {
	for i := 0; i < 8; i++ {
		pa, ok := v.(*ssa.Parameter)
		if !ok {
			return v
		}
		b, ok := activeBindings[pa]
		if !ok {
			return v
		}
		v = b
	}
	return v
}

// CmpView is a comparison handed to a GuardEdges predicate.
type CmpView struct {
	Op    token.Token
	X, Y  ssa.Value // Bound() already applied
	Instr *ssa.BinOp
}

// GuardEdges returns the edges of f on which at least one accepted condition
// holds. accept says, for a comparison, whether its true edge and/or its false
// edge is an accepted condition. Calls of helper predicates (bool) and
// checkers (error) of the repository are looked into, up to depth: if, with
// the helper's own accepted edges removed, no positive (negative) result of
// the helper is reachable, then the caller's edges on which the result is
// positive (negative) are accepted. This is the inter-procedural form of the
// edge cut (DESIGN 2.8 (2)) and handles disjunctions (`absent || unheld ||
// same holder`) that no single comparison implies.
func GuardEdges(f *ssa.Function, depth int, accept func(CmpView) (onTrue, onFalse bool)) []Edge {
	var out []Edge
	if f == nil {
		return nil
	}
	for _, b := range f.Blocks {
		for _, in := range b.Instrs {
			switch in := in.(type) {
			case *ssa.BinOp:
				if !isCompare(in.Op) {
					continue
				}
				t, fl := accept(CmpView{Op: in.Op, X: Bound(in.X), Y: Bound(in.Y), Instr: in})
				if !t && !fl {
					continue
				}
				te, fe := condEdges(in)
				if t {
					out = append(out, te...)
				}
				if fl {
					out = append(out, fe...)
				}
			case *ssa.Call:
				if depth <= 0 {
					continue
				}
				g := in.Call.StaticCallee()
				if g == nil || len(g.Blocks) == 0 || g == f || !IsConsulFunc(g) {
					continue
				}
				pos, neg, kind := resultEdges(in)
				if kind == "" || (len(pos) == 0 && len(neg) == 0) {
					continue
				}
				// bind g's parameters
				var bound []*ssa.Parameter
				for i, q := range g.Params {
					if i < len(in.Call.Args) {
						if _, dup := activeBindings[q]; !dup {
							activeBindings[q] = Bound(in.Call.Args[i])
							bound = append(bound, q)
						}
					}
				}
				inner := GuardEdges(g, depth-1, accept)
				posOK, negOK := helperResultBelow(g, kind, inner, accept)
				for _, q := range bound {
					delete(activeBindings, q)
				}
				if posOK {
					out = append(out, pos...)
				}
				if negOK {
					out = append(out, neg...)
				}
			}
		}
	}
	return out
}

var resultDepth int

// PredicateTrueOnlyBelow: the bool function g returns true only when one of the accepted
// comparisons holds (returned directly, branched on, or decided by a predicate it calls).
func PredicateTrueOnlyBelow(g *ssa.Function, accept func(CmpView) (bool, bool)) bool {
	inner := GuardEdges(g, 2, accept)
	pOK, _ := helperResultBelow(g, "bool", inner, accept)
	return pOK
}

// helperResultBelow: with the accepted edges of g removed, is every way of
// producing a positive (negative) result unreachable?
func helperResultBelow(g *ssa.Function, kind string, accepted []Edge, accept func(CmpView) (bool, bool)) (posOK, negOK bool) {
	rets := Returns(g)
	if len(rets) == 0 {
		return false, false
	}
	ri := len(rets[0].Results) - 1
	cut := map[Edge]bool{}
	for _, e := range accepted {
		cut[e] = true
	}
	w := &Walk{Cut: func(b *ssa.BasicBlock, si int) bool { return cut[Edge{b, si}] }}
	w.FromEntry(g)
	reach := func(b *ssa.BasicBlock) bool { return b == g.Blocks[0] || w.Reached(b) }
	posOK, negOK = true, true
	anyPos, anyNeg := false, false
	note := func(b *ssa.BasicBlock, v ssa.Value, mayPos, mayNeg bool) {
		// a result that is itself a comparison: positive means the comparison holds
		if v != nil {
			var k *ssa.BinOp
			negd := false
			if bo, ok := v.(*ssa.BinOp); ok && isCompare(bo.Op) {
				k = bo
			} else if u, ok := v.(*ssa.UnOp); ok && u.Op == token.NOT {
				if bo, ok := u.X.(*ssa.BinOp); ok && isCompare(bo.Op) {
					k, negd = bo, true
				}
			}
			// the result of another predicate of the repository: positive only if that one is
			if call, ok := v.(*ssa.Call); ok && k == nil && resultDepth < 2 {
				if h := call.Call.StaticCallee(); h != nil && len(h.Blocks) > 0 && h != g && IsConsulFunc(h) {
					var bound []*ssa.Parameter
					for i, q := range h.Params {
						if i < len(call.Call.Args) {
							if _, dup := activeBindings[q]; !dup {
								activeBindings[q] = Bound(call.Call.Args[i])
								bound = append(bound, q)
							}
						}
					}
					resultDepth++
					inner := GuardEdges(h, 1, accept)
					pOK, nOK := helperResultBelow(h, "bool", inner, accept)
					resultDepth--
					for _, q := range bound {
						delete(activeBindings, q)
					}
					anyPos, anyNeg = true, true
					if !pOK && reach(b) {
						posOK = false
					}
					if !nOK && reach(b) {
						negOK = false
					}
					return
				}
			}
			if k != nil {
				t, fl := accept(CmpView{Op: k.Op, X: Bound(k.X), Y: Bound(k.Y), Instr: k})
				if negd {
					t, fl = fl, t
				}
				// positive result ⇔ k true: accepted iff onTrue; negative ⇔ k false: accepted iff onFalse
				anyPos, anyNeg = true, true
				if !t && reach(b) {
					posOK = false
				}
				if !fl && reach(b) {
					negOK = false
				}
				return
			}
		}
		if mayPos {
			anyPos = true
			if reach(b) {
				posOK = false
			}
		}
		if mayNeg {
			anyNeg = true
			if reach(b) {
				negOK = false
			}
		}
	}
	for _, rt := range rets {
		if kind == "error" {
			switch ClassifyReturn(rt) {
			case RetSuccess:
				note(rt.Block(), nil, true, false)
			case RetFailure:
				note(rt.Block(), nil, false, true)
			default:
				note(rt.Block(), nil, true, true)
			}
			continue
		}
		var expand func(v ssa.Value, b *ssa.BasicBlock, d int)
		expand = func(v ssa.Value, b *ssa.BasicBlock, d int) {
			if k, ok := v.(*ssa.Const); ok && k.Value != nil && k.Value.Kind() == constant.Bool {
				t := constant.BoolVal(k.Value)
				note(b, nil, t, !t)
				return
			}
			if ph, ok := v.(*ssa.Phi); ok && d < 3 {
				for i, e := range ph.Edges {
					expand(e, ph.Block().Preds[i], d+1)
				}
				return
			}
			note(b, v, true, true)
		}
		expand(ResolveResult(rt, ri), rt.Block(), 0)
	}
	return posOK && anyPos, negOK && anyNeg
}

// onlyDirect: every return of the bool helper is a comparison value (no
// branching needed for the implication).
func onlyDirect(g *ssa.Function, ri int, kind string) bool {
	if kind != "bool" {
		return false
	}
	for _, rt := range Returns(g) {
		v := ResolveResult(rt, ri)
		if u, ok := v.(*ssa.UnOp); ok && u.Op == token.NOT {
			v = u.X
		}
		if bo, ok := v.(*ssa.BinOp); !ok || !isCompare(bo.Op) {
			return false
		}
	}
	return true
}
