package core

import (
	"go/constant"
	"go/token"
	"go/types"

	"golang.org/x/tools/go/ssa"
)

// A Cmp is a comparison that guards code of an analysed function: either a
// comparison instruction of the function itself, or one that lives in a helper
// the function calls (a predicate returning bool, or a checker returning an
// error) and whose outcome is known on some edges of the analysed function.
//
// It exists so that a rule phrased as "the write happens only below X == Y"
// gives the same answer whether the comparison is written inline, or extracted
// into `func (c *T) check(x) error { if x != c.y { return err }; return nil }`
// or `func isNewer(a, b) bool { return a > b }` — both are routine refactors.
type Cmp struct {
	Op    token.Token
	X, Y  ssa.Value     // operands; a helper's parameters are bound to the call's arguments where they are used directly
	Instr *ssa.BinOp    // the comparison itself
	In    *ssa.Function // the function that contains Instr
	True  []Edge        // edges of the analysed function on which the comparison holds
	False []Edge        // edges of the analysed function on which it does not hold
	Via   []*ssa.Function
}

// Comparisons lists the comparisons guarding f: its own, and those of helper
// predicates / checkers it calls, up to the given call depth (2 is plenty).
func Comparisons(f *ssa.Function, depth int) []Cmp {
	var out []Cmp
	if f == nil {
		return nil
	}
	for _, b := range f.Blocks {
		for _, in := range b.Instrs {
			switch in := in.(type) {
			case *ssa.BinOp:
				if !isCompare(in.Op) {
					continue
				}
				te, fe := condEdges(in)
				out = append(out, Cmp{Op: in.Op, X: in.X, Y: in.Y, Instr: in, In: f, True: te, False: fe})
			case *ssa.Call:
				if depth <= 0 {
					continue
				}
				g := in.Call.StaticCallee()
				if g == nil || len(g.Blocks) == 0 || g == f || !IsConsulFunc(g) {
					continue
				}
				out = append(out, helperComparisons(in, g, depth)...)
			}
		}
	}
	return out
}

func isCompare(op token.Token) bool {
	switch op {
	case token.EQL, token.NEQ, token.LSS, token.LEQ, token.GTR, token.GEQ:
		return true
	}
	return false
}

// IsConsulFunc: the function belongs to one of the repository's modules.
func IsConsulFunc(g *ssa.Function) bool {
	if g == nil {
		return false
	}
	pk := g.Pkg
	if pk == nil && g.Origin() != nil {
		pk = g.Origin().Pkg
	}
	if pk == nil && g.Parent() != nil {
		return IsConsulFunc(g.Parent())
	}
	if pk == nil || pk.Pkg == nil {
		return false
	}
	path := pk.Pkg.Path()
	return len(path) >= len(consulModulePrefix) && path[:len(consulModulePrefix)] == consulModulePrefix
}

const consulModulePrefix = "github.com/hashicorp/consul"

// resultEdges returns the edges of the caller on which the helper's deciding
// result (last result: bool or error) is "positive" (true / nil) and
// "negative" (false / non-nil).
func resultEdges(call *ssa.Call) (pos, neg []Edge, kind string) {
	sig := call.Call.Signature()
	n := sig.Results().Len()
	if n == 0 {
		return nil, nil, ""
	}
	last := sig.Results().At(n - 1).Type()
	var v ssa.Value = call
	if n > 1 {
		v = nil
		if call.Referrers() != nil {
			for _, r := range *call.Referrers() {
				if ex, ok := r.(*ssa.Extract); ok && ex.Index == n-1 {
					v = ex
				}
			}
		}
		if v == nil {
			return nil, nil, ""
		}
	}
	switch {
	case IsErrorType(last):
		for _, cmp := range nilComparisons(v) {
			te, fe := condEdges(cmp)
			if cmp.Op == token.EQL {
				pos = append(pos, te...)
				neg = append(neg, fe...)
			} else {
				pos = append(pos, fe...)
				neg = append(neg, te...)
			}
		}
		return pos, neg, "error"
	case isBoolType(last):
		te, fe := condEdges(v)
		return te, fe, "bool"
	}
	return nil, nil, ""
}

func isBoolType(t types.Type) bool {
	b, ok := t.Underlying().(*types.Basic)
	return ok && b.Kind() == types.Bool
}

func helperComparisons(call *ssa.Call, g *ssa.Function, depth int) []Cmp {
	pos, neg, kind := resultEdges(call)
	if kind == "" || (len(pos) == 0 && len(neg) == 0) {
		return nil
	}
	bind := func(v ssa.Value) ssa.Value {
		if pa, ok := v.(*ssa.Parameter); ok {
			for i, q := range g.Params {
				if q == pa && i < len(call.Call.Args) {
					return call.Call.Args[i]
				}
			}
		}
		return v
	}
	rets := Returns(g)
	if len(rets) == 0 {
		return nil
	}
	ri := len(rets[0].Results) - 1
	// positive / negative returns of the helper
	// posRets: returns whose deciding result may be positive (nil / true);
	// negRets: returns whose deciding result may be negative. A return that
	// cannot be classified counts as both.
	var posRets, negRets []*ssa.Return
	direct := map[*ssa.Return]ssa.Value{} // return whose bool result is a value (not a constant)
	for _, rt := range rets {
		if kind == "error" {
			switch ClassifyReturn(rt) {
			case RetSuccess:
				posRets = append(posRets, rt)
			case RetFailure:
				negRets = append(negRets, rt)
			default:
				posRets = append(posRets, rt)
				negRets = append(negRets, rt)
			}
			continue
		}
		rv := ResolveResult(rt, ri)
		if k, ok := rv.(*ssa.Const); ok && k.Value != nil && k.Value.Kind() == constant.Bool {
			if constant.BoolVal(k.Value) {
				posRets = append(posRets, rt)
			} else {
				negRets = append(negRets, rt)
			}
			continue
		}
		direct[rt] = rv
		posRets = append(posRets, rt)
		negRets = append(negRets, rt)
	}
	var out []Cmp
	for _, k := range Comparisons(g, depth-1) {
		c := Cmp{Op: k.Op, X: bind(k.X), Y: bind(k.Y), Instr: k.Instr, In: k.In, Via: append([]*ssa.Function{g}, k.Via...)}
		// the helper returns the comparison itself (possibly negated, possibly the only return)
		if len(direct) > 0 && len(rets) == len(direct) && kind == "bool" {
			same, negd := true, false
			for _, rv := range direct {
				s, n := sameBool(rv, k.Instr)
				if !s {
					same = false
				}
				negd = n
			}
			if same && k.In == g {
				if !negd {
					c.True, c.False = pos, neg
				} else {
					c.True, c.False = neg, pos
				}
				out = append(out, c)
			}
			continue
		}
		// positive result only when the comparison is true (cut its true edges: no positive return reachable)
		if len(k.True) > 0 && len(posRets) > 0 && noneReachable(g, k.True, posRets) {
			c.True = append(c.True, pos...)
		}
		if len(k.False) > 0 && len(posRets) > 0 && noneReachable(g, k.False, posRets) {
			c.False = append(c.False, pos...)
		}
		if len(k.True) > 0 && len(negRets) > 0 && noneReachable(g, k.True, negRets) {
			c.True = append(c.True, neg...)
		}
		if len(k.False) > 0 && len(negRets) > 0 && noneReachable(g, k.False, negRets) {
			c.False = append(c.False, neg...)
		}
		if len(c.True) > 0 || len(c.False) > 0 {
			out = append(out, c)
		}
	}
	return out
}

// sameBool: v is cmp, or !cmp.
func sameBool(v ssa.Value, cmp *ssa.BinOp) (same, negated bool) {
	if v == ssa.Value(cmp) {
		return true, false
	}
	if u, ok := v.(*ssa.UnOp); ok && u.Op == token.NOT && u.X == ssa.Value(cmp) {
		return true, true
	}
	return false, false
}

func noneReachable(g *ssa.Function, cutEdges []Edge, rets []*ssa.Return) bool {
	cut := map[Edge]bool{}
	for _, e := range cutEdges {
		cut[e] = true
	}
	target := map[ssa.Instruction]bool{}
	for _, r := range rets {
		target[r] = true
	}
	found := false
	w := &Walk{
		Cut:   func(b *ssa.BasicBlock, si int) bool { return cut[Edge{b, si}] },
		Visit: func(in ssa.Instruction) { found = found || target[in] },
	}
	w.FromEntry(g)
	return !found
}
