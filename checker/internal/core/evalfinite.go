package core

import (
	"fmt"
	"go/constant"
	"go/token"
	"go/types"

	"golang.org/x/tools/go/ssa"
)

// AbsVal is the abstract value of the finite-domain evaluator: a compile-time
// constant, "Other" (a value different from every constant it is compared
// with), or a pointer to an abstract object (field map).
type AbsVal struct {
	Kind byte // 'c' const, 'o' other, 'p' pointer/object, 0 unknown
	C    constant.Value
	Obj  *AbsObj
}

type AbsObj struct {
	Fields map[string]AbsVal
}

func AbsConst(c constant.Value) AbsVal { return AbsVal{Kind: 'c', C: c} }
func AbsString(s string) AbsVal       { return AbsConst(constant.MakeString(s)) }
func AbsInt(i int64) AbsVal           { return AbsConst(constant.MakeInt64(i)) }
func AbsBool(b bool) AbsVal           { return AbsConst(constant.MakeBool(b)) }
func AbsOther() AbsVal                { return AbsVal{Kind: 'o'} }
func AbsObject(fields map[string]AbsVal) AbsVal {
	return AbsVal{Kind: 'p', Obj: &AbsObj{Fields: fields}}
}

func (a AbsVal) String() string {
	switch a.Kind {
	case 'c':
		return a.C.ExactString()
	case 'o':
		return "<other>"
	case 'p':
		return fmt.Sprintf("obj%v", a.Obj.Fields)
	}
	return "<?>"
}

// EvalFinite interprets f on abstract arguments. It follows exactly one path
// (every branch condition must fold); anything outside the fragment —
// arithmetic on unknowns, calls outside the package, loops that do not fold —
// makes it give up (ok=false, reason says why).
func EvalFinite(f *ssa.Function, args []AbsVal, depth int) (results []AbsVal, ok bool, reason string) {
	if f == nil || f.Blocks == nil {
		return nil, false, "no body"
	}
	if depth > 6 {
		return nil, false, "call depth"
	}
	env := map[ssa.Value]AbsVal{}
	for i, p := range f.Params {
		if i < len(args) {
			env[p] = args[i]
		}
	}
	// cells for local allocs
	cells := map[*ssa.Alloc]*AbsVal{}
	type addr struct {
		obj   *AbsObj
		field string
		cell  *AbsVal
	}
	addrs := map[ssa.Value]addr{}
	get := func(v ssa.Value) (AbsVal, bool) {
		if c, ok := v.(*ssa.Const); ok {
			if c.Value == nil {
				return AbsVal{Kind: 'c', C: nil}, true // nil / zero
			}
			return AbsConst(c.Value), true
		}
		a, ok := env[v]
		return a, ok
	}
	var prev *ssa.BasicBlock
	b := f.Blocks[0]
	steps := 0
	for {
		steps++
		if steps > 2000 {
			return nil, false, "too many steps"
		}
		var next *ssa.BasicBlock
		for _, in := range b.Instrs {
			switch x := in.(type) {
			case *ssa.DebugRef:
			case *ssa.Phi:
				idx := -1
				for i, p := range b.Preds {
					if p == prev {
						idx = i
					}
				}
				if idx < 0 {
					return nil, false, "phi without predecessor"
				}
				v, ok := get(x.Edges[idx])
				if !ok {
					return nil, false, "phi of unknown value at " + x.Name()
				}
				env[x] = v
			case *ssa.Alloc:
				zero := AbsVal{}
				if st, ok := types.Unalias(x.Type().(*types.Pointer).Elem()).Underlying().(*types.Struct); ok {
					_ = st
					zero = AbsObject(map[string]AbsVal{})
				}
				z := zero
				cells[x] = &z
				addrs[x] = addr{cell: cells[x]}
				if zero.Kind == 'p' {
					env[x] = zero
				}
			case *ssa.FieldAddr:
				base, ok := get(x.X)
				if !ok || base.Kind != 'p' {
					return nil, false, "field of unknown object " + x.X.Name()
				}
				addrs[x] = addr{obj: base.Obj, field: fieldName(x.X.Type(), x.Field)}
				// nested struct fields: expose an object view
				if _, isStruct := types.Unalias(x.Type().(*types.Pointer).Elem()).Underlying().(*types.Struct); isStruct {
					fn := fieldName(x.X.Type(), x.Field)
					sub, ok := base.Obj.Fields[fn]
					if !ok || sub.Kind != 'p' {
						sub = AbsObject(map[string]AbsVal{})
						base.Obj.Fields[fn] = sub
					}
					env[x] = sub
				}
			case *ssa.Field:
				base, ok := get(x.X)
				if !ok || base.Kind != 'p' {
					return nil, false, "field of unknown value"
				}
				v, ok := base.Obj.Fields[fieldName(x.X.Type(), x.Field)]
				if !ok {
					return nil, false, "unset field " + fieldName(x.X.Type(), x.Field)
				}
				env[x] = v
			case *ssa.Store:
				a, ok := addrs[x.Addr]
				if !ok {
					return nil, false, "store through unknown address"
				}
				v, ok := get(x.Val)
				if !ok {
					return nil, false, "store of unknown value"
				}
				if a.cell != nil {
					*a.cell = v
				} else {
					a.obj.Fields[a.field] = v
				}
			case *ssa.UnOp:
				switch x.Op {
				case token.MUL:
					a, ok := addrs[x.X]
					if !ok {
						// load of a pointer-typed param that is an object: *p
						if pv, ok2 := get(x.X); ok2 && pv.Kind == 'p' {
							env[x] = pv
							continue
						}
						return nil, false, "load through unknown address"
					}
					if a.cell != nil {
						env[x] = *a.cell
					} else {
						v, ok := a.obj.Fields[a.field]
						if !ok {
							return nil, false, "load of unset field " + a.field
						}
						env[x] = v
					}
				case token.NOT:
					v, ok := get(x.X)
					if !ok || v.Kind != 'c' || v.C.Kind() != constant.Bool {
						return nil, false, "! of non-constant"
					}
					env[x] = AbsBool(!constant.BoolVal(v.C))
				case token.SUB:
					v, ok := get(x.X)
					if !ok || v.Kind != 'c' {
						return nil, false, "negation of non-constant"
					}
					env[x] = AbsConst(constant.UnaryOp(token.SUB, v.C, 0))
				default:
					return nil, false, "unsupported unary op"
				}
			case *ssa.BinOp:
				l, ok1 := get(x.X)
				r, ok2 := get(x.Y)
				if !ok1 || !ok2 {
					return nil, false, "binary op on unknown value"
				}
				switch x.Op {
				case token.EQL, token.NEQ:
					var eq bool
					switch {
					case l.Kind == 'c' && r.Kind == 'c' && l.C != nil && r.C != nil:
						eq = constant.Compare(l.C, token.EQL, r.C)
					case l.Kind == 'o' && r.Kind == 'c', l.Kind == 'c' && r.Kind == 'o':
						eq = false
					default:
						return nil, false, "comparison outside the fragment (" + l.String() + " vs " + r.String() + ")"
					}
					if x.Op == token.NEQ {
						eq = !eq
					}
					env[x] = AbsBool(eq)
				case token.LSS, token.LEQ, token.GTR, token.GEQ:
					if l.Kind != 'c' || r.Kind != 'c' || l.C == nil || r.C == nil {
						return nil, false, "ordering comparison on non-constants"
					}
					env[x] = AbsBool(constant.Compare(l.C, x.Op, r.C))
				case token.ADD, token.SUB, token.MUL, token.OR, token.AND:
					if l.Kind != 'c' || r.Kind != 'c' || l.C == nil || r.C == nil {
						return nil, false, "arithmetic on non-constants"
					}
					env[x] = AbsConst(constant.BinaryOp(l.C, x.Op, r.C))
				default:
					return nil, false, "unsupported binary op " + x.Op.String()
				}
			case *ssa.Convert:
				v, ok := get(x.X)
				if !ok {
					return nil, false, "convert of unknown"
				}
				env[x] = v
			case *ssa.ChangeType:
				v, ok := get(x.X)
				if !ok {
					return nil, false, "changetype of unknown"
				}
				env[x] = v
			case *ssa.Call:
				g := x.Call.StaticCallee()
				if g == nil || g.Blocks == nil || !IsConsul(funcPkgPath(g)) {
					return nil, false, "call outside the fragment: " + CalleeName(&x.Call)
				}
				var cargs []AbsVal
				for _, a := range x.Call.Args {
					v, ok := get(a)
					if !ok {
						return nil, false, "call with unknown argument"
					}
					cargs = append(cargs, v)
				}
				res, ok, why := EvalFinite(g, cargs, depth+1)
				if !ok {
					return nil, false, "in " + g.Name() + ": " + why
				}
				if len(res) == 1 {
					env[x] = res[0]
				} else if len(res) > 1 {
					env[x] = AbsVal{Kind: 'p', Obj: &AbsObj{Fields: tupleFields(res)}}
				}
			case *ssa.Extract:
				t, ok := get(x.Tuple)
				if !ok || t.Kind != 'p' {
					return nil, false, "extract of unknown tuple"
				}
				env[x] = t.Obj.Fields[fmt.Sprint(x.Index)]
			case *ssa.If:
				c, ok := get(x.Cond)
				if !ok || c.Kind != 'c' || c.C == nil || c.C.Kind() != constant.Bool {
					return nil, false, "branch does not fold at " + fmt.Sprint(b.Index)
				}
				if constant.BoolVal(c.C) {
					next = b.Succs[0]
				} else {
					next = b.Succs[1]
				}
			case *ssa.Jump:
				next = b.Succs[0]
			case *ssa.Return:
				var out []AbsVal
				for i := range x.Results {
					v, ok := get(ResolveResult(x, i))
					if !ok {
						v, ok = get(x.Results[i])
					}
					if !ok {
						return nil, false, "unknown result"
					}
					out = append(out, v)
				}
				return out, true, ""
			case *ssa.RunDefers:
			default:
				return nil, false, fmt.Sprintf("instruction outside the fragment: %T", in)
			}
		}
		if next == nil {
			return nil, false, "fell off a block"
		}
		prev, b = b, next
	}
}

func tupleFields(res []AbsVal) map[string]AbsVal {
	m := map[string]AbsVal{}
	for i, r := range res {
		m[fmt.Sprint(i)] = r
	}
	return m
}
