package core

import (
	"fmt"
	"sort"
	"strings"
)

type Decision string

const (
	Holds      Decision = "HOLDS"
	Violated   Decision = "VIOLATED"
	Undecided  Decision = "UNDECIDED"
	Unresolved Decision = "UNRESOLVED"
	Missing    Decision = "MISSING-INSTANCE"
)

// Obligation is one rule instance with its decision. Key() = rule:construct is
// what known findings and exceptions are matched against; positions are for
// humans only.
type Obligation struct {
	Rule      string   `json:"rule"`
	Construct string   `json:"construct"`
	Pos       string   `json:"pos,omitempty"`
	Decision  Decision `json:"decision"`
	Reason    string   `json:"reason,omitempty"`
	Path      []string `json:"path,omitempty"`
	Known     string   `json:"known_finding,omitempty"`
	Exception string   `json:"exception,omitempty"`
	// Sig: a name-free description of the construct (its effects). A reviewed
	// exception may be keyed "rule:~sig" so that renaming the function or a
	// variable does not turn the reviewed construct into an alarm.
	Sig string `json:"sig,omitempty"`
}

func (o Obligation) SigKey() string {
	if o.Sig == "" {
		return ""
	}
	return o.Rule + ":~" + o.Sig
}

func (o Obligation) Key() string { return o.Rule + ":" + o.Construct }

// Report collects what a property's rules did in one run.
type Report struct {
	Property    string
	Obligations []Obligation
	Counts      map[string]int // rule → instances examined
	Floors      map[string]int // rule → minimum instance count confirmed by hand
	Analysed    map[string]any // free-form: packages, functions, call sites …
	NotDecided  []string       // clauses of the property this check does not decide
	Clauses     []string       // clauses it does decide (one line each)
	Notes       []string
}

func NewReport(prop string) *Report {
	return &Report{Property: prop, Counts: map[string]int{}, Floors: map[string]int{}, Analysed: map[string]any{}}
}

func (r *Report) Add(o Obligation) {
	r.Obligations = append(r.Obligations, o)
	r.Counts[o.Rule]++
}

func (r *Report) Hold(rule, construct, pos, reason string) {
	r.Add(Obligation{Rule: rule, Construct: construct, Pos: pos, Decision: Holds, Reason: reason})
}

func (r *Report) Violate(rule, construct, pos, reason string, path ...string) {
	r.Add(Obligation{Rule: rule, Construct: construct, Pos: pos, Decision: Violated, Reason: reason, Path: path})
}

func (r *Report) Undecide(rule, construct, pos, reason string, path ...string) {
	r.Add(Obligation{Rule: rule, Construct: construct, Pos: pos, Decision: Undecided, Reason: reason, Path: path})
}

func (r *Report) Unresolve(rule, construct, reason string) {
	r.Add(Obligation{Rule: rule, Construct: construct, Decision: Unresolved, Reason: reason})
}

func (r *Report) MissingInstance(rule, construct, reason string) {
	r.Add(Obligation{Rule: rule, Construct: construct, Decision: Missing, Reason: reason})
}

// Floor declares the minimum number of instances rule must have examined.
func (r *Report) Floor(rule string, n int) { r.Floors[rule] = n }

// ApplyExceptions turns VIOLATED/UNDECIDED obligations whose key is listed into
// HOLDS with the exception's reason attached. Exceptions are single named
// constructs (exact key match), never patterns.
func (r *Report) ApplyExceptions(ex map[string]string) (unused []string) {
	used := map[string]bool{}
	for i := range r.Obligations {
		o := &r.Obligations[i]
		why, ok := ex[o.Key()]
		if ok {
			used[o.Key()] = true
		} else if sk := o.SigKey(); sk != "" {
			if why, ok = ex[sk]; ok {
				used[sk] = true
			}
		}
		if ok {
			if o.Decision == Violated || o.Decision == Undecided {
				o.Exception = why
				o.Reason = "EXCEPTION (" + why + "); rule said: " + o.Reason
				o.Decision = Holds
			}
		}
	}
	for k := range ex {
		if !used[k] && strings.HasPrefix(k, r.Property+".") {
			unused = append(unused, k)
		}
	}
	sort.Strings(unused)
	return
}

// Finish adds floor obligations, de-duplicates by key (worst decision wins) and sorts.
func (r *Report) Finish() {
	rules := make([]string, 0, len(r.Floors))
	for k := range r.Floors {
		rules = append(rules, k)
	}
	sort.Strings(rules)
	for _, rule := range rules {
		if got, want := r.Counts[rule], r.Floors[rule]; got < want {
			r.Obligations = append(r.Obligations, Obligation{
				Rule: rule, Construct: "<instance-count>", Decision: Missing,
				Reason: fmt.Sprintf("rule examined %d instances, floor confirmed by hand is %d: a rule instance disappeared (vacuity guard)", got, want),
			})
		}
	}
	sort.SliceStable(r.Obligations, func(i, j int) bool {
		a, b := r.Obligations[i], r.Obligations[j]
		if a.Rule != b.Rule {
			return a.Rule < b.Rule
		}
		return a.Construct < b.Construct
	})
}

func rank(d Decision) int {
	switch d {
	case Holds:
		return 0
	case Undecided:
		return 1
	case Unresolved:
		return 2
	case Missing:
		return 3
	case Violated:
		return 4
	}
	return 5
}

// Exceptions: single named constructs with a reason; matched by exact key.
type Exception struct {
	Key    string `json:"key"`
	Reason string `json:"reason"`
}

// KnownFinding is an entry of /verif/known_findings.json.
type KnownFinding struct {
	Status    string `json:"status"` // "known" or "fixed"
	Property  string `json:"property"`
	Rule      string `json:"rule"`
	Construct string `json:"construct"`
	What      string `json:"what"`
	Commit    string `json:"commit,omitempty"`
	Line      string `json:"line,omitempty"` // the "fixed: property=… <commit> <what>" line for fixed ones
}

func (k KnownFinding) Key() string { return k.Rule + ":" + k.Construct }

func JoinPath(path []string) string { return strings.Join(path, " -> ") }
