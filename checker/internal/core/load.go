// Package core holds the program representation shared by all rules: the
// go/packages load of /repo's working tree, its SSA form, the call graph and
// the helper analyses (memdb call recognition, path rules, edge cuts,
// provenance slices, finite-domain evaluation).
package core

import (
	"fmt"
	"go/ast"
	"go/token"
	"go/types"
	"os"
	"path/filepath"
	"sort"
	"strings"
	"sync"

	"golang.org/x/tools/go/callgraph"
	"golang.org/x/tools/go/callgraph/cha"
	"golang.org/x/tools/go/callgraph/vta"
	"golang.org/x/tools/go/packages"
	"golang.org/x/tools/go/ssa"
	"golang.org/x/tools/go/ssa/ssautil"
)

const GoRoot = "/opt/veriftools/go1.26.8"

// ConsulModulePrefix is the import-path prefix of every package that belongs
// to the consul modules (main module and the replaced sub-modules).
const ConsulModulePrefix = "github.com/hashicorp/consul"

// Program is one load of /repo.
type Program struct {
	RepoDir  string
	Patterns []string
	Fset     *token.FileSet
	Roots    []*packages.Package
	All      map[string]*packages.Package // by import path, roots and deps
	SSA      *ssa.Program
	SSAPkgs  map[string]*ssa.Package

	cgOnce sync.Once
	cg     *callgraph.Graph

	fnByObj map[*types.Func]*ssa.Function

	summaries map[string]any // memo space for rule helpers
	mu        sync.Mutex
}

// LoadConfig says what to load.
type LoadConfig struct {
	RepoDir  string
	Patterns []string
	Overlay  map[string][]byte
	Env      []string // extra env (GOOS=...)
}

func init() {
	// go/packages resolves the `go` command through this process's PATH.
	os.Setenv("PATH", GoRoot+"/bin:"+os.Getenv("PATH"))
	os.Setenv("GOTOOLCHAIN", "local")
	os.Unsetenv("GOWORK")
}

func loaderEnv(extra []string) []string {
	env := []string{}
	for _, kv := range os.Environ() {
		k := kv
		if i := strings.IndexByte(kv, '='); i >= 0 {
			k = kv[:i]
		}
		switch k {
		case "GOWORK", "GOFLAGS", "GOPROXY", "GOSUMDB", "GOTOOLCHAIN", "PATH", "GOROOT":
			continue
		}
		env = append(env, kv)
	}
	env = append(env,
		"PATH="+os.Getenv("PATH"),
		"GOTOOLCHAIN=local",
		"GOFLAGS=-mod=mod",
		"GOPROXY=off",
		"GOSUMDB=off",
		"GOWORK=off",
	)
	env = append(env, extra...)
	return env
}

// Load type-checks the patterns (with all dependencies, from source) and builds
// SSA for everything. Any type error in any loaded consul package fails.
func Load(cfg LoadConfig) (*Program, error) {
	if cfg.RepoDir == "" {
		cfg.RepoDir = "/repo"
	}
	fset := token.NewFileSet()
	pc := &packages.Config{
		Mode:    packages.LoadAllSyntax,
		Dir:     cfg.RepoDir,
		Fset:    fset,
		Env:     loaderEnv(cfg.Env),
		Overlay: cfg.Overlay,
		Tests:   false,
	}
	roots, err := packages.Load(pc, cfg.Patterns...)
	if err != nil {
		return nil, fmt.Errorf("packages.Load: %w", err)
	}
	if len(roots) == 0 {
		return nil, fmt.Errorf("no packages matched %v", cfg.Patterns)
	}
	p := &Program{
		RepoDir:   cfg.RepoDir,
		Patterns:  cfg.Patterns,
		Fset:      fset,
		Roots:     roots,
		All:       map[string]*packages.Package{},
		SSAPkgs:   map[string]*ssa.Package{},
		fnByObj:   map[*types.Func]*ssa.Function{},
		summaries: map[string]any{},
	}
	var errs []string
	packages.Visit(roots, nil, func(pkg *packages.Package) {
		p.All[pkg.PkgPath] = pkg
		for _, e := range pkg.Errors {
			errs = append(errs, fmt.Sprintf("%s: %v", pkg.PkgPath, e))
		}
	})
	if len(errs) > 0 {
		sort.Strings(errs)
		if len(errs) > 10 {
			errs = errs[:10]
		}
		return nil, fmt.Errorf("load/type errors (first %d):\n  %s", len(errs), strings.Join(errs, "\n  "))
	}
	prog, _ := ssautil.AllPackages(roots, ssa.InstantiateGenerics)
	prog.Build()
	p.SSA = prog
	for _, sp := range prog.AllPackages() {
		p.SSAPkgs[sp.Pkg.Path()] = sp
	}
	return p, nil
}

// IsConsul reports whether the import path belongs to the consul modules.
func IsConsul(path string) bool {
	return path == ConsulModulePrefix || strings.HasPrefix(path, ConsulModulePrefix+"/")
}

// Pkg returns the loaded package with the given import path suffix relative
// to the consul module ("agent/consul/state") or a full path.
func (p *Program) Pkg(rel string) *packages.Package {
	if pk, ok := p.All[rel]; ok {
		return pk
	}
	return p.All[ConsulModulePrefix+"/"+rel]
}

// SSAPkg is the SSA counterpart of Pkg.
func (p *Program) SSAPkg(rel string) *ssa.Package {
	if pk, ok := p.SSAPkgs[rel]; ok {
		return pk
	}
	return p.SSAPkgs[ConsulModulePrefix+"/"+rel]
}

// Func finds a package-level function or a method "T.m" / "(*T).m" in a
// consul package given relative to the module root. Returns nil if absent.
func (p *Program) Func(rel, name string) *ssa.Function {
	sp := p.SSAPkg(rel)
	if sp == nil {
		return nil
	}
	if i := strings.IndexByte(name, '.'); i >= 0 {
		tn, mn := name[:i], name[i+1:]
		tn = strings.TrimPrefix(tn, "(*")
		tn = strings.TrimSuffix(tn, ")")
		tn = strings.TrimPrefix(tn, "*")
		obj := sp.Pkg.Scope().Lookup(tn)
		if obj == nil {
			return nil
		}
		named, ok := obj.Type().(*types.Named)
		if !ok {
			return nil
		}
		for _, t := range []types.Type{named, types.NewPointer(named)} {
			ms := p.SSA.MethodSets.MethodSet(t)
			for i := 0; i < ms.Len(); i++ {
				sel := ms.At(i)
				if sel.Obj().Name() == mn && sel.Obj().Pkg() == sp.Pkg {
					// only methods declared on this type (not promoted)
					if f, ok := sel.Obj().(*types.Func); ok {
						sig := f.Type().(*types.Signature)
						if sig.Recv() != nil && namedOf(sig.Recv().Type()) == named {
							return p.SSA.FuncValue(f)
						}
					}
				}
			}
		}
		return nil
	}
	return sp.Func(name)
}

func namedOf(t types.Type) *types.Named {
	t = types.Unalias(t)
	if pt, ok := t.(*types.Pointer); ok {
		t = types.Unalias(pt.Elem())
	}
	n, _ := t.(*types.Named)
	return n
}

// NamedOf exposes namedOf.
func NamedOf(t types.Type) *types.Named { return namedOf(t) }

// SrcFuncs returns every source-level function (incl. methods and anonymous
// functions) of the given consul-relative package, sorted by position.
func (p *Program) SrcFuncs(rel string) []*ssa.Function {
	sp := p.SSAPkg(rel)
	if sp == nil {
		return nil
	}
	var out []*ssa.Function
	seen := map[*ssa.Function]bool{}
	var add func(f *ssa.Function)
	add = func(f *ssa.Function) {
		if f == nil || seen[f] || f.Blocks == nil {
			return
		}
		seen[f] = true
		out = append(out, f)
		for _, a := range f.AnonFuncs {
			add(a)
		}
	}
	for _, m := range sp.Members {
		switch m := m.(type) {
		case *ssa.Function:
			if m.Synthetic == "" {
				add(m)
			}
		case *ssa.Type:
			named, ok := m.Type().(*types.Named)
			if !ok {
				continue
			}
			for _, t := range []types.Type{named, types.NewPointer(named)} {
				ms := p.SSA.MethodSets.MethodSet(t)
				for i := 0; i < ms.Len(); i++ {
					f := p.SSA.MethodValue(ms.At(i))
					if f != nil && f.Synthetic == "" && f.Pkg == sp {
						add(f)
					}
				}
			}
		}
	}
	sort.Slice(out, func(i, j int) bool { return out[i].Pos() < out[j].Pos() })
	return out
}

// CallGraph builds (once) the VTA-over-CHA call graph of the whole program.
func (p *Program) CallGraph() *callgraph.Graph {
	p.cgOnce.Do(func() {
		all := ssautil.AllFunctions(p.SSA)
		p.cg = vta.CallGraph(all, cha.CallGraph(p.SSA))
	})
	return p.cg
}

// Pos renders a position relative to the repo directory.
func (p *Program) Pos(pos token.Pos) string {
	if !pos.IsValid() {
		return "-"
	}
	ps := p.Fset.Position(pos)
	f := ps.Filename
	if r, err := filepath.Rel(p.RepoDir, f); err == nil && !strings.HasPrefix(r, "..") {
		f = r
	}
	return fmt.Sprintf("%s:%d", f, ps.Line)
}

// FuncPos is the position of a function, falling back to its parent for
// synthetic ones.
func (p *Program) FuncPos(f *ssa.Function) string {
	if f == nil {
		return "-"
	}
	if f.Pos().IsValid() {
		return p.Pos(f.Pos())
	}
	if f.Parent() != nil {
		return p.FuncPos(f.Parent())
	}
	return "-"
}

// FuncName gives a short stable name: "state.(*Store).KVSSet", "state.kvsSetTxn",
// "state.kvsSetTxn$1" for closures.
func FuncName(f *ssa.Function) string {
	if f == nil {
		return "<nil>"
	}
	s := f.String()
	s = strings.ReplaceAll(s, ConsulModulePrefix+"/", "")
	// shorten "agent/consul/state.X" → "state.X"
	return shortenPaths(s)
}

func shortenPaths(s string) string {
	var b strings.Builder
	i := 0
	for i < len(s) {
		// find a path-like run: [a-zA-Z0-9_\-./]+ containing '/'
		j := i
		for j < len(s) && (isIdent(s[j]) || s[j] == '/' || s[j] == '-' || s[j] == '.') {
			j++
		}
		if j > i {
			run := s[i:j]
			if k := strings.LastIndexByte(run, '/'); k >= 0 {
				run = run[k+1:]
			}
			b.WriteString(run)
			i = j
			continue
		}
		b.WriteByte(s[i])
		i++
	}
	return b.String()
}

func isIdent(c byte) bool {
	return c == '_' || c >= '0' && c <= '9' || c >= 'a' && c <= 'z' || c >= 'A' && c <= 'Z'
}

// Memo caches a computed summary under key.
func (p *Program) Memo(key string, compute func() any) any {
	p.mu.Lock()
	if v, ok := p.summaries[key]; ok {
		p.mu.Unlock()
		return v
	}
	p.mu.Unlock()
	v := compute()
	p.mu.Lock()
	p.summaries[key] = v
	p.mu.Unlock()
	return v
}

// FileOf returns the syntax file containing pos in a loaded package.
func (p *Program) FileOf(pkg *packages.Package, pos token.Pos) *ast.File {
	for _, f := range pkg.Syntax {
		if f.Pos() <= pos && pos <= f.End() {
			return f
		}
	}
	return nil
}

// FuncOfObj maps a types.Func to its ssa.Function.
func (p *Program) FuncOfObj(o *types.Func) *ssa.Function {
	return p.SSA.FuncValue(o)
}

// MemoGet / MemoSet: plain keyed cache for rule helpers.
func (p *Program) MemoGet(key string) (any, bool) {
	p.mu.Lock()
	defer p.mu.Unlock()
	v, ok := p.summaries[key]
	return v, ok
}

func (p *Program) MemoSet(key string, v any) {
	p.mu.Lock()
	p.summaries[key] = v
	p.mu.Unlock()
}
