package core

import (
	"sort"

	"golang.org/x/tools/go/callgraph"
	"golang.org/x/tools/go/ssa"
)

// BoundaryCall is a call from a consul-module function to a function outside
// the consul modules (stdlib or third party), met during a traversal.
type BoundaryCall struct {
	Caller *ssa.Function
	Site   ssa.CallInstruction
	Callee *ssa.Function // may be nil for unresolved invokes
	Name   string        // pkgpath.Func or (recv).Method
	Pkg    string
}

// Reach is the result of a consul-module-only traversal of the call graph.
type Reach struct {
	Funcs    map[*ssa.Function]*ssa.Function // reached consul function → parent (nil for entries)
	Boundary []BoundaryCall
}

// PathTo lists the chain of functions from an entry to f.
func (r *Reach) PathTo(f *ssa.Function) []string {
	var rev []string
	seen := map[*ssa.Function]bool{}
	for cur := f; cur != nil && !seen[cur]; cur = r.Funcs[cur] {
		seen[cur] = true
		rev = append(rev, FuncName(cur))
	}
	out := make([]string, len(rev))
	for i := range rev {
		out[len(rev)-1-i] = rev[i]
	}
	if len(out) > 14 {
		out = append(append(out[:7:7], "…"), out[len(out)-6:]...)
	}
	return out
}

func funcPkgPath(f *ssa.Function) string {
	if f == nil {
		return ""
	}
	if f.Pkg != nil {
		return f.Pkg.Pkg.Path()
	}
	if o := f.Origin(); o != nil && o.Pkg != nil {
		return o.Pkg.Pkg.Path()
	}
	if f.Parent() != nil {
		return funcPkgPath(f.Parent())
	}
	if obj := f.Object(); obj != nil && obj.Pkg() != nil {
		return obj.Pkg().Path()
	}
	// synthetic wrappers/thunks: use the receiver's package
	if f.Signature.Recv() != nil {
		if n := namedOf(f.Signature.Recv().Type()); n != nil && n.Obj().Pkg() != nil {
			return n.Obj().Pkg().Path()
		}
	}
	return ""
}

// FuncPkgPath is exported.
func FuncPkgPath(f *ssa.Function) string { return funcPkgPath(f) }

// ReachFrom traverses the call graph breadth-first from the entries, entering
// only functions of the consul modules; skip(fn) prunes a function (it is
// neither entered nor reported). Calls that leave the consul modules are
// collected as boundary calls.
func (p *Program) ReachFrom(entries []*ssa.Function, skip func(*ssa.Function) bool) *Reach {
	cg := p.CallGraph()
	r := &Reach{Funcs: map[*ssa.Function]*ssa.Function{}}
	var queue []*ssa.Function
	for _, e := range entries {
		if e == nil {
			continue
		}
		if _, ok := r.Funcs[e]; !ok {
			r.Funcs[e] = nil
			queue = append(queue, e)
		}
	}
	seenBoundary := map[ssa.CallInstruction]map[*ssa.Function]bool{}
	for len(queue) > 0 {
		f := queue[0]
		queue = queue[1:]
		node := cg.Nodes[f]
		if node == nil {
			continue
		}
		// deterministic order
		out := append([]*callgraph.Edge(nil), node.Out...)
		sort.Slice(out, func(i, j int) bool {
			if out[i].Pos() != out[j].Pos() {
				return out[i].Pos() < out[j].Pos()
			}
			return out[i].Callee.Func.String() < out[j].Callee.Func.String()
		})
		for _, e := range out {
			callee := e.Callee.Func
			if callee == nil {
				continue
			}
			if skip != nil && skip(callee) {
				continue
			}
			pk := funcPkgPath(callee)
			if IsConsul(pk) {
				if _, ok := r.Funcs[callee]; !ok {
					r.Funcs[callee] = f
					queue = append(queue, callee)
				}
				continue
			}
			if e.Site == nil {
				continue
			}
			if seenBoundary[e.Site] == nil {
				seenBoundary[e.Site] = map[*ssa.Function]bool{}
			}
			if seenBoundary[e.Site][callee] {
				continue
			}
			seenBoundary[e.Site][callee] = true
			name := callee.String()
			if o := callee.Origin(); o != nil {
				name = o.String()
			}
			r.Boundary = append(r.Boundary, BoundaryCall{Caller: f, Site: e.Site, Callee: callee, Name: name, Pkg: pk})
		}
		// anonymous functions defined in f are entered too when they are created
		// (closures passed to library code such as memdb's Defer are invoked by it)
		for _, a := range f.AnonFuncs {
			if skip != nil && skip(a) {
				continue
			}
			if _, ok := r.Funcs[a]; !ok {
				r.Funcs[a] = f
				queue = append(queue, a)
			}
		}
	}
	return r
}
