package core

import (
	"go/constant"
	"go/types"
	"strings"

	"golang.org/x/tools/go/ssa"
)

const memdbPath = "github.com/hashicorp/go-memdb"

// MemdbOp is a recognised go-memdb transaction call.
type MemdbOp struct {
	Instr ssa.CallInstruction
	Op    string // Insert Delete DeleteAll DeletePrefix Get First FirstWatch Last LastWatch LowerBound ReverseLowerBound GetReverse Commit Abort Defer
	// Table/Index: constant value when known; otherwise TableParam >= 0 names
	// the enclosing function's parameter index the value comes from, or both
	// unset → unresolved.
	Table      string
	TableKnown bool
	TableParam int
	TableVal   ssa.Value
	Index      string
	IndexKnown bool
	IndexVal   ssa.Value
	Obj        ssa.Value   // Insert/Delete
	Args       []ssa.Value // args after table(,index)
	Recv       ssa.Value
}

func (m *MemdbOp) IsWrite() bool {
	switch m.Op {
	case "Insert", "Delete", "DeleteAll", "DeletePrefix":
		return true
	}
	return false
}

func (m *MemdbOp) IsRead() bool {
	switch m.Op {
	case "Get", "First", "FirstWatch", "Last", "LastWatch", "LowerBound", "ReverseLowerBound", "GetReverse", "LongestPrefix":
		return true
	}
	return false
}

var memdbMethods = map[string]int{ // name → number of leading string args (table, index)
	"Insert": 1, "Delete": 1, "DeleteAll": 2, "DeletePrefix": 2,
	"Get": 2, "First": 2, "FirstWatch": 2, "Last": 2, "LastWatch": 2,
	"LowerBound": 2, "ReverseLowerBound": 2, "GetReverse": 2, "LongestPrefix": 2,
}

// isTxnLike: the receiver is *memdb.Txn, a struct embedding it, or one of the
// txn interfaces declared next to the stores (ReadTxn/WriteTxn/AbortTxn).
func isTxnLike(t types.Type) bool {
	n := namedOf(t)
	if n == nil {
		// anonymous interface
		_, ok := t.Underlying().(*types.Interface)
		return ok
	}
	obj := n.Obj()
	if obj.Pkg() == nil {
		return false
	}
	if obj.Pkg().Path() == memdbPath && obj.Name() == "Txn" {
		return true
	}
	if IsConsul(obj.Pkg().Path()) {
		switch obj.Name() {
		case "ReadTxn", "WriteTxn", "AbortTxn", "txn":
			return true
		}
	}
	return false
}

// AsMemdbOp recognises a memdb transaction call.
func AsMemdbOp(instr ssa.Instruction) *MemdbOp {
	ci, ok := instr.(ssa.CallInstruction)
	if !ok {
		return nil
	}
	c := ci.Common()
	var name string
	var recv ssa.Value
	var args []ssa.Value
	if c.IsInvoke() {
		name = c.Method.Name()
		recv = c.Value
		args = c.Args
		if !isTxnLike(c.Value.Type()) {
			return nil
		}
	} else {
		f := c.StaticCallee()
		if f == nil || f.Signature.Recv() == nil {
			return nil
		}
		name = f.Name()
		if !isTxnLike(f.Signature.Recv().Type()) {
			return nil
		}
		if len(c.Args) == 0 {
			return nil
		}
		recv = c.Args[0]
		args = c.Args[1:]
	}
	switch name {
	case "Commit", "Abort", "Defer":
		return &MemdbOp{Instr: ci, Op: name, Recv: recv, Args: args, TableParam: -1}
	}
	nstr, ok := memdbMethods[name]
	if !ok || len(args) < nstr {
		return nil
	}
	op := &MemdbOp{Instr: ci, Op: name, Recv: recv, TableParam: -1}
	op.TableVal = args[0]
	if s, ok := ConstString(args[0]); ok {
		op.Table, op.TableKnown = s, true
	} else if pi := ParamIndex(args[0]); pi >= 0 {
		op.TableParam = pi
	}
	rest := args[1:]
	if nstr == 2 {
		op.IndexVal = args[1]
		if s, ok := ConstString(args[1]); ok {
			op.Index, op.IndexKnown = s, true
		}
		rest = args[2:]
	}
	if name == "Insert" || name == "Delete" {
		if len(rest) > 0 {
			op.Obj = rest[0]
		}
	}
	op.Args = rest
	if len(rest) == 1 && nstr == 2 {
		if un := UnpackVariadic(rest[0]); un != nil {
			op.Args = un
		} else if IsNilConst(rest[0]) {
			op.Args = nil
		}
	}
	return op
}

// UnpackVariadic recovers the elements of a variadic argument built at the
// call site (`f(a, b)` lowers to a slice of a fresh array with stores).
func UnpackVariadic(v ssa.Value) []ssa.Value {
	sl, ok := v.(*ssa.Slice)
	if !ok {
		return nil
	}
	alloc, ok := sl.X.(*ssa.Alloc)
	if !ok || alloc.Referrers() == nil {
		return nil
	}
	elems := map[int64]ssa.Value{}
	var max int64 = -1
	for _, r := range *alloc.Referrers() {
		ia, ok := r.(*ssa.IndexAddr)
		if !ok || ia.Referrers() == nil {
			continue
		}
		i, ok := ConstInt(ia.Index)
		if !ok {
			return nil
		}
		for _, rr := range *ia.Referrers() {
			if st, ok := rr.(*ssa.Store); ok && st.Addr == ia {
				elems[i] = st.Val
				if i > max {
					max = i
				}
			}
		}
	}
	out := make([]ssa.Value, 0, max+1)
	for i := int64(0); i <= max; i++ {
		e, ok := elems[i]
		if !ok {
			return nil
		}
		if mi, ok := e.(*ssa.MakeInterface); ok {
			e = mi.X
		}
		out = append(out, e)
	}
	return out
}

// ConstString returns the compile-time string value of v.
func ConstString(v ssa.Value) (string, bool) {
	switch x := v.(type) {
	case *ssa.Const:
		if x.Value != nil && x.Value.Kind() == constant.String {
			return constant.StringVal(x.Value), true
		}
	case *ssa.Convert:
		return ConstString(x.X)
	case *ssa.ChangeType:
		return ConstString(x.X)
	}
	return "", false
}

// ConstInt returns the compile-time integer value of v.
func ConstInt(v ssa.Value) (int64, bool) {
	switch x := v.(type) {
	case *ssa.Const:
		if x.Value != nil && x.Value.Kind() == constant.Int {
			i, ok := constant.Int64Val(x.Value)
			return i, ok
		}
	case *ssa.Convert:
		return ConstInt(x.X)
	case *ssa.ChangeType:
		return ConstInt(x.X)
	}
	return 0, false
}

// ConstBool returns the compile-time bool value of v.
func ConstBool(v ssa.Value) (bool, bool) {
	if x, ok := v.(*ssa.Const); ok && x.Value != nil && x.Value.Kind() == constant.Bool {
		return constant.BoolVal(x.Value), true
	}
	return false, false
}

// ParamIndex returns i if v is the i-th parameter of its function, else -1.
func ParamIndex(v ssa.Value) int {
	p, ok := v.(*ssa.Parameter)
	if !ok {
		return -1
	}
	for i, q := range p.Parent().Params {
		if q == p {
			return i
		}
	}
	return -1
}

// CalleeOf returns the static callee of a call instruction, or nil.
func CalleeOf(instr ssa.Instruction) *ssa.Function {
	ci, ok := instr.(ssa.CallInstruction)
	if !ok {
		return nil
	}
	return ci.Common().StaticCallee()
}

// CallArgs returns the arguments excluding the receiver for static method
// calls, so that index i matches the i-th declared parameter.
func CallArgs(c *ssa.CallCommon) []ssa.Value {
	if c.IsInvoke() {
		return c.Args
	}
	if f := c.StaticCallee(); f != nil && f.Signature.Recv() != nil && len(c.Args) > 0 {
		return c.Args[1:]
	}
	return c.Args
}

// CalleeIs reports whether the call's static callee (or generic origin) has
// the given full name, e.g. "regexp.QuoteMeta" or
// "(*github.com/hashicorp/consul/agent/consul/state.Store).KVSSet".
func CalleeIs(c *ssa.CallCommon, full string) bool {
	f := c.StaticCallee()
	if f == nil {
		return false
	}
	if f.Origin() != nil {
		f = f.Origin()
	}
	return f.String() == full
}

// CalleeName gives pkgpath.Name or (recv).Name of the static callee; for
// invoke calls "(iface).Method".
func CalleeName(c *ssa.CallCommon) string {
	if c.IsInvoke() {
		return "(" + types.TypeString(c.Value.Type(), nil) + ")." + c.Method.Name()
	}
	f := c.StaticCallee()
	if f == nil {
		return ""
	}
	if f.Origin() != nil {
		f = f.Origin()
	}
	return f.String()
}

// MethodNameOf returns the bare method/function name of a call.
func MethodNameOf(c *ssa.CallCommon) string {
	if c.IsInvoke() {
		return c.Method.Name()
	}
	if f := c.StaticCallee(); f != nil {
		return f.Name()
	}
	return ""
}

// CalleePkgPath returns the package path of the callee (static or invoke).
func CalleePkgPath(c *ssa.CallCommon) string {
	if c.IsInvoke() {
		if c.Method.Pkg() != nil {
			return c.Method.Pkg().Path()
		}
		return ""
	}
	if f := c.StaticCallee(); f != nil {
		if f.Pkg != nil {
			return f.Pkg.Pkg.Path()
		}
		if f.Origin() != nil && f.Origin().Pkg != nil {
			return f.Origin().Pkg.Pkg.Path()
		}
		if o := f.Object(); o != nil && o.Pkg() != nil {
			return o.Pkg().Path()
		}
	}
	return ""
}

// ShortType renders a type with consul package paths shortened.
func ShortType(t types.Type) string {
	return types.TypeString(t, func(p *types.Package) string {
		path := p.Path()
		if i := strings.LastIndexByte(path, '/'); i >= 0 {
			return path[i+1:]
		}
		return path
	})
}
