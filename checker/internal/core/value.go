package core

import (
	"go/token"
	"go/types"

	"golang.org/x/tools/go/ssa"
)

// Access describes how a value is obtained from a root through field
// selections, loads, type assertions and extracts.
type Access struct {
	Root   ssa.Value
	Fields []string // outermost first: ["RaftIndex","ModifyIndex"]
}

// AccessOf follows loads, field selections, conversions, type assertions and
// tuple extracts back to a root (parameter, call, alloc, global, const, phi…).
func AccessOf(v ssa.Value) Access {
	var fields []string
	for depth := 0; depth < 40; depth++ {
		switch x := v.(type) {
		case *ssa.UnOp:
			if x.Op == token.MUL {
				// load: if it is a load from a local alloc with a single store, look through
				if a, ok := x.X.(*ssa.Alloc); ok {
					if sv := singleStore(a); sv != nil {
						v = sv
						continue
					}
					return Access{Root: a, Fields: reverse(fields)}
				}
				v = x.X
				continue
			}
			return Access{Root: v, Fields: reverse(fields)}
		case *ssa.FieldAddr:
			fields = append(fields, fieldName(x.X.Type(), x.Field))
			v = x.X
			continue
		case *ssa.Field:
			fields = append(fields, fieldName(x.X.Type(), x.Field))
			v = x.X
			continue
		case *ssa.TypeAssert:
			v = x.X
			continue
		case *ssa.Extract:
			if ta, ok := x.Tuple.(*ssa.TypeAssert); ok && x.Index == 0 {
				v = ta.X
				continue
			}
			return Access{Root: v, Fields: reverse(fields)}
		case *ssa.ChangeType:
			v = x.X
			continue
		case *ssa.Convert:
			v = x.X
			continue
		case *ssa.ChangeInterface:
			v = x.X
			continue
		case *ssa.MakeInterface:
			v = x.X
			continue
		case *ssa.Phi:
			var only ssa.Value
			n := 0
			for _, e := range x.Edges {
				if IsNilConst(e) {
					continue
				}
				if e != only {
					n++
					only = e
				}
			}
			if n == 1 {
				v = only
				continue
			}
			return Access{Root: v, Fields: reverse(fields)}
		case *ssa.Alloc:
			if sv := singleStore(x); sv != nil {
				// a struct-valued local assigned once: `var r T; r = *call()`
				v = sv
				continue
			}
			return Access{Root: v, Fields: reverse(fields)}
		case *ssa.IndexAddr:
			fields = append(fields, "[]")
			v = x.X
			continue
		case *ssa.Index:
			fields = append(fields, "[]")
			v = x.X
			continue
		case *ssa.Parameter:
			// inside a helper looked into by GuardEdges: continue in the caller's frame
			if b, ok := activeBindings[x]; ok {
				v = b
				continue
			}
		}
		break
	}
	return Access{Root: v, Fields: reverse(fields)}
}

func reverse(a []string) []string {
	out := make([]string, len(a))
	for i, s := range a {
		out[len(a)-1-i] = s
	}
	return out
}

func singleStore(a *ssa.Alloc) ssa.Value {
	if a.Referrers() == nil {
		return nil
	}
	var val ssa.Value
	n := 0
	for _, r := range *a.Referrers() {
		switch r := r.(type) {
		case *ssa.Store:
			if r.Addr == a {
				n++
				val = r.Val
			} else {
				return nil // address escapes as a stored value
			}
		case *ssa.UnOp, *ssa.DebugRef:
		case *ssa.FieldAddr:
			// reading a field is fine; a store through it is a partial write
			if r.Referrers() != nil {
				for _, rr := range *r.Referrers() {
					switch rr := rr.(type) {
					case *ssa.UnOp, *ssa.DebugRef:
					case *ssa.FieldAddr:
						_ = rr
					default:
						return nil
					}
				}
			}
		case *ssa.IndexAddr:
			return nil
		case *ssa.MakeClosure:
			// captured by a closure: fine when the closure only reads the cell
			fn, ok := r.Fn.(*ssa.Function)
			if !ok {
				return nil
			}
			for i, bnd := range r.Bindings {
				if bnd != ssa.Value(a) || i >= len(fn.FreeVars) {
					continue
				}
				if !freeVarReadOnly(fn.FreeVars[i], 0) {
					return nil
				}
			}
		default:
			return nil
		}
	}
	if n == 1 {
		return val
	}
	return nil
}

// freeVarReadOnly: the captured cell is only loaded (possibly handed on to
// nested closures that only load it).
func freeVarReadOnly(fv *ssa.FreeVar, depth int) bool {
	if fv.Referrers() == nil {
		return true
	}
	if depth > 3 {
		return false
	}
	for _, r := range *fv.Referrers() {
		switch r := r.(type) {
		case *ssa.UnOp, *ssa.DebugRef:
		case *ssa.MakeClosure:
			fn, ok := r.Fn.(*ssa.Function)
			if !ok {
				return false
			}
			for i, bnd := range r.Bindings {
				if bnd == ssa.Value(fv) && i < len(fn.FreeVars) && !freeVarReadOnly(fn.FreeVars[i], depth+1) {
					return false
				}
			}
		default:
			return false
		}
	}
	return true
}

func fieldName(t types.Type, i int) string {
	t = types.Unalias(t)
	if p, ok := t.Underlying().(*types.Pointer); ok {
		t = p.Elem()
	}
	st, ok := t.Underlying().(*types.Struct)
	if !ok || i >= st.NumFields() {
		return "?"
	}
	return st.Field(i).Name()
}

// FieldObj returns the *types.Var of the field selected by a FieldAddr/Field.
func FieldObj(v ssa.Value) *types.Var {
	var t types.Type
	var i int
	switch x := v.(type) {
	case *ssa.FieldAddr:
		t, i = x.X.Type(), x.Field
	case *ssa.Field:
		t, i = x.X.Type(), x.Field
	default:
		return nil
	}
	t = types.Unalias(t)
	if p, ok := t.Underlying().(*types.Pointer); ok {
		t = p.Elem()
	}
	st, ok := t.Underlying().(*types.Struct)
	if !ok || i >= st.NumFields() {
		return nil
	}
	return st.Field(i)
}

// LastField returns the innermost selected field name or "".
func (a Access) LastField() string {
	if len(a.Fields) == 0 {
		return ""
	}
	return a.Fields[len(a.Fields)-1]
}

// HasField reports whether the access path selects a field of that name.
func (a Access) HasField(name string) bool {
	for _, f := range a.Fields {
		if f == name {
			return true
		}
	}
	return false
}

// ---------------------------------------------------------------------------
// Backward slice

// SliceOpts controls the backward slice.
type SliceOpts struct {
	MaxDepth int // interprocedural depth through static callees' returns (0 = stop at calls)
	// StopAt: do not look behind these values (treated as leaves).
	StopAt func(ssa.Value) bool
	// ThroughCalls: a call result also derives from the call's receiver and arguments.
	ThroughCalls bool
	// IntoCallees: follow a call of a function of the repository into the
	// values it returns, up to this call depth; the callee's parameters map
	// back to the call's arguments (so `seg := quoteSegment(x)` is seen as what
	// quoteSegment returns). 0 = a call result is a leaf.
	IntoCallees int
}

// Leaves computes the leaves of the backward slice of v inside its function
// (and, bounded, through static callees' results): parameters, constants,
// calls (when not followed), globals, allocs that escape, free variables.
// Loads from local cells are followed to all stores into the same cell
// (flow-insensitively); field-sensitive for FieldAddr on allocs.
func Leaves(v ssa.Value, opts SliceOpts) []ssa.Value {
	seen := map[ssa.Value]bool{}
	var out []ssa.Value
	var visit func(v ssa.Value, depth int)
	addLeaf := func(v ssa.Value) {
		out = append(out, v)
	}
	visit = func(v ssa.Value, depth int) {
		if v == nil || seen[v] {
			return
		}
		seen[v] = true
		if opts.StopAt != nil && opts.StopAt(v) {
			addLeaf(v)
			return
		}
		switch x := v.(type) {
		case *ssa.Const, *ssa.Parameter, *ssa.Global, *ssa.FreeVar, *ssa.Function, *ssa.Builtin:
			addLeaf(v)
		case *ssa.Phi:
			for _, e := range x.Edges {
				visit(e, depth)
			}
		case *ssa.UnOp:
			if x.Op == token.MUL {
				// load from a cell
				stores := storesTo(x.X)
				if len(stores) == 0 {
					visit(x.X, depth)
					return
				}
				for _, s := range stores {
					visit(s, depth)
				}
				// a load through a pointer that is not a local cell also depends on the pointer
				if _, ok := x.X.(*ssa.Alloc); !ok {
					visit(x.X, depth)
				}
				return
			}
			visit(x.X, depth)
		case *ssa.BinOp:
			visit(x.X, depth)
			visit(x.Y, depth)
		case *ssa.FieldAddr:
			visit(x.X, depth)
		case *ssa.Field:
			visit(x.X, depth)
		case *ssa.IndexAddr:
			visit(x.X, depth)
		case *ssa.Index:
			visit(x.X, depth)
		case *ssa.Lookup:
			visit(x.X, depth)
			// contents of a map built in this function: the values stored into it
			if mm, ok := x.X.(*ssa.MakeMap); ok && mm.Referrers() != nil {
				for _, rr := range *mm.Referrers() {
					if mu, ok := rr.(*ssa.MapUpdate); ok && mu.Map == ssa.Value(mm) {
						visit(mu.Value, depth)
					}
				}
			}
		case *ssa.Slice:
			visit(x.X, depth)
		case *ssa.Convert:
			visit(x.X, depth)
		case *ssa.ChangeType:
			visit(x.X, depth)
		case *ssa.ChangeInterface:
			visit(x.X, depth)
		case *ssa.MakeInterface:
			visit(x.X, depth)
		case *ssa.TypeAssert:
			visit(x.X, depth)
		case *ssa.Extract:
			if c, ok := x.Tuple.(*ssa.Call); ok && depth < opts.IntoCallees {
				if g := c.Call.StaticCallee(); g != nil && len(g.Blocks) > 0 && IsConsulFunc(g) {
					followInto(g, x.Index, c, depth, opts, visit, addLeaf)
					return
				}
			}
			visit(x.Tuple, depth)
		case *ssa.Next:
			visit(x.Iter, depth)
		case *ssa.Range:
			visit(x.X, depth)
		case *ssa.Alloc:
			stores := storesTo(x)
			if pt, ok := x.Type().Underlying().(*types.Pointer); ok && x.Referrers() != nil {
				if _, isArr := pt.Elem().Underlying().(*types.Array); isArr {
					// an array literal backing a slice: its elements
					for _, rr := range *x.Referrers() {
						if ia, ok := rr.(*ssa.IndexAddr); ok && ia.Referrers() != nil {
							for _, r3 := range *ia.Referrers() {
								if st, ok := r3.(*ssa.Store); ok && st.Addr == ssa.Value(ia) {
									stores = append(stores, st.Val)
								}
							}
						}
					}
				}
			}
			// a struct built field by field (composite literal) and then read as a whole
			if pt, ok := x.Type().Underlying().(*types.Pointer); ok && x.Referrers() != nil {
				if _, isStruct := pt.Elem().Underlying().(*types.Struct); isStruct {
					for _, rr := range *x.Referrers() {
						if fa, ok := rr.(*ssa.FieldAddr); ok && fa.Referrers() != nil {
							for _, r3 := range *fa.Referrers() {
								if st, ok := r3.(*ssa.Store); ok && st.Addr == ssa.Value(fa) {
									stores = append(stores, st.Val)
								}
							}
						}
					}
				}
			}
			if len(stores) == 0 {
				addLeaf(v)
				return
			}
			for _, s := range stores {
				visit(s, depth)
			}
		case *ssa.MakeSlice, *ssa.MakeMap, *ssa.MakeChan, *ssa.MakeClosure:
			addLeaf(v)
		case *ssa.Call:
			if bi, ok := x.Call.Value.(*ssa.Builtin); ok && bi.Name() == "append" {
				for i, a := range x.Call.Args {
					if i == 1 {
						if elems := UnpackVariadic(a); elems != nil {
							for _, e := range elems {
								visit(e, depth)
							}
							continue
						}
					}
					visit(a, depth)
				}
				return
			}
			if opts.ThroughCalls {
				addLeaf(v)
				if x.Call.IsInvoke() {
					visit(x.Call.Value, depth)
				}
				for _, a := range x.Call.Args {
					visit(a, depth)
				}
				return
			}
			if depth < opts.IntoCallees {
				if g := x.Call.StaticCallee(); g != nil && len(g.Blocks) > 0 && IsConsulFunc(g) {
					followInto(g, -1, x, depth, opts, visit, addLeaf)
					return
				}
			}
			addLeaf(v)
		default:
			addLeaf(v)
		}
	}
	visit(v, 0)
	return out
}

// followInto: the leaves of what g returns (result idx, or every result when
// idx < 0); leaves that are g's parameters continue at the call's arguments.
func followInto(g *ssa.Function, idx int, call *ssa.Call, depth int, opts SliceOpts, visit func(ssa.Value, int), addLeaf func(ssa.Value)) {
	sub := opts
	sub.IntoCallees = opts.IntoCallees - depth - 1
	for _, rt := range Returns(g) {
		for i := range rt.Results {
			if idx >= 0 && i != idx {
				continue
			}
			for _, leaf := range Leaves(ResolveResult(rt, i), sub) {
				if pa, ok := leaf.(*ssa.Parameter); ok && pa.Parent() == g {
					for j, q := range g.Params {
						if q == pa && j < len(call.Call.Args) {
							visit(call.Call.Args[j], depth+1)
						}
					}
					continue
				}
				addLeaf(leaf)
			}
		}
	}
}

// storesTo returns the values stored into the cell addressed by addr within
// the function: for an Alloc, every Store whose address is the alloc; for a
// FieldAddr/IndexAddr on an alloc, stores through FieldAddr of the same field
// of the same alloc.
func storesTo(addr ssa.Value) []ssa.Value {
	var out []ssa.Value
	switch a := addr.(type) {
	case *ssa.Alloc:
		if a.Referrers() == nil {
			return nil
		}
		for _, r := range *a.Referrers() {
			if st, ok := r.(*ssa.Store); ok && st.Addr == a {
				out = append(out, st.Val)
			}
		}
	case *ssa.FieldAddr:
		base := a.X
		if base.Referrers() == nil {
			return nil
		}
		for _, r := range *base.Referrers() {
			if fa, ok := r.(*ssa.FieldAddr); ok && fa.Field == a.Field && fa.Referrers() != nil {
				for _, rr := range *fa.Referrers() {
					if st, ok := rr.(*ssa.Store); ok && st.Addr == fa {
						out = append(out, st.Val)
					}
				}
			}
			// the whole object assigned at once (x = y, x = v.(T)): the field comes with it
			if _, isAlloc := base.(*ssa.Alloc); isAlloc {
				if st, ok := r.(*ssa.Store); ok && st.Addr == base {
					out = append(out, st.Val)
				}
			}
		}
	}
	return out
}

// StoresTo is the exported form.
func StoresTo(addr ssa.Value) []ssa.Value { return storesTo(addr) }

// Uses: transitive forward closure of referrers through value-preserving
// instructions; calls fn for every instruction that uses the value (directly
// or through such a chain).
func ForwardUses(v ssa.Value, fn func(user ssa.Instruction, via ssa.Value)) {
	seen := map[ssa.Value]bool{}
	var visit func(v ssa.Value)
	visit = func(v ssa.Value) {
		if seen[v] || v.Referrers() == nil {
			return
		}
		seen[v] = true
		for _, r := range *v.Referrers() {
			fn(r, v)
			switch x := r.(type) {
			case *ssa.Phi, *ssa.Convert, *ssa.ChangeType, *ssa.ChangeInterface, *ssa.MakeInterface, *ssa.TypeAssert, *ssa.Extract, *ssa.UnOp, *ssa.Field, *ssa.FieldAddr, *ssa.Slice, *ssa.Index, *ssa.IndexAddr, *ssa.BinOp:
				visit(x.(ssa.Value))
			case *ssa.Call:
				// a wrapper around the value (io.MultiWriter(w, h), io.TeeReader(r, h)) carries it on
				if pk := CalleePkgPath(&x.Call); pk == "io" {
					visit(x)
				}
				// handed to a function of the repository: its uses of the parameter are uses of the value
				if g := x.Call.StaticCallee(); g != nil && len(g.Blocks) > 0 && IsConsulFunc(g) {
					for i, a := range x.Call.Args {
						if a == v && i < len(g.Params) {
							visit(g.Params[i])
						}
					}
				}
			case *ssa.Store:
				// value stored into a local cell: follow loads of that cell
				if x.Val == v {
					if a, ok := x.Addr.(*ssa.Alloc); ok && a.Referrers() != nil {
						for _, ar := range *a.Referrers() {
							if ld, ok := ar.(*ssa.UnOp); ok && ld.Op == token.MUL {
								fn(ld, a)
								visit(ld)
							}
						}
					}
					// element of a local array (variadic packing) or field of a local struct: the container carries the value
					switch ad := x.Addr.(type) {
					case *ssa.IndexAddr:
						if a, ok := ad.X.(*ssa.Alloc); ok {
							visit(a)
						}
					case *ssa.FieldAddr:
						if a, ok := ad.X.(*ssa.Alloc); ok {
							visit(a)
						}
					}
				}
			}
		}
	}
	visit(v)
}

// FieldSourcesAt: the values field #field of the local struct cell a may hold
// just before instruction at — flow-sensitively: a later assignment of the
// field, or of the whole struct, kills an earlier one. A whole-struct
// assignment from another local struct cell is followed into that cell; any
// other whole-struct value is returned as it is (the field travels with it).
func FieldSourcesAt(a *ssa.Alloc, field int, at ssa.Instruction, depth int) []ssa.Value {
	if depth > 6 || a.Referrers() == nil {
		return []ssa.Value{a}
	}
	type def struct {
		st    *ssa.Store
		whole bool
	}
	var defs []def
	for _, r := range *a.Referrers() {
		switch x := r.(type) {
		case *ssa.Store:
			if x.Addr == ssa.Value(a) {
				defs = append(defs, def{x, true})
			}
		case *ssa.FieldAddr:
			if x.Field != field || x.Referrers() == nil {
				continue
			}
			for _, rr := range *x.Referrers() {
				if st, ok := rr.(*ssa.Store); ok && st.Addr == ssa.Value(x) {
					defs = append(defs, def{st, false})
				}
			}
		}
	}
	isDef := map[ssa.Instruction]bool{}
	for _, d := range defs {
		isDef[d.st] = true
	}
	var out []ssa.Value
	for _, d := range defs {
		hit := false
		w := &Walk{
			Stop:  func(in ssa.Instruction) bool { return isDef[in] && in != ssa.Instruction(d.st) },
			Visit: func(in ssa.Instruction) { hit = hit || in == at },
		}
		w.FromInstr(d.st)
		if !hit {
			continue
		}
		if !d.whole {
			out = append(out, d.st.Val)
			continue
		}
		// whole-struct assignment
		if ld, ok := d.st.Val.(*ssa.UnOp); ok && ld.Op == token.MUL {
			if a2, ok := ld.X.(*ssa.Alloc); ok {
				out = append(out, FieldSourcesAt(a2, field, ld, depth+1)...)
				continue
			}
		}
		out = append(out, d.st.Val)
	}
	if len(out) == 0 {
		return []ssa.Value{a}
	}
	return out
}
