package core

import (
	"go/token"
	"go/types"
	"strings"

	"golang.org/x/tools/go/ssa"
)

// KeyExpr is a symbolic string: the key of an index-table row, a table name …
type KeyExpr struct {
	Kind  byte // 'c' const, 'p' param, 'f' call, '?' unknown
	Str   string
	Param int
	Fn    string
	Args  []KeyExpr
}

func (k KeyExpr) String() string {
	switch k.Kind {
	case 'c':
		return k.Str
	case 'p':
		return "$" + itoa(k.Param)
	case 'f':
		parts := make([]string, len(k.Args))
		for i, a := range k.Args {
			parts[i] = a.String()
		}
		return k.Fn + "(" + strings.Join(parts, ",") + ")"
	}
	return "*"
}

// Subst replaces parameters by the call-site arguments.
func (k KeyExpr) Subst(args []KeyExpr) KeyExpr {
	switch k.Kind {
	case 'p':
		if k.Param < len(args) {
			return args[k.Param]
		}
		return KeyExpr{Kind: '?'}
	case 'f':
		out := KeyExpr{Kind: 'f', Fn: k.Fn, Args: make([]KeyExpr, len(k.Args))}
		for i, a := range k.Args {
			out.Args[i] = a.Subst(args)
		}
		return out
	}
	return k
}

// Consts lists the constant strings mentioned anywhere in the expression.
func (k KeyExpr) Consts() []string {
	switch k.Kind {
	case 'c':
		return []string{k.Str}
	case 'f':
		var out []string
		for _, a := range k.Args {
			out = append(out, a.Consts()...)
		}
		return out
	}
	return nil
}

// KeyExprOf abstracts a string-typed SSA value.
func KeyExprOf(v ssa.Value) KeyExpr {
	return keyExprOf(v, 0)
}

func keyExprOf(v ssa.Value, depth int) KeyExpr {
	if depth > 6 {
		return KeyExpr{Kind: '?'}
	}
	if s, ok := ConstString(v); ok {
		return KeyExpr{Kind: 'c', Str: s}
	}
	switch x := v.(type) {
	case *ssa.Parameter:
		return KeyExpr{Kind: 'p', Param: ParamIndex(x)}
	case *ssa.Call:
		if f := x.Call.StaticCallee(); f != nil {
			k := KeyExpr{Kind: 'f', Fn: f.Name()}
			for _, a := range x.Call.Args {
				if isStringish(a) {
					k.Args = append(k.Args, keyExprOf(a, depth+1))
				}
			}
			return k
		}
	case *ssa.BinOp:
		if x.Op == token.ADD {
			return KeyExpr{Kind: 'f', Fn: "concat", Args: []KeyExpr{keyExprOf(x.X, depth+1), keyExprOf(x.Y, depth+1)}}
		}
	case *ssa.Convert:
		return keyExprOf(x.X, depth+1)
	case *ssa.ChangeType:
		return keyExprOf(x.X, depth+1)
	case *ssa.MakeInterface:
		return keyExprOf(x.X, depth+1)
	case *ssa.Phi:
		// all edges equal?
		var first *KeyExpr
		for _, e := range x.Edges {
			k := keyExprOf(e, depth+1)
			if first == nil {
				first = &k
			} else if first.String() != k.String() {
				return KeyExpr{Kind: '?'}
			}
		}
		if first != nil {
			return *first
		}
	case *ssa.UnOp:
		if x.Op == token.MUL {
			if a, ok := x.X.(*ssa.Alloc); ok {
				if sv := singleStore(a); sv != nil {
					return keyExprOf(sv, depth+1)
				}
			}
		}
	}
	return KeyExpr{Kind: '?'}
}

func isStringish(v ssa.Value) bool {
	b, ok := v.Type().Underlying().(*types.Basic)
	return ok && b.Info()&types.IsString != 0
}
