package core

import (
	"go/constant"
	"go/token"
	"go/types"
	"strings"

	"golang.org/x/tools/go/ssa"
)

// ---------------------------------------------------------------------------
// Block-level walking with edge cuts and blocking instructions.

// Walk describes a forward traversal of one function's SSA blocks at
// instruction granularity.
type Walk struct {
	// Cut reports that the edge from -> from.Succs[succIdx] is removed.
	Cut func(from *ssa.BasicBlock, succIdx int) bool
	// Stop reports that the traversal must not continue past instr (the
	// instruction itself is still visited).
	Stop func(instr ssa.Instruction) bool
	// Visit is called for each reached instruction, in block order.
	Visit func(instr ssa.Instruction)

	pred map[*ssa.BasicBlock]*ssa.BasicBlock
	seen map[*ssa.BasicBlock]bool
}

// FromInstr starts right after instr.
func (w *Walk) FromInstr(instr ssa.Instruction) {
	b := instr.Block()
	idx := -1
	for i, in := range b.Instrs {
		if in == instr {
			idx = i
			break
		}
	}
	w.run(b, idx+1)
}

// FromEntry starts at the function entry.
func (w *Walk) FromEntry(f *ssa.Function) {
	if len(f.Blocks) == 0 {
		return
	}
	w.run(f.Blocks[0], 0)
}

// FromEdge starts at the head of from.Succs[succIdx].
func (w *Walk) FromEdge(from *ssa.BasicBlock, succIdx int) {
	if w.pred == nil {
		w.pred = map[*ssa.BasicBlock]*ssa.BasicBlock{}
	}
	t := from.Succs[succIdx]
	w.pred[t] = from
	w.run(t, 0)
}

func (w *Walk) run(start *ssa.BasicBlock, startIdx int) {
	if w.pred == nil {
		w.pred = map[*ssa.BasicBlock]*ssa.BasicBlock{}
	}
	if w.seen == nil {
		w.seen = map[*ssa.BasicBlock]bool{}
	}
	type item struct {
		b   *ssa.BasicBlock
		idx int
	}
	work := []item{{start, startIdx}}
	if startIdx == 0 {
		w.seen[start] = true
	}
	for len(work) > 0 {
		it := work[len(work)-1]
		work = work[:len(work)-1]
		stopped := false
		for i := it.idx; i < len(it.b.Instrs); i++ {
			in := it.b.Instrs[i]
			if w.Visit != nil {
				w.Visit(in)
			}
			if w.Stop != nil && w.Stop(in) {
				stopped = true
				break
			}
		}
		if stopped {
			continue
		}
		for si, s := range it.b.Succs {
			if w.Cut != nil && w.Cut(it.b, si) {
				continue
			}
			if w.seen[s] {
				continue
			}
			w.seen[s] = true
			if _, ok := w.pred[s]; !ok {
				w.pred[s] = it.b
			}
			work = append(work, item{s, 0})
		}
	}
}

// Reached reports whether the head of block b was reached.
func (w *Walk) Reached(b *ssa.BasicBlock) bool { return w.seen[b] }

// PathTo renders the block path that reached b (positions of the first
// positioned instruction of each block).
func (w *Walk) PathTo(p *Program, b *ssa.BasicBlock) []string {
	var rev []string
	seen := map[*ssa.BasicBlock]bool{}
	for cur := b; cur != nil && !seen[cur]; cur = w.pred[cur] {
		seen[cur] = true
		rev = append(rev, blockPos(p, cur))
	}
	out := make([]string, 0, len(rev))
	for i := len(rev) - 1; i >= 0; i-- {
		if len(out) > 0 && out[len(out)-1] == rev[i] {
			continue
		}
		out = append(out, rev[i])
	}
	if len(out) > 12 {
		out = append(append(out[:6:6], "…"), out[len(out)-5:]...)
	}
	return out
}

func blockPos(p *Program, b *ssa.BasicBlock) string {
	for _, in := range b.Instrs {
		if in.Pos().IsValid() {
			return p.Pos(in.Pos())
		}
	}
	return "block" + itoa(b.Index)
}

func itoa(i int) string {
	if i == 0 {
		return "0"
	}
	neg := i < 0
	if neg {
		i = -i
	}
	var b [20]byte
	n := len(b)
	for i > 0 {
		n--
		b[n] = byte('0' + i%10)
		i /= 10
	}
	if neg {
		n--
		b[n] = '-'
	}
	return string(b[n:])
}

// EdgeDominates reports whether every path from the function entry to the
// head of target uses the edge from -> from.Succs[succIdx].
func EdgeDominates(from *ssa.BasicBlock, succIdx int, target *ssa.BasicBlock) bool {
	f := from.Parent()
	w := &Walk{Cut: func(b *ssa.BasicBlock, si int) bool { return b == from && si == succIdx }}
	w.FromEntry(f)
	if target == f.Blocks[0] {
		return false
	}
	return !w.Reached(target)
}

// EdgesCut reports whether target becomes unreachable from the entry (or from
// the instruction `after`, when non-nil) once all the given edges are removed.
type Edge struct {
	From *ssa.BasicBlock
	Succ int
}

func CutMakesUnreachable(f *ssa.Function, after ssa.Instruction, edges []Edge, target ssa.Instruction) bool {
	cut := map[Edge]bool{}
	for _, e := range edges {
		cut[e] = true
	}
	found := false
	w := &Walk{
		Cut:   func(b *ssa.BasicBlock, si int) bool { return cut[Edge{b, si}] },
		Visit: func(in ssa.Instruction) { found = found || in == target },
	}
	if after != nil {
		w.FromInstr(after)
	} else {
		w.FromEntry(f)
	}
	return !found
}

// ---------------------------------------------------------------------------
// Conditions

type Tri int

const (
	Unknown Tri = iota
	True
	False
)

// condEdges returns, for a boolean value c, the edges on which c is known true
// and known false: the If instructions testing c (directly or through !).
func condEdges(c ssa.Value) (trueEdges, falseEdges []Edge) {
	var visit func(v ssa.Value, neg bool, depth int)
	visit = func(v ssa.Value, neg bool, depth int) {
		if depth > 3 || v.Referrers() == nil {
			return
		}
		for _, r := range *v.Referrers() {
			switch r := r.(type) {
			case *ssa.If:
				t, f := Edge{r.Block(), 0}, Edge{r.Block(), 1}
				if neg {
					t, f = f, t
				}
				trueEdges = append(trueEdges, t)
				falseEdges = append(falseEdges, f)
			case *ssa.UnOp:
				if r.Op == token.NOT {
					visit(r, !neg, depth+1)
				}
			}
		}
	}
	visit(c, false, 0)
	return
}

// CondAt reports what is known about boolean c at the head of block b, from
// the branch edges that dominate b.
func CondAt(c ssa.Value, b *ssa.BasicBlock) Tri {
	if k, ok := c.(*ssa.Const); ok && k.Value != nil && k.Value.Kind() == constant.Bool {
		if constant.BoolVal(k.Value) {
			return True
		}
		return False
	}
	te, fe := condEdges(c)
	for _, e := range te {
		if EdgeDominates(e.From, e.Succ, b) {
			return True
		}
	}
	for _, e := range fe {
		if EdgeDominates(e.From, e.Succ, b) {
			return False
		}
	}
	return Unknown
}

// IsNilConst reports whether v is the nil constant.
func IsNilConst(v ssa.Value) bool {
	k, ok := v.(*ssa.Const)
	return ok && k.Value == nil && !isBasic(k.Type())
}

func isBasic(t types.Type) bool {
	_, ok := t.Underlying().(*types.Basic)
	return ok
}

// NilComparisons lists the BinOps comparing v with nil: (binop, isEq).
func nilComparisons(v ssa.Value) []*ssa.BinOp {
	var out []*ssa.BinOp
	if v.Referrers() == nil {
		return nil
	}
	for _, r := range *v.Referrers() {
		if b, ok := r.(*ssa.BinOp); ok && (b.Op == token.EQL || b.Op == token.NEQ) {
			if (b.X == v && IsNilConst(b.Y)) || (b.Y == v && IsNilConst(b.X)) {
				out = append(out, b)
			}
		}
	}
	return out
}

// NilAt reports whether v is known nil (True), known non-nil (False) or
// unknown at the head of block b.
func NilAt(v ssa.Value, b *ssa.BasicBlock) Tri {
	if IsNilConst(v) {
		return True
	}
	for _, cmp := range nilComparisons(v) {
		switch CondAt(cmp, b) {
		case True:
			if cmp.Op == token.EQL {
				return True
			}
			return False
		case False:
			if cmp.Op == token.EQL {
				return False
			}
			return True
		}
	}
	return Unknown
}

// ---------------------------------------------------------------------------
// Returns

// ResolveResult recovers the value returned as result i: it sees through the
// "store to named result; rundefers; load; return" shape of functions with
// defers.
func ResolveResult(ret *ssa.Return, i int) ssa.Value {
	v := ret.Results[i]
	load, ok := v.(*ssa.UnOp)
	if !ok || load.Op != token.MUL {
		return v
	}
	alloc, ok := load.X.(*ssa.Alloc)
	if !ok {
		return v
	}
	b := ret.Block()
	// last store to alloc in this block before the load
	var stored ssa.Value
	for _, in := range b.Instrs {
		if in == ssa.Instruction(load) {
			break
		}
		if st, ok := in.(*ssa.Store); ok && st.Addr == alloc {
			stored = st.Val
		}
	}
	if stored != nil {
		return stored
	}
	// Unique store in the whole function (besides zero init)?
	var only ssa.Value
	n := 0
	if alloc.Referrers() != nil {
		for _, r := range *alloc.Referrers() {
			if st, ok := r.(*ssa.Store); ok && st.Addr == alloc {
				n++
				only = st.Val
			}
		}
	}
	if n == 1 && only != nil {
		// only usable if that store dominates the return
		if st := only; st != nil {
			return v // keep conservative: a bare return may see the zero value on other paths
		}
	}
	return v
}

// ReachingStores returns all values stored to the alloc behind a result load
// (for bare returns of named results); nil if v is not such a load.
func ReachingStores(v ssa.Value) []ssa.Value {
	load, ok := v.(*ssa.UnOp)
	if !ok || load.Op != token.MUL {
		return nil
	}
	alloc, ok := load.X.(*ssa.Alloc)
	if !ok || alloc.Referrers() == nil {
		return nil
	}
	var out []ssa.Value
	for _, r := range *alloc.Referrers() {
		if st, ok := r.(*ssa.Store); ok && st.Addr == alloc {
			out = append(out, st.Val)
		}
	}
	return out
}

type RetKind int

const (
	RetUnknown RetKind = iota
	RetSuccess
	RetFailure
)

func (k RetKind) String() string {
	return [...]string{"unknown", "success", "failure"}[k]
}

var errorType = types.Universe.Lookup("error").Type()

// IsErrorType reports whether t is the built-in error interface.
func IsErrorType(t types.Type) bool { return types.Identical(t, errorType) }

// ErrResultIndex returns the index of the last result if it is of type error, else -1.
func ErrResultIndex(f *ssa.Function) int {
	res := f.Signature.Results()
	if res.Len() == 0 {
		return -1
	}
	if IsErrorType(res.At(res.Len() - 1).Type()) {
		return res.Len() - 1
	}
	return -1
}

// errorConstructors: calls whose result is a non-nil error.
func isErrorConstructor(c *ssa.CallCommon) bool {
	f := c.StaticCallee()
	if f == nil {
		return false
	}
	full := f.String()
	switch full {
	case "fmt.Errorf", "errors.New", "errors.Join",
		"github.com/pkg/errors.New", "github.com/pkg/errors.Errorf", "github.com/pkg/errors.Wrap", "github.com/pkg/errors.Wrapf",
		"google.golang.org/grpc/status.Error", "google.golang.org/grpc/status.Errorf",
		"github.com/hashicorp/go-multierror.Append":
		return true
	}
	name := f.Name()
	if f.Pkg != nil && IsConsul(f.Pkg.Pkg.Path()) {
		// consul's own error constructors: functions that return exactly one
		// error-ish value and are named like constructors.
		if strings.HasPrefix(name, "PermissionDenied") || strings.HasSuffix(name, "Error") && strings.HasPrefix(name, "New") {
			return true
		}
	}
	return false
}

// calleeErrKind: a function of the repository all of whose returns carry a
// non-nil error (an error constructor such as connect.InvalidCSRError) is
// RetFailure; anything else is RetUnknown.
var calleeErrMemo = map[*ssa.Function]RetKind{}
var calleeErrBusy = map[*ssa.Function]bool{}

func calleeErrKind(g *ssa.Function) RetKind {
	if g == nil || len(g.Blocks) == 0 || !IsConsulFunc(g) || ErrResultIndex(g) < 0 {
		return RetUnknown
	}
	if k, ok := calleeErrMemo[g]; ok {
		return k
	}
	if calleeErrBusy[g] {
		return RetUnknown
	}
	calleeErrBusy[g] = true
	defer delete(calleeErrBusy, g)
	kind := RetKind(-1)
	for _, rt := range Returns(g) {
		k := ClassifyReturn(rt)
		if k == RetUnknown || (kind != -1 && kind != k) {
			kind = RetUnknown
			break
		}
		kind = k
	}
	if kind != RetFailure {
		// only "always fails" is used: a forwarded call that may succeed keeps
		// being resolved through the callee by the rules that follow it
		kind = RetUnknown
	}
	calleeErrMemo[g] = kind
	return kind
}

// ErrKindOfValue classifies an error-typed value at the head of block b.
func ErrKindOfValue(v ssa.Value, b *ssa.BasicBlock) RetKind {
	return errKind(v, b, 0)
}

func errKind(v ssa.Value, b *ssa.BasicBlock, depth int) RetKind {
	if depth > 6 {
		return RetUnknown
	}
	if IsNilConst(v) {
		return RetSuccess
	}
	switch x := v.(type) {
	case *ssa.MakeInterface:
		return RetFailure
	case *ssa.Call:
		if isErrorConstructor(&x.Call) {
			return RetFailure
		}
		if k := calleeErrKind(x.Call.StaticCallee()); k != RetUnknown {
			return k
		}
	case *ssa.Extract:
		if c, ok := x.Tuple.(*ssa.Call); ok {
			if g := c.Call.StaticCallee(); g != nil && ErrResultIndex(g) == x.Index {
				if k := calleeErrKind(g); k != RetUnknown {
					return k
				}
			}
		}
	case *ssa.UnOp:
		if x.Op == token.MUL {
			if _, ok := x.X.(*ssa.Global); ok {
				return RetFailure // package-level sentinel
			}
		}
	case *ssa.ChangeInterface:
		return errKind(x.X, b, depth+1)
	case *ssa.Phi:
		kind := RetKind(-1)
		for i, e := range x.Edges {
			pb := x.Block().Preds[i]
			k := errKind(e, pb, depth+1)
			// facts must hold at the end of pb; use pb's head as approximation,
			// plus the edge itself if pb ends in an If on a nil comparison of e.
			if k == RetUnknown {
				k = kindFromEdge(e, pb, x.Block())
			}
			if kind == -1 {
				kind = k
			} else if kind != k {
				return RetUnknown
			}
		}
		if kind == -1 {
			return RetUnknown
		}
		return kind
	}
	switch NilAt(v, b) {
	case True:
		return RetSuccess
	case False:
		return RetFailure
	}
	return RetUnknown
}

func kindFromEdge(v ssa.Value, from, to *ssa.BasicBlock) RetKind {
	if len(from.Instrs) == 0 {
		return RetUnknown
	}
	ifi, ok := from.Instrs[len(from.Instrs)-1].(*ssa.If)
	if !ok {
		return RetUnknown
	}
	cmp, ok := ifi.Cond.(*ssa.BinOp)
	if !ok || !(cmp.X == v && IsNilConst(cmp.Y) || cmp.Y == v && IsNilConst(cmp.X)) {
		return RetUnknown
	}
	trueEdge := from.Succs[0] == to
	isNil := (cmp.Op == token.EQL) == trueEdge
	if from.Succs[0] == from.Succs[1] {
		return RetUnknown
	}
	if isNil {
		return RetSuccess
	}
	return RetFailure
}

// ClassifyReturn classifies a return by its last, error-typed result. A
// function without error result always "succeeds".
func ClassifyReturn(ret *ssa.Return) RetKind {
	f := ret.Parent()
	ei := ErrResultIndex(f)
	if ei < 0 {
		return RetSuccess
	}
	v := ResolveResult(ret, ei)
	k := ErrKindOfValue(v, ret.Block())
	if k != RetUnknown {
		return k
	}
	// bare return of a named result: all reaching stores agree?
	if stores := ReachingStores(v); len(stores) > 0 {
		kind := RetKind(-1)
		for _, s := range stores {
			sk := ErrKindOfValue(s, ret.Block())
			if kind == -1 {
				kind = sk
			} else if kind != sk {
				return RetUnknown
			}
		}
		if kind == RetFailure {
			return RetFailure
		}
	}
	return RetUnknown
}

// Returns lists the Return instructions of f.
func Returns(f *ssa.Function) []*ssa.Return {
	var out []*ssa.Return
	for _, b := range f.Blocks {
		if len(b.Instrs) == 0 {
			continue
		}
		if r, ok := b.Instrs[len(b.Instrs)-1].(*ssa.Return); ok {
			out = append(out, r)
		}
	}
	return out
}

// ---------------------------------------------------------------------------
// Must-dataflow: which facts (strings) hold on every path from a start point
// to each instruction.

type StrSet map[string]bool

func (s StrSet) Clone() StrSet {
	o := make(StrSet, len(s))
	for k := range s {
		o[k] = true
	}
	return o
}

func (s StrSet) Keys() []string {
	out := make([]string, 0, len(s))
	for k := range s {
		out = append(out, k)
	}
	sortStrings(out)
	return out
}

func sortStrings(a []string) {
	for i := 1; i < len(a); i++ {
		for j := i; j > 0 && a[j] < a[j-1]; j-- {
			a[j], a[j-1] = a[j-1], a[j]
		}
	}
}

func intersect(a, b StrSet) StrSet {
	o := StrSet{}
	for k := range a {
		if b[k] {
			o[k] = true
		}
	}
	return o
}

func equalSets(a, b StrSet) bool {
	if len(a) != len(b) {
		return false
	}
	for k := range a {
		if !b[k] {
			return false
		}
	}
	return true
}

// MustFlow computes, for every instruction reachable from `start` (exclusive;
// nil = function entry), the set of generated facts that hold on *every* path
// from start to just before that instruction. gen returns the facts an
// instruction establishes. cut removes edges (infeasible or irrelevant paths).
type MustFlow struct {
	F     *ssa.Function
	Start ssa.Instruction
	Gen   func(ssa.Instruction) []string
	Cut   func(from *ssa.BasicBlock, succIdx int) bool

	in      map[*ssa.BasicBlock]StrSet // at block head; nil = unreachable (top)
	startIn StrSet
}

func (m *MustFlow) Run() {
	m.in = map[*ssa.BasicBlock]StrSet{}
	var startBlock *ssa.BasicBlock
	startIdx := 0
	if m.Start != nil {
		startBlock = m.Start.Block()
		for i, in := range startBlock.Instrs {
			if in == m.Start {
				startIdx = i + 1
			}
		}
	} else {
		startBlock = m.F.Blocks[0]
		m.in[startBlock] = StrSet{}
	}
	// out of the partial start block
	flowBlock := func(b *ssa.BasicBlock, from int, in StrSet) StrSet {
		cur := in.Clone()
		for i := from; i < len(b.Instrs); i++ {
			for _, g := range m.Gen(b.Instrs[i]) {
				cur[g] = true
			}
		}
		return cur
	}
	work := []*ssa.BasicBlock{}
	push := func(from *ssa.BasicBlock, out StrSet) {
		for si, s := range from.Succs {
			if m.Cut != nil && m.Cut(from, si) {
				continue
			}
			old, ok := m.in[s]
			var nw StrSet
			if !ok {
				nw = out.Clone()
			} else {
				nw = intersect(old, out)
				if equalSets(nw, old) {
					continue
				}
			}
			m.in[s] = nw
			work = append(work, s)
		}
	}
	if m.Start != nil {
		push(startBlock, flowBlock(startBlock, startIdx, StrSet{}))
	} else {
		work = append(work, startBlock)
	}
	for len(work) > 0 {
		b := work[len(work)-1]
		work = work[:len(work)-1]
		push(b, flowBlock(b, 0, m.in[b]))
	}
}

// At returns the must-set just before instr and whether instr is reachable
// from the start. For instructions in the start block after Start, the set is
// computed from Start.
func (m *MustFlow) At(instr ssa.Instruction) (StrSet, bool) {
	b := instr.Block()
	from := 0
	var cur StrSet
	inStartTail := false
	if m.Start != nil && b == m.Start.Block() {
		si, ii := -1, -1
		for i, in := range b.Instrs {
			if in == m.Start {
				si = i
			}
			if in == instr {
				ii = i
			}
		}
		if ii > si {
			inStartTail = true
			from = si + 1
			cur = StrSet{}
		}
	}
	if !inStartTail {
		in, ok := m.in[b]
		if !ok {
			return nil, false
		}
		cur = in.Clone()
	} else if in, ok := m.in[b]; ok {
		// the start block is also re-entered through a loop: both apply
		_ = in
	}
	for i := from; i < len(b.Instrs); i++ {
		if b.Instrs[i] == instr {
			break
		}
		for _, g := range m.Gen(b.Instrs[i]) {
			cur[g] = true
		}
	}
	if inStartTail {
		if in, ok := m.in[b]; ok {
			// reachable both directly and via a back edge: intersect
			alt := in.Clone()
			for i := 0; i < len(b.Instrs); i++ {
				if b.Instrs[i] == instr {
					break
				}
				for _, g := range m.Gen(b.Instrs[i]) {
					alt[g] = true
				}
			}
			cur = intersect(cur, alt)
		}
	}
	return cur, true
}

// ---------------------------------------------------------------------------
// Boolean evaluation under the facts that hold at a block.

// EvalBoolAt folds a boolean value using constants and the branch facts that
// dominate block b (nil-ness of compared values, comma-ok results).
func EvalBoolAt(v ssa.Value, b *ssa.BasicBlock) Tri {
	return evalBool(v, b, 0)
}

func evalBool(v ssa.Value, b *ssa.BasicBlock, depth int) Tri {
	if depth > 8 {
		return Unknown
	}
	if c, ok := ConstBool(v); ok {
		if c {
			return True
		}
		return False
	}
	if t := CondAt(v, b); t != Unknown {
		return t
	}
	switch x := v.(type) {
	case *ssa.UnOp:
		if x.Op == token.NOT {
			switch evalBool(x.X, b, depth+1) {
			case True:
				return False
			case False:
				return True
			}
		}
	case *ssa.BinOp:
		if x.Op == token.EQL || x.Op == token.NEQ {
			var other ssa.Value
			if IsNilConst(x.Y) {
				other = x.X
			} else if IsNilConst(x.X) {
				other = x.Y
			}
			if other != nil {
				n := NilAtDeep(other, b)
				if n == Unknown {
					return Unknown
				}
				isNil := n == True
				if (x.Op == token.EQL) == isNil {
					return True
				}
				return False
			}
		}
	case *ssa.Phi:
		res := Tri(-1)
		for _, e := range x.Edges {
			t := evalBool(e, b, depth+1)
			if res == -1 {
				res = t
			} else if res != t {
				return Unknown
			}
		}
		if res == -1 {
			return Unknown
		}
		return res
	}
	return Unknown
}

// NilAtDeep is NilAt plus: an interface value whose comma-ok type assertion
// succeeded (ok known true at b) is non-nil; the result of a successful
// comma-ok assertion to a pointer type is whatever the facts say about it.
func NilAtDeep(v ssa.Value, b *ssa.BasicBlock) Tri {
	if t := NilAt(v, b); t != Unknown {
		return t
	}
	if v.Referrers() != nil {
		for _, r := range *v.Referrers() {
			ta, ok := r.(*ssa.TypeAssert)
			if !ok || !ta.CommaOk || ta.X != v || ta.Referrers() == nil {
				continue
			}
			for _, rr := range *ta.Referrers() {
				if ex, ok := rr.(*ssa.Extract); ok && ex.Index == 1 {
					if CondAt(ex, b) == True {
						return False // assertion succeeded ⇒ interface non-nil
					}
				}
			}
		}
	}
	switch x := v.(type) {
	case *ssa.MakeInterface, *ssa.Alloc, *ssa.MakeMap, *ssa.MakeSlice, *ssa.MakeClosure, *ssa.Function:
		_ = x
		return False
	}
	return Unknown
}

// CondEdges is the exported form of condEdges.
func CondEdges(c ssa.Value) (trueEdges, falseEdges []Edge) { return condEdges(c) }

// ---------------------------------------------------------------------------
// Boolean flag propagation ("needsCommit", "found", "deleted" idioms).

// FlagFlow computes, for paths starting right after `start`, which values the
// function's boolean constant-phis may hold at each block, and from that which
// branch edges are infeasible. Only phis all of whose (transitive) inputs are
// boolean constants or other such phis are tracked.
type FlagFlow struct {
	f      *ssa.Function
	isFlag map[*ssa.Phi]bool
	// at[b][phi] = bitset 1=true possible, 2=false possible (at block head, after phis)
	at map[*ssa.BasicBlock]map[*ssa.Phi]uint8
}

func flagPhis(f *ssa.Function) map[*ssa.Phi]bool {
	cand := map[*ssa.Phi]bool{}
	for _, b := range f.Blocks {
		for _, in := range b.Instrs {
			phi, ok := in.(*ssa.Phi)
			if !ok {
				break
			}
			if bt, ok := phi.Type().Underlying().(*types.Basic); ok && bt.Kind() == types.Bool {
				cand[phi] = true
			}
		}
	}
	for changed := true; changed; {
		changed = false
		for phi := range cand {
			for _, e := range phi.Edges {
				if _, ok := ConstBool(e); ok {
					continue
				}
				if p2, ok := e.(*ssa.Phi); ok && cand[p2] {
					continue
				}
				delete(cand, phi)
				changed = true
				break
			}
		}
	}
	return cand
}

// NewFlagFlow runs the analysis from the instruction after start.
func NewFlagFlow(start ssa.Instruction) *FlagFlow {
	f := start.Parent()
	ff := &FlagFlow{f: f, isFlag: flagPhis(f), at: map[*ssa.BasicBlock]map[*ssa.Phi]uint8{}}
	if len(ff.isFlag) == 0 {
		return ff
	}
	unknown := func() map[*ssa.Phi]uint8 {
		m := map[*ssa.Phi]uint8{}
		for p := range ff.isFlag {
			m[p] = 3
		}
		return m
	}
	transfer := func(from, to *ssa.BasicBlock, in map[*ssa.Phi]uint8) map[*ssa.Phi]uint8 {
		out := map[*ssa.Phi]uint8{}
		for k, v := range in {
			out[k] = v
		}
		pi := -1
		for i, p := range to.Preds {
			if p == from {
				pi = i
			}
		}
		for _, in2 := range to.Instrs {
			phi, ok := in2.(*ssa.Phi)
			if !ok {
				break
			}
			if !ff.isFlag[phi] || pi < 0 {
				continue
			}
			e := phi.Edges[pi]
			if c, ok := ConstBool(e); ok {
				if c {
					out[phi] = 1
				} else {
					out[phi] = 2
				}
			} else if p2, ok := e.(*ssa.Phi); ok {
				out[phi] = in[p2] // simultaneous assignment: read from the incoming state
			} else {
				out[phi] = 3
			}
		}
		return out
	}
	// infeasible edge under state
	infeasible := func(b *ssa.BasicBlock, si int, st map[*ssa.Phi]uint8) bool {
		if len(b.Instrs) == 0 {
			return false
		}
		ifi, ok := b.Instrs[len(b.Instrs)-1].(*ssa.If)
		if !ok {
			return false
		}
		cond := ifi.Cond
		neg := false
		for {
			if u, ok := cond.(*ssa.UnOp); ok && u.Op == token.NOT {
				cond = u.X
				neg = !neg
				continue
			}
			break
		}
		phi, ok := cond.(*ssa.Phi)
		if !ok || !ff.isFlag[phi] {
			return false
		}
		v := st[phi]
		wantTrue := si == 0
		if neg {
			wantTrue = !wantTrue
		}
		if wantTrue {
			return v&1 == 0
		}
		return v&2 == 0
	}
	sb := start.Block()
	init := unknown()
	work := []*ssa.BasicBlock{}
	merge := func(to *ssa.BasicBlock, st map[*ssa.Phi]uint8) {
		old, ok := ff.at[to]
		if !ok {
			ff.at[to] = st
			work = append(work, to)
			return
		}
		ch := false
		for k, v := range st {
			if old[k]|v != old[k] {
				old[k] |= v
				ch = true
			}
		}
		if ch {
			work = append(work, to)
		}
	}
	for si, s := range sb.Succs {
		if infeasible(sb, si, init) {
			continue
		}
		merge(s, transfer(sb, s, init))
	}
	for len(work) > 0 {
		b := work[len(work)-1]
		work = work[:len(work)-1]
		st := ff.at[b]
		for si, s := range b.Succs {
			if infeasible(b, si, st) {
				continue
			}
			merge(s, transfer(b, s, st))
		}
	}
	ff.at[sb] = mergeInto(ff.at[sb], init)
	return ff
}

func mergeInto(a, b map[*ssa.Phi]uint8) map[*ssa.Phi]uint8 {
	if a == nil {
		return b
	}
	for k, v := range b {
		a[k] |= v
	}
	return a
}

// Infeasible reports whether edge b→Succs[si] cannot be taken on any path from
// the start instruction, as far as constant boolean flags tell.
func (ff *FlagFlow) Infeasible(b *ssa.BasicBlock, si int) bool {
	if len(ff.isFlag) == 0 || len(b.Instrs) == 0 {
		return false
	}
	st, ok := ff.at[b]
	if !ok {
		return false
	}
	ifi, ok := b.Instrs[len(b.Instrs)-1].(*ssa.If)
	if !ok {
		return false
	}
	cond := ifi.Cond
	neg := false
	for {
		if u, ok := cond.(*ssa.UnOp); ok && u.Op == token.NOT {
			cond = u.X
			neg = !neg
			continue
		}
		break
	}
	phi, ok := cond.(*ssa.Phi)
	if !ok || !ff.isFlag[phi] {
		return false
	}
	v := st[phi]
	wantTrue := si == 0
	if neg {
		wantTrue = !wantTrue
	}
	if wantTrue {
		return v&1 == 0
	}
	return v&2 == 0
}

// ReachingFieldStores returns the values stored into field `field` of the
// struct addressed by base that may reach instr without being overwritten.
func ReachingFieldStores(base ssa.Value, field string, instr ssa.Instruction) []ssa.Value {
	var stores []*ssa.Store
	if base.Referrers() == nil {
		return nil
	}
	for _, r := range *base.Referrers() {
		fa, ok := r.(*ssa.FieldAddr)
		if !ok || fieldName(fa.X.Type(), fa.Field) != field || fa.Referrers() == nil {
			continue
		}
		for _, rr := range *fa.Referrers() {
			if st, ok := rr.(*ssa.Store); ok && st.Addr == fa {
				stores = append(stores, st)
			}
		}
	}
	isStore := map[ssa.Instruction]bool{}
	for _, s := range stores {
		isStore[s] = true
	}
	var out []ssa.Value
	for _, s := range stores {
		hit := false
		w := &Walk{
			Stop:  func(in ssa.Instruction) bool { return isStore[in] && in != ssa.Instruction(s) },
			Visit: func(in ssa.Instruction) { hit = hit || in == instr },
		}
		w.FromInstr(s)
		if hit {
			out = append(out, s.Val)
		}
	}
	return out
}

// ---------------------------------------------------------------------------
// NilFlow: forward propagation of "value is nil / non-nil" facts along paths
// that start at one edge, through phis (a phi takes the fact of the incoming
// value on the edge actually travelled). Facts that differ between joining
// paths are dropped. Used to prune branch edges that are infeasible on the
// paths of interest and to classify returns reached on those paths.

type NilFlow struct {
	f  *ssa.Function
	at map[*ssa.BasicBlock]map[ssa.Value]Tri // at block head (after phis); only True/False stored
}

func intrinsicNil(v ssa.Value) Tri {
	if IsNilConst(v) {
		return True
	}
	switch x := v.(type) {
	case *ssa.MakeInterface, *ssa.Alloc, *ssa.MakeMap, *ssa.MakeSlice, *ssa.MakeClosure, *ssa.Function:
		return False
	case *ssa.Call:
		if isErrorConstructor(&x.Call) {
			return False
		}
	case *ssa.UnOp:
		if x.Op == token.MUL {
			if _, ok := x.X.(*ssa.Global); ok && IsErrorType(x.Type()) {
				return False
			}
		}
	}
	return Unknown
}

func factOf(st map[ssa.Value]Tri, v ssa.Value) Tri {
	if t := intrinsicNil(v); t != Unknown {
		return t
	}
	if ci, ok := v.(*ssa.ChangeInterface); ok {
		return factOf(st, ci.X)
	}
	return st[v]
}

// edgeFacts: facts established by taking from→Succs[si] (nil comparisons, comma-ok).
func edgeFacts(from *ssa.BasicBlock, si int, st map[ssa.Value]Tri) (add map[ssa.Value]Tri, infeasible bool) {
	add = map[ssa.Value]Tri{}
	if len(from.Instrs) == 0 {
		return
	}
	ifi, ok := from.Instrs[len(from.Instrs)-1].(*ssa.If)
	if !ok || from.Succs[0] == from.Succs[1] {
		return
	}
	cond := ifi.Cond
	truth := si == 0
	for {
		if u, ok := cond.(*ssa.UnOp); ok && u.Op == token.NOT {
			cond = u.X
			truth = !truth
			continue
		}
		break
	}
	// boolean facts are stored as True(=true)/False on the bool value itself
	if known := st[cond]; known != Unknown {
		if (known == True) != truth {
			return add, true
		}
	}
	if c, ok := ConstBool(cond); ok && c != truth {
		return add, true
	}
	if truth {
		add[cond] = True
	} else {
		add[cond] = False
	}
	if cmp, ok := cond.(*ssa.BinOp); ok && (cmp.Op == token.EQL || cmp.Op == token.NEQ) {
		var other ssa.Value
		if IsNilConst(cmp.Y) {
			other = cmp.X
		} else if IsNilConst(cmp.X) {
			other = cmp.Y
		}
		if other != nil {
			isNil := (cmp.Op == token.EQL) == truth
			if k := factOf(st, other); k != Unknown && (k == True) != isNil {
				return add, true
			}
			if isNil {
				add[other] = True
			} else {
				add[other] = False
			}
		}
	}
	return
}

// NewNilFlow propagates from the edge from→Succs[si] with the initial facts.
func NewNilFlow(from *ssa.BasicBlock, si int, init map[ssa.Value]Tri) *NilFlow {
	nf := &NilFlow{f: from.Parent(), at: map[*ssa.BasicBlock]map[ssa.Value]Tri{}}
	st0 := map[ssa.Value]Tri{}
	for k, v := range init {
		st0[k] = v
	}
	transfer := func(from, to *ssa.BasicBlock, si int, st map[ssa.Value]Tri) (map[ssa.Value]Tri, bool) {
		add, inf := edgeFacts(from, si, st)
		if inf {
			return nil, false
		}
		out := map[ssa.Value]Tri{}
		for k, v := range st {
			out[k] = v
		}
		for k, v := range add {
			out[k] = v
		}
		pi := -1
		for i, p := range to.Preds {
			if p == from {
				pi = i
			}
		}
		newPhi := map[ssa.Value]Tri{}
		for _, in := range to.Instrs {
			phi, ok := in.(*ssa.Phi)
			if !ok {
				break
			}
			if pi >= 0 {
				e := phi.Edges[pi]
				if c, ok := ConstBool(e); ok {
					if c {
						newPhi[phi] = True
					} else {
						newPhi[phi] = False
					}
				} else {
					newPhi[phi] = factOf(out, e)
				}
			}
		}
		for k, v := range newPhi {
			if v == Unknown {
				delete(out, k)
			} else {
				out[k] = v
			}
		}
		// values defined in `to` (non-phi) lose stale facts from an earlier iteration
		for _, in := range to.Instrs {
			if _, isPhi := in.(*ssa.Phi); isPhi {
				continue
			}
			if v, ok := in.(ssa.Value); ok {
				delete(out, v)
			}
		}
		return out, true
	}
	var work []*ssa.BasicBlock
	merge := func(to *ssa.BasicBlock, st map[ssa.Value]Tri) {
		old, ok := nf.at[to]
		if !ok {
			nf.at[to] = st
			work = append(work, to)
			return
		}
		changed := false
		for k, v := range old {
			if st[k] != v {
				delete(old, k)
				changed = true
			}
		}
		if changed {
			work = append(work, to)
		}
	}
	if st, ok := transfer(from, from.Succs[si], si, st0); ok {
		merge(from.Succs[si], st)
	}
	for n := 0; len(work) > 0 && n < 100000; n++ {
		b := work[len(work)-1]
		work = work[:len(work)-1]
		st := nf.at[b]
		for si2, s := range b.Succs {
			if out, ok := transfer(b, s, si2, st); ok {
				merge(s, out)
			}
		}
	}
	return nf
}

// Reached reports whether block b is reachable on the propagated paths.
func (nf *NilFlow) Reached(b *ssa.BasicBlock) bool { _, ok := nf.at[b]; return ok }

// Fact returns what is known about v at the head of b on those paths.
func (nf *NilFlow) Fact(v ssa.Value, b *ssa.BasicBlock) Tri {
	st, ok := nf.at[b]
	if !ok {
		return Unknown
	}
	return factOf(st, v)
}

// Infeasible reports that edge b→Succs[si] cannot be taken on those paths.
func (nf *NilFlow) Infeasible(b *ssa.BasicBlock, si int) bool {
	st, ok := nf.at[b]
	if !ok {
		return true
	}
	_, inf := edgeFacts(b, si, st)
	return inf
}

// ReturnKind classifies a return reached on those paths.
func (nf *NilFlow) ReturnKind(rt *ssa.Return) RetKind {
	ei := ErrResultIndex(rt.Parent())
	if ei < 0 {
		return RetSuccess
	}
	v := ResolveResult(rt, ei)
	switch nf.Fact(v, rt.Block()) {
	case True:
		return RetSuccess
	case False:
		return RetFailure
	}
	return ClassifyReturn(rt)
}

// ---------------------------------------------------------------------------
// HeldLocks: forward must-analysis of which locks are held before each
// instruction. lockOf returns (key, +1) for an acquire, (key, -1) for a
// release, ("", 0) otherwise; deferred releases are ignored (the lock stays
// held until the function returns).
type HeldLocks struct {
	f      *ssa.Function
	lockOf func(ssa.Instruction) (string, int)
	in     map[*ssa.BasicBlock]StrSet
}

func NewHeldLocks(f *ssa.Function, lockOf func(ssa.Instruction) (string, int)) *HeldLocks {
	h := &HeldLocks{f: f, lockOf: lockOf, in: map[*ssa.BasicBlock]StrSet{}}
	if len(f.Blocks) == 0 {
		return h
	}
	h.in[f.Blocks[0]] = StrSet{}
	work := []*ssa.BasicBlock{f.Blocks[0]}
	for len(work) > 0 {
		b := work[len(work)-1]
		work = work[:len(work)-1]
		cur := h.in[b].Clone()
		for _, in := range b.Instrs {
			h.step(cur, in)
		}
		for _, s := range b.Succs {
			old, ok := h.in[s]
			var nw StrSet
			if !ok {
				nw = cur.Clone()
			} else {
				nw = intersect(old, cur)
				if equalSets(nw, old) {
					continue
				}
			}
			h.in[s] = nw
			work = append(work, s)
		}
	}
	return h
}

func (h *HeldLocks) step(cur StrSet, in ssa.Instruction) {
	if _, isDefer := in.(*ssa.Defer); isDefer {
		return
	}
	if _, isGo := in.(*ssa.Go); isGo {
		return
	}
	k, d := h.lockOf(in)
	switch {
	case d > 0:
		cur[k] = true
	case d < 0:
		delete(cur, k)
	}
}

// At returns the locks held on every path just before instr (nil when instr
// is unreachable).
func (h *HeldLocks) At(instr ssa.Instruction) StrSet {
	b := instr.Block()
	in, ok := h.in[b]
	if !ok {
		return nil
	}
	cur := in.Clone()
	for _, x := range b.Instrs {
		if x == instr {
			return cur
		}
		h.step(cur, x)
	}
	return cur
}
