package core

// Unit tests of the analysis primitives on the Go idioms the rules meet in
// consul: `||` / `&&` guards, early returns, defer-spilled results,
// commit-if-flag, lock/unlock pairs with defer, closures capturing
// parameters, array-literal slices, append chains. The fixtures are built
// into SSA in memory; nothing is executed.

import (
	"go/ast"
	"go/importer"
	"go/parser"
	"go/token"
	"go/types"
	"testing"

	"golang.org/x/tools/go/ssa"
	"golang.org/x/tools/go/ssa/ssautil"
)

func build(t *testing.T, src string) *ssa.Package {
	t.Helper()
	fset := token.NewFileSet()
	f, err := parser.ParseFile(fset, "x.go", src, parser.ParseComments)
	if err != nil {
		t.Fatal(err)
	}
	pkg, _, err := ssautil.BuildPackage(&types.Config{Importer: importer.ForCompiler(fset, "source", nil)}, fset, types.NewPackage("x", "x"), []*ast.File{f}, ssa.InstantiateGenerics)
	if err != nil {
		t.Fatal(err)
	}
	return pkg
}

func callTo(f *ssa.Function, name string) ssa.Instruction {
	for _, b := range f.Blocks {
		for _, in := range b.Instrs {
			if ci, ok := in.(ssa.CallInstruction); ok {
				if g := ci.Common().StaticCallee(); g != nil && g.Name() == name {
					return in
				}
			}
		}
	}
	return nil
}

func cmpOf(f *ssa.Function, op token.Token, nth int) *ssa.BinOp {
	n := 0
	for _, b := range f.Blocks {
		for _, in := range b.Instrs {
			if c, ok := in.(*ssa.BinOp); ok && c.Op == op {
				if n == nth {
					return c
				}
				n++
			}
		}
	}
	return nil
}

const guardSrc = `package x
func check() bool
func write()
func orGuard(a, b int) {
	if a == 1 || b > 8 {
		write()
	}
}
func andGuard(a, b int) {
	if a == 1 && b > 8 {
		write()
	}
}
func earlyReturn(a int) {
	if a != 1 {
		return
	}
	write()
}
func switchGuard(a int) {
	switch a {
	case 1:
		write()
	case 2:
	}
}
`

func TestCutMakesUnreachable(t *testing.T) {
	pkg := build(t, guardSrc)
	for _, tc := range []struct {
		fn      string
		guarded bool
	}{{"orGuard", false}, {"andGuard", true}, {"earlyReturn", true}, {"switchGuard", true}} {
		f := pkg.Func(tc.fn)
		w := callTo(f, "write")
		// the guard "a == 1": cut its true edges (a != 1: false edges)
		var edges []Edge
		if c := cmpOf(f, token.EQL, 0); c != nil {
			te, _ := CondEdges(c)
			edges = te
		} else if c := cmpOf(f, token.NEQ, 0); c != nil {
			_, fe := CondEdges(c)
			edges = fe
		}
		got := len(edges) > 0 && CutMakesUnreachable(f, nil, edges, w)
		if got != tc.guarded {
			t.Errorf("%s: write guarded by a==1: got %v want %v", tc.fn, got, tc.guarded)
		}
	}
}

const flowSrc = `package x
func bump()
func write()
func commit()
func mustBump(c bool) int {
	write()
	if c {
		bump()
		return 1
	}
	bump()
	return 2
}
func missesBump(c bool) int {
	write()
	if c {
		bump()
	}
	return 1
}
func loopBump(n int) {
	for i := 0; i < n; i++ {
		write()
	}
	bump()
}
`

func TestMustFlow(t *testing.T) {
	pkg := build(t, flowSrc)
	for _, tc := range []struct {
		fn   string
		want bool
	}{{"mustBump", true}, {"missesBump", false}, {"loopBump", true}} {
		f := pkg.Func(tc.fn)
		mf := &MustFlow{F: f, Start: callTo(f, "write"), Gen: func(in ssa.Instruction) []string {
			if ci, ok := in.(ssa.CallInstruction); ok {
				if g := ci.Common().StaticCallee(); g != nil && g.Name() == "bump" {
					return []string{"bump"}
				}
			}
			return nil
		}}
		mf.Run()
		all := true
		for _, rt := range Returns(f) {
			if s, ok := mf.At(rt); ok && !s["bump"] {
				all = false
			}
		}
		if all != tc.want {
			t.Errorf("%s: bump on every path after write: got %v want %v", tc.fn, all, tc.want)
		}
	}
}

const lockSrc = `package x
import "sync"
type P struct {
	lock sync.RWMutex
	m    map[string]int
}
func (p *P) deferred(k string) int {
	p.lock.Lock()
	defer p.lock.Unlock()
	return p.m[k]
}
func (p *P) paired(k string) int {
	p.lock.RLock()
	v := p.m[k]
	p.lock.RUnlock()
	return v
}
func (p *P) unlockedTail(k string) int {
	p.lock.Lock()
	p.lock.Unlock()
	return p.m[k]
}
func (p *P) oneBranch(k string, c bool) int {
	if c {
		p.lock.Lock()
		defer p.lock.Unlock()
	}
	return p.m[k]
}
func (p *P) closure(k string) func() int {
	p.lock.Lock()
	defer p.lock.Unlock()
	return func() int { return p.m[k] }
}
`

func lockOfTest(in ssa.Instruction) (string, int) {
	ci, ok := in.(ssa.CallInstruction)
	if !ok {
		return "", 0
	}
	g := ci.Common().StaticCallee()
	if g == nil || len(ci.Common().Args) == 0 {
		return "", 0
	}
	if _, ok := ci.Common().Args[0].(*ssa.FieldAddr); !ok {
		return "", 0
	}
	switch g.Name() {
	case "Lock", "RLock":
		return "P.lock", 1
	case "Unlock", "RUnlock":
		return "P.lock", -1
	}
	return "", 0
}

func TestHeldLocks(t *testing.T) {
	pkg := build(t, lockSrc)
	typ := pkg.Type("P").Type()
	ptr := types.NewPointer(typ)
	check := func(f *ssa.Function, want bool) {
		hl := NewHeldLocks(f, lockOfTest)
		n := 0
		for _, b := range f.Blocks {
			for _, in := range b.Instrs {
				fa, ok := in.(*ssa.FieldAddr)
				if !ok || FieldObj(fa).Name() != "m" {
					continue
				}
				n++
				if got := hl.At(in)["P.lock"]; got != want {
					t.Errorf("%s: access to m under lock: got %v want %v", f.Name(), got, want)
				}
			}
		}
		if n == 0 {
			t.Errorf("%s: no access found", f.Name())
		}
	}
	for _, tc := range []struct {
		fn   string
		want bool
	}{{"deferred", true}, {"paired", true}, {"unlockedTail", false}, {"oneBranch", false}} {
		check(pkg.Prog.LookupMethod(ptr, pkg.Pkg, tc.fn), tc.want)
	}
	// a closure runs later: the enclosing function's lock does not cover it
	outer := pkg.Prog.LookupMethod(ptr, pkg.Pkg, "closure")
	check(outer.AnonFuncs[0], false)
}

const valueSrc = `package x
type Row struct{ Name string; Index uint64 }
type Req struct{ Index uint64; Row *Row }
func get() (*Row, error)
func use(string)
func ev(s string) int
func spilled(req *Req) (idx uint64) {
	f := func() uint64 { return req.Index }
	_ = f
	return req.Index
}
func literal(a string) []int {
	return []int{ev(a)}
}
func appends(rows []*Row) []string {
	var out []string
	for _, r := range rows {
		out = append(out, r.Name)
	}
	return out
}
func copyRow(r *Row) *Row {
	c := *r
	c.Name = "x"
	return &c
}
`

func TestAccessOfThroughCapturedParam(t *testing.T) {
	pkg := build(t, valueSrc)
	f := pkg.Func("spilled")
	var ret *ssa.Return
	for _, r := range Returns(f) {
		ret = r
	}
	v := ResolveResult(ret, 0)
	a := AccessOf(v)
	if a.Root != ssa.Value(f.Params[0]) || a.LastField() != "Index" {
		t.Errorf("AccessOf(req.Index) with req captured by a closure: root=%v fields=%v", a.Root, a.Fields)
	}
}

func TestLeavesArrayLiteralAndAppend(t *testing.T) {
	pkg := build(t, valueSrc)
	f := pkg.Func("literal")
	ret := Returns(f)[0]
	found := false
	for _, l := range Leaves(ret.Results[0], SliceOpts{}) {
		if c, ok := l.(*ssa.Call); ok {
			if g := c.Call.StaticCallee(); g != nil && g.Name() == "ev" {
				found = true
			}
		}
	}
	if !found {
		t.Errorf("Leaves([]int{ev(a)}) does not reach the call")
	}
	g := pkg.Func("appends")
	ret = Returns(g)[0]
	fromParam := false
	for _, l := range Leaves(ret.Results[0], SliceOpts{}) {
		if l == ssa.Value(g.Params[0]) {
			fromParam = true
		}
	}
	if !fromParam {
		t.Errorf("Leaves(appended slice) does not reach the ranged parameter")
	}
}

func TestStoreThroughCopyIsLocal(t *testing.T) {
	// the C12.6 idiom: `c := *r; c.Name = …` writes a local copy, not *r
	pkg := build(t, valueSrc)
	f := pkg.Func("copyRow")
	for _, b := range f.Blocks {
		for _, in := range b.Instrs {
			if st, ok := in.(*ssa.Store); ok {
				if fa, ok := st.Addr.(*ssa.FieldAddr); ok {
					if _, isAlloc := fa.X.(*ssa.Alloc); !isAlloc {
						t.Errorf("store to c.Name is not through the local copy: %v", fa.X)
					}
				}
			}
		}
	}
}

const retSrc = `package x
import "errors"
var errX = errors.New("x")
func op() error
func okOrErr(c bool) (err error) {
	defer func() { _ = recover() }()
	if c {
		return errX
	}
	if err := op(); err != nil {
		return err
	}
	return nil
}
`

func TestClassifyReturnDeferSpill(t *testing.T) {
	pkg := build(t, retSrc)
	f := pkg.Func("okOrErr")
	var nOK, nFail int
	for _, rt := range Returns(f) {
		switch ClassifyReturn(rt) {
		case RetSuccess:
			nOK++
		case RetFailure:
			nFail++
		}
	}
	if nOK != 1 || nFail != 2 {
		t.Errorf("returns classified success=%d failure=%d, want 1 and 2", nOK, nFail)
	}
}
