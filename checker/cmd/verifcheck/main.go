// Command verifcheck decides the structural clauses of the consul properties
// C01–C20 by static analysis of /repo's current working tree.
package main

import (
	"encoding/json"
	"flag"
	"fmt"
	"os"
	"path/filepath"
	"runtime/debug"
	"sort"
	"strconv"
	"strings"
	"time"

	"verifcheck/internal/core"
	"verifcheck/internal/rules"
)

type evidence struct {
	PropertyID  string         `json:"property_id"`
	Tier        string         `json:"tier"`
	Seed        int            `json:"seed"`
	Level       string         `json:"level"`
	Coverage    map[string]any `json:"coverage"`
	Assumptions []string       `json:"assumptions"`
	WallS       float64        `json:"wall_s"`
	Violations  int            `json:"violations"`
}

func main() {
	var (
		prop     = flag.String("property", "", "property id (C01..C20), comma separated, or 'all'")
		tier     = flag.String("tier", "", "quick|thorough (default: $VERIF_TIER or quick)")
		repo     = flag.String("repo", "/repo", "repository working tree to analyse")
		verifDir = flag.String("verif", "", "verif directory (default: parent of the binary's directory)")
		overlay  = flag.String("overlay", "", "JSON file {path: replacement-file} of in-memory overlays (controls)")
		noEv     = flag.Bool("no-evidence", false, "do not write evidence/replay files (used for control children)")
		jsonOut  = flag.String("json", "", "write the raw report JSON here (controls)")
		verbose  = flag.Bool("v", false, "print every obligation")
	)
	flag.Parse()
	if *tier == "" {
		*tier = os.Getenv("VERIF_TIER")
	}
	if *tier != "thorough" {
		*tier = "quick"
	}
	seed := 0
	if s := os.Getenv("VERIF_SEED"); s != "" {
		if n, err := strconv.Atoi(s); err == nil {
			seed = n
		}
	}
	if *verifDir == "" {
		exe, _ := os.Executable()
		*verifDir = filepath.Dir(filepath.Dir(exe))
	}
	if *prop == "" {
		fmt.Fprintln(os.Stderr, "usage: verifcheck -property C10 [-tier quick|thorough]")
		os.Exit(2)
	}
	var ids []string
	if *prop == "all" {
		ids = rules.IDs()
	} else {
		ids = strings.Split(*prop, ",")
	}
	ov := map[string][]byte{}
	if *overlay != "" {
		raw, err := os.ReadFile(*overlay)
		if err != nil {
			fatal("overlay: %v", err)
		}
		m := map[string]string{}
		if err := json.Unmarshal(raw, &m); err != nil {
			fatal("overlay: %v", err)
		}
		for k, v := range m {
			b, err := os.ReadFile(v)
			if err != nil {
				fatal("overlay: %v", err)
			}
			ov[k] = b
		}
	}
	known, err := loadKnown(filepath.Join(*verifDir, "known_findings.json"))
	if err != nil {
		fatal("known_findings.json: %v", err)
	}
	exit := 0
	for _, id := range ids {
		if code := runOne(id, *tier, seed, *repo, *verifDir, ov, known, *noEv, *jsonOut, *verbose); code != 0 {
			exit = code
		}
	}
	os.Exit(exit)
}

func fatal(f string, a ...any) {
	fmt.Fprintf(os.Stderr, "verifcheck: "+f+"\n", a...)
	os.Exit(1)
}

func loadKnown(path string) ([]core.KnownFinding, error) {
	raw, err := os.ReadFile(path)
	if os.IsNotExist(err) {
		return nil, nil
	}
	if err != nil {
		return nil, err
	}
	var doc struct {
		Findings []core.KnownFinding `json:"findings"`
	}
	if err := json.Unmarshal(raw, &doc); err != nil {
		return nil, err
	}
	return doc.Findings, nil
}

func loadExceptions(path string) (map[string]string, error) {
	raw, err := os.ReadFile(path)
	if os.IsNotExist(err) {
		return nil, nil
	}
	if err != nil {
		return nil, err
	}
	var list []core.Exception
	if err := json.Unmarshal(raw, &list); err != nil {
		return nil, err
	}
	out := map[string]string{}
	for _, e := range list {
		out[e.Key] = e.Reason
	}
	return out, nil
}

func runOne(id, tier string, seed int, repo, verifDir string, overlay map[string][]byte, known []core.KnownFinding, noEv bool, jsonOut string, verbose bool) (code int) {
	start := time.Now()
	rule := rules.Get(id)
	if rule == nil {
		fmt.Printf("unknown property %s\n", id)
		return 2
	}
	rep := core.NewReport(id)
	var loadInfo map[string]any
	func() {
		defer func() {
			if r := recover(); r != nil {
				rep.Add(core.Obligation{Rule: id + ".checker", Construct: "<panic>", Decision: core.Undecided,
					Reason: fmt.Sprintf("checker panic: %v\n%s", r, debug.Stack())})
			}
		}()
		pats := rule.Patterns
		if tier == "thorough" && len(rule.ThoroughPatterns) > 0 {
			pats = rule.ThoroughPatterns
		}
		prog, err := core.Load(core.LoadConfig{RepoDir: repo, Patterns: pats, Overlay: overlay})
		if err != nil {
			rep.Add(core.Obligation{Rule: id + ".load", Construct: "<load>", Decision: core.Unresolved, Reason: err.Error()})
			return
		}
		nConsul := 0
		for path := range prog.All {
			if core.IsConsul(path) {
				nConsul++
			}
		}
		loadInfo = map[string]any{"patterns": pats, "root_packages": len(prog.Roots), "packages_loaded": len(prog.All), "consul_packages_loaded": nConsul}
		rule.Run(&rules.Ctx{P: prog, R: rep, Tier: tier, VerifDir: verifDir})
	}()
	if ex, err := loadExceptions(filepath.Join(verifDir, "rules", "exceptions.json")); err != nil {
		rep.Add(core.Obligation{Rule: id + ".load", Construct: "<exceptions>", Decision: core.Unresolved, Reason: err.Error()})
	} else {
		for _, k := range rep.ApplyExceptions(ex) {
			// an exception whose construct no longer exists: loud, but not a property violation
			rep.Notes = append(rep.Notes, "stale exception (no such obligation on this tree): "+k)
			fmt.Printf("   note: stale exception %s\n", k)
		}
	}
	rep.Finish()

	// match known findings
	knownByKey := map[string]core.KnownFinding{}
	for _, k := range known {
		if k.Status == "known" && k.Property == id {
			knownByKey[k.Key()] = k
		}
	}
	var bad []core.Obligation
	var knownHit []core.Obligation
	holds := 0
	for i := range rep.Obligations {
		o := &rep.Obligations[i]
		if o.Decision == core.Holds {
			holds++
			continue
		}
		if k, ok := knownByKey[o.Key()]; ok && o.Decision == core.Violated {
			o.Known = k.What
			knownHit = append(knownHit, *o)
			continue
		}
		bad = append(bad, *o)
	}
	fmt.Printf("== %s tier=%s: %d obligations, %d hold, %d known findings, %d not holding (%.1fs)\n",
		id, tier, len(rep.Obligations), holds, len(knownHit), len(bad), time.Since(start).Seconds())
	rulesSorted := make([]string, 0, len(rep.Counts))
	for r := range rep.Counts {
		rulesSorted = append(rulesSorted, r)
	}
	sort.Strings(rulesSorted)
	for _, r := range rulesSorted {
		fl := ""
		if f, ok := rep.Floors[r]; ok {
			fl = fmt.Sprintf(" (floor %d)", f)
		}
		fmt.Printf("   rule %-10s instances=%d%s\n", r, rep.Counts[r], fl)
	}
	if verbose {
		for _, o := range rep.Obligations {
			fmt.Printf("   %-9s %s  %s  %s\n", o.Decision, o.Key(), o.Pos, o.Reason)
		}
	}
	for _, o := range knownHit {
		fmt.Printf("KNOWN-FINDING: property=%s %s [%s at %s]\n", id, o.Known, o.Key(), o.Pos)
	}
	outDir := filepath.Join(verifDir, "out", id)
	if !noEv {
		os.MkdirAll(outDir, 0o755)
	}
	for i, o := range bad {
		fmt.Printf("%s %s at %s: %s\n", o.Decision, o.Key(), o.Pos, o.Reason)
		if len(o.Path) > 0 {
			fmt.Printf("    path: %s\n", core.JoinPath(o.Path))
		}
		replay := filepath.Join(outDir, fmt.Sprintf("violation_%03d.json", i))
		if !noEv {
			b, _ := json.MarshalIndent(map[string]any{"property": id, "obligation": o, "tier": tier}, "", " ")
			os.WriteFile(replay, b, 0o644)
		}
		fmt.Printf("VIOLATION property=%s replay=%s\n", id, replay)
	}
	if len(bad) > 0 {
		code = 1
		// make sure at least one VIOLATION line exists when failing on semantic
		// grounds; UNRESOLVED/UNDECIDED alone are checker-maintenance failures and
		// carry no VIOLATION line (DESIGN 2.3).
	}

	if jsonOut != "" {
		b, _ := json.MarshalIndent(rep, "", " ")
		os.WriteFile(jsonOut, b, 0o644)
	}
	if noEv {
		return code
	}

	// positive / negative controls (thorough tier): overlay variants of the
	// anchored files, one child process each. Outcomes are evidence about the
	// checker, never a verdict about the repository.
	var controls []controlResult
	if (tier == "thorough" || os.Getenv("VERIF_CONTROLS") == "1") && os.Getenv("VERIF_NO_CONTROLS") == "" && len(overlay) == 0 {
		baseline := map[string]bool{}
		for _, o := range rep.Obligations {
			if o.Decision != core.Holds {
				baseline[o.Key()] = true
			}
		}
		controls = runControls(verifDir, repo, id, baseline)
		for _, cr := range controls {
			fmt.Printf("   control %-9s %-14s %s %v\n", cr.Kind, cr.Outcome, cr.Name, cr.Reported)
		}
	}

	// evidence
	samples := []any{}
	addSample := func(o core.Obligation) {
		if len(samples) < 12 {
			samples = append(samples, o)
		}
	}
	for _, o := range bad {
		addSample(o)
	}
	for _, o := range knownHit {
		addSample(o)
	}
	perRule := map[string]bool{}
	for _, o := range rep.Obligations {
		if o.Decision == core.Holds && !perRule[o.Rule] {
			perRule[o.Rule] = true
			addSample(o)
		}
	}
	distinct := map[string]bool{}
	for _, o := range rep.Obligations {
		distinct[o.Key()] = true
	}
	byDecision := map[string]int{}
	for _, o := range rep.Obligations {
		byDecision[string(o.Decision)]++
	}
	explanation := "Static analysis of /repo's working tree (go/packages type-check, go/ssa, call graph); nothing under /repo is executed. " +
		"Decided clauses: " + strings.Join(rep.Clauses, " | ") + ". NOT decided (behavioural part of the property): " + strings.Join(rep.NotDecided, " | ")
	cov := map[string]any{
		"explanation":         explanation,
		"obligations":         len(rep.Obligations),
		"discharged":          holds,
		"evaluations":         len(rep.Obligations),
		"distinct_nontrivial": len(distinct),
		"rule":                "one obligation per (rule, construct) discovered in the type-checked program; distinct = distinct rule:construct keys; every obligation is a path/dataflow/table condition on real code, none is trivial by construction",
		"samples":             samples,
		"rule_instances":      rep.Counts,
		"rule_floors":         rep.Floors,
		"decisions":           byDecision,
		"analysed":            rep.Analysed,
		"load":                loadInfo,
		"known_findings":      knownHit,
		"all_obligations":     rep.Obligations,
		"notes":               rep.Notes,
		"controls":            controls,
		"checker_cmd":         fmt.Sprintf("bin/verifcheck -property %s -tier %s", id, tier),
		"trusted_base":        []string{"go/types type checker (go1.26.8)", "golang.org/x/tools v0.50.0 go/ssa, callgraph/vta", "frozen rule tables in the checker source and /verif/rules"},
		"exhaustive":          false,
	}
	ev := evidence{
		PropertyID: id, Tier: tier, Seed: seed, Level: "other", Coverage: cov,
		Assumptions: []string{
			"library semantics are trusted: go-memdb transactions (abort discards, commit is atomic), go-immutable-radix, tar/gzip framing, Envoy RBAC evaluation",
			"the community-edition build (no consulent tag) on linux/amd64 is the analysed program",
			"a HOLDS verdict means the structural necessary condition is intact on all paths the compiler sees, not that the behavioural property holds for all histories",
		},
		WallS: time.Since(start).Seconds(), Violations: len(bad),
	}
	os.MkdirAll(filepath.Join(verifDir, "evidence"), 0o755)
	b, _ := json.MarshalIndent(ev, "", " ")
	if err := os.WriteFile(filepath.Join(verifDir, "evidence", id+".json"), b, 0o644); err != nil {
		fmt.Printf("cannot write evidence: %v\n", err)
		return 1
	}
	return code
}
