package main

import (
	"encoding/json"
	"fmt"
	"os"
	"os/exec"
	"path/filepath"
	"sort"
	"strings"
	"sync"

	"verifcheck/internal/core"
)

// A control is a small edit of one repository file, applied as an in-memory
// overlay (never written under /repo), with the obligation the checker is
// expected to report (positive control) or the expectation that nothing new is
// reported (negative control: a behaviour-preserving edit).
type control struct {
	Name   string `json:"name"`
	Kind   string `json:"kind"` // positive | negative
	File   string `json:"file"` // relative to the repo
	Old    string `json:"old"`
	New    string `json:"new"`
	Edits  []struct {
		File string `json:"file"`
		Old  string `json:"old"`
		New  string `json:"new"`
	} `json:"edits,omitempty"`
	// Patch: a unified diff (path relative to the verif directory, e.g. a seeded
	// change) applied to temporary copies of the files it names.
	Patch  string `json:"patch,omitempty"`
	Expect string `json:"expect"` // prefix of rule:construct expected to be not-HOLDS
	Why    string `json:"why"`    // the concrete failing history this edit corresponds to
}

type controlResult struct {
	Name     string   `json:"name"`
	Kind     string   `json:"kind"`
	Expect   string   `json:"expect,omitempty"`
	Outcome  string   `json:"outcome"` // detected | missed | silent | false-alarm | not-applicable | error
	Reported []string `json:"reported,omitempty"`
	Why      string   `json:"why,omitempty"`
}

func loadControls(verifDir, id string) []control {
	var out []control
	files, _ := filepath.Glob(filepath.Join(verifDir, "controls", id, "*.json"))
	sort.Strings(files)
	for _, f := range files {
		raw, err := os.ReadFile(f)
		if err != nil {
			continue
		}
		var cs []control
		if err := json.Unmarshal(raw, &cs); err != nil {
			var c control
			if err2 := json.Unmarshal(raw, &c); err2 != nil {
				fmt.Printf("control file %s: %v\n", f, err)
				continue
			}
			cs = []control{c}
		}
		out = append(out, cs...)
	}
	return out
}

// runControls executes every control of the property in a child process and
// reports the outcomes. baseline is the set of not-HOLDS keys on the real tree.
func runControls(verifDir, repo, id string, baseline map[string]bool) []controlResult {
	ctrls := loadControls(verifDir, id)
	if len(ctrls) == 0 {
		return nil
	}
	exe, _ := os.Executable()
	tmp, err := os.MkdirTemp("", "verifctl")
	if err != nil {
		return nil
	}
	defer os.RemoveAll(tmp)
	results := make([]controlResult, len(ctrls))
	sem := make(chan struct{}, 8)
	var wg sync.WaitGroup
	for i, c := range ctrls {
		wg.Add(1)
		go func(i int, c control) {
			defer wg.Done()
			sem <- struct{}{}
			defer func() { <-sem }()
			res := controlResult{Name: c.Name, Kind: c.Kind, Expect: c.Expect, Why: c.Why}
			edits := c.Edits
			if c.File != "" {
				edits = append(edits, struct {
					File string `json:"file"`
					Old  string `json:"old"`
					New  string `json:"new"`
				}{c.File, c.Old, c.New})
			}
			ov := map[string]string{}
			content := map[string]string{}
			for _, e := range edits {
				abs := filepath.Join(repo, e.File)
				src, ok := content[abs]
				if !ok {
					raw, err := os.ReadFile(abs)
					if err != nil {
						res.Outcome = "not-applicable"
						results[i] = res
						return
					}
					src = string(raw)
				}
				if strings.Count(src, e.Old) != 1 {
					res.Outcome = "not-applicable" // the anchored text moved: the control no longer describes this tree
					results[i] = res
					return
				}
				content[abs] = strings.Replace(src, e.Old, e.New, 1)
			}
			if c.Patch != "" {
				patched, err := applyPatchToCopies(filepath.Join(verifDir, c.Patch), repo, filepath.Join(tmp, fmt.Sprintf("p%d", i)))
				if err != nil {
					res.Outcome = "not-applicable" // the patch no longer applies to this tree
					res.Why = c.Why + " (" + err.Error() + ")"
					results[i] = res
					return
				}
				for abs, src := range patched {
					content[abs] = src
				}
			}
			n := 0
			for abs, src := range content {
				f := filepath.Join(tmp, fmt.Sprintf("c%d_%d.go", i, n))
				n++
				os.WriteFile(f, []byte(src), 0o644)
				ov[abs] = f
			}
			ovFile := filepath.Join(tmp, fmt.Sprintf("ov%d.json", i))
			b, _ := json.Marshal(ov)
			os.WriteFile(ovFile, b, 0o644)
			outFile := filepath.Join(tmp, fmt.Sprintf("out%d.json", i))
			cmd := exec.Command(exe, "-property", id, "-tier", "quick", "-repo", repo, "-verif", verifDir, "-overlay", ovFile, "-no-evidence", "-json", outFile)
			cmd.Env = append(os.Environ(), "VERIF_NO_CONTROLS=1")
			cmd.Run()
			raw, err := os.ReadFile(outFile)
			if err != nil {
				res.Outcome = "error"
				results[i] = res
				return
			}
			var rep core.Report
			if err := json.Unmarshal(raw, &rep); err != nil {
				res.Outcome = "error"
				results[i] = res
				return
			}
			hit := false
			for _, o := range rep.Obligations {
				if o.Decision == core.Holds {
					continue
				}
				if baseline[o.Key()] {
					continue
				}
				res.Reported = append(res.Reported, string(o.Decision)+" "+o.Key())
				if c.Expect != "" && strings.HasPrefix(o.Key(), c.Expect) {
					hit = true
				}
			}
			switch c.Kind {
			case "negative":
				if len(res.Reported) == 0 {
					res.Outcome = "silent"
				} else {
					res.Outcome = "false-alarm"
				}
			default:
				if hit || (c.Expect == "" && len(res.Reported) > 0) {
					res.Outcome = "detected"
				} else {
					res.Outcome = "missed"
				}
			}
			if len(res.Reported) > 6 {
				res.Reported = append(res.Reported[:6], "…")
			}
			results[i] = res
		}(i, c)
	}
	wg.Wait()
	return results
}

// applyPatchToCopies copies the files a unified diff names from the repository
// into dir, applies the diff there with patch(1), and returns the patched
// contents keyed by the absolute repository path.
func applyPatchToCopies(patchFile, repo, dir string) (map[string]string, error) {
	raw, err := os.ReadFile(patchFile)
	if err != nil {
		return nil, err
	}
	var files []string
	for _, line := range strings.Split(string(raw), "\n") {
		if strings.HasPrefix(line, "+++ b/") {
			files = append(files, strings.TrimSpace(strings.TrimPrefix(line, "+++ b/")))
		}
	}
	if len(files) == 0 {
		return nil, fmt.Errorf("no files in patch")
	}
	for _, f := range files {
		src, err := os.ReadFile(filepath.Join(repo, f))
		if err != nil {
			return nil, err
		}
		dst := filepath.Join(dir, f)
		if err := os.MkdirAll(filepath.Dir(dst), 0o755); err != nil {
			return nil, err
		}
		if err := os.WriteFile(dst, src, 0o644); err != nil {
			return nil, err
		}
	}
	cmd := exec.Command("patch", "-p1", "-s", "--no-backup-if-mismatch", "-d", dir, "-i", patchFile)
	if out, err := cmd.CombinedOutput(); err != nil {
		return nil, fmt.Errorf("patch failed: %s", strings.TrimSpace(string(out)))
	}
	res := map[string]string{}
	for _, f := range files {
		b, err := os.ReadFile(filepath.Join(dir, f))
		if err != nil {
			return nil, err
		}
		res[filepath.Join(repo, f)] = string(b)
	}
	return res, nil
}
