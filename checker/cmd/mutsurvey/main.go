// Command mutsurvey measures which single-edit mutants of the anchored
// functions the rules of a property report. It is a development tool for the
// checker (it shows blind spots), never a check: nothing it prints decides a
// property. Each mutant is an in-memory overlay handed to a verifcheck child
// process; nothing is written under the repository.
//
//	mutsurvey -property C04 -targets agent/consul/state/session.go:deleteSessionTxn,... -out survey.jsonl
//
// Without -targets the functions are taken from the property's anchors in
// properties.jsonl (every identifier of the "where"/"name" strings that names
// a function declared in one of the anchored files).
package main

import (
	"bufio"
	"bytes"
	"encoding/json"
	"flag"
	"fmt"
	"go/ast"
	"go/parser"
	"go/token"
	"os"
	"os/exec"
	"path/filepath"
	"regexp"
	"sort"
	"strings"
	"sync"
)

type mutant struct {
	Property string   `json:"property"`
	File     string   `json:"file"`
	Func     string   `json:"func"`
	Line     int      `json:"line"`
	Op       string   `json:"op"`
	Text     string   `json:"text"`
	Outcome  string   `json:"outcome"` // reported | silent | nocompile | error
	Reported []string `json:"reported,omitempty"`

	start, end int
	repl       string
}

type report struct {
	Obligations []struct {
		Rule, Construct, Decision, Reason string
	}
}

func main() {
	var (
		prop    = flag.String("property", "", "property id")
		targets = flag.String("targets", "", "file:func,file:func (func may be * for every function of the file)")
		repo    = flag.String("repo", "/repo", "repository")
		verif   = flag.String("verif", "/verif", "verif directory")
		out     = flag.String("out", "", "output jsonl (default stdout)")
		par     = flag.Int("j", 6, "parallel children")
		ops     = flag.String("ops", "del,neg,else,cmp,brk", "mutation operators")
		max     = flag.Int("max", 0, "stop after this many mutants (0 = all)")
		dry     = flag.Bool("n", false, "only list the targets and the number of mutants")
	)
	flag.Parse()
	exe := filepath.Join(*verif, "bin", "verifcheck")
	tg := map[string]map[string]bool{}
	if *targets != "" {
		for _, t := range strings.Split(*targets, ",") {
			p := strings.SplitN(t, ":", 2)
			if len(p) != 2 {
				continue
			}
			if tg[p[0]] == nil {
				tg[p[0]] = map[string]bool{}
			}
			tg[p[0]][p[1]] = true
		}
	} else {
		tg = anchorTargets(*verif, *repo, *prop)
	}
	opset := map[string]bool{}
	for _, o := range strings.Split(*ops, ",") {
		opset[o] = true
	}
	var muts []*mutant
	src := map[string][]byte{}
	files := make([]string, 0, len(tg))
	for f := range tg {
		files = append(files, f)
	}
	sort.Strings(files)
	for _, f := range files {
		b, err := os.ReadFile(filepath.Join(*repo, f))
		if err != nil {
			fmt.Fprintln(os.Stderr, "skip", f, err)
			continue
		}
		src[f] = b
		muts = append(muts, enumerate(*prop, f, b, tg[f], opset)...)
	}
	if *max > 0 && len(muts) > *max {
		muts = muts[:*max]
	}
	fmt.Fprintf(os.Stderr, "%s: %d mutants in %d files\n", *prop, len(muts), len(files))
	if *dry {
		for _, f := range files {
			fns := []string{}
			for fn := range tg[f] {
				fns = append(fns, fn)
			}
			sort.Strings(fns)
			fmt.Fprintf(os.Stderr, "  %s: %s\n", f, strings.Join(fns, " "))
		}
		return
	}
	tmp, _ := os.MkdirTemp("", "mutsurvey")
	defer os.RemoveAll(tmp)
	base := run(exe, *prop, *repo, *verif, "", filepath.Join(tmp, "base.json"))
	baseline := map[string]bool{}
	if base != nil {
		for _, o := range base.Obligations {
			if o.Decision != "HOLDS" {
				baseline[o.Rule+":"+o.Construct] = true
			}
		}
	}
	w := os.Stdout
	if *out != "" {
		f, err := os.Create(*out)
		if err != nil {
			panic(err)
		}
		defer f.Close()
		w = f
	}
	bw := bufio.NewWriter(w)
	defer bw.Flush()
	var mu sync.Mutex
	sem := make(chan struct{}, *par)
	var wg sync.WaitGroup
	for i, m := range muts {
		wg.Add(1)
		go func(i int, m *mutant) {
			defer wg.Done()
			sem <- struct{}{}
			defer func() { <-sem }()
			b := src[m.File]
			var nb bytes.Buffer
			nb.Write(b[:m.start])
			nb.WriteString(m.repl)
			nb.Write(b[m.end:])
			cf := filepath.Join(tmp, fmt.Sprintf("m%d.go", i))
			os.WriteFile(cf, nb.Bytes(), 0o644)
			ov := map[string]string{filepath.Join(*repo, m.File): cf}
			ob, _ := json.Marshal(ov)
			of := filepath.Join(tmp, fmt.Sprintf("ov%d.json", i))
			os.WriteFile(of, ob, 0o644)
			rf := filepath.Join(tmp, fmt.Sprintf("r%d.json", i))
			rep := run(exe, *prop, *repo, *verif, of, rf)
			os.Remove(cf)
			os.Remove(of)
			os.Remove(rf)
			if rep == nil {
				m.Outcome = "error"
			} else {
				m.Outcome = "silent"
				for _, o := range rep.Obligations {
					if o.Decision == "HOLDS" {
						continue
					}
					k := o.Rule + ":" + o.Construct
					if baseline[k] {
						continue
					}
					if strings.HasSuffix(o.Rule, ".load") {
						m.Outcome = "nocompile"
						m.Reported = nil
						break
					}
					m.Outcome = "reported"
					if len(m.Reported) < 5 {
						m.Reported = append(m.Reported, k)
					}
				}
			}
			mu.Lock()
			jb, _ := json.Marshal(m)
			bw.Write(jb)
			bw.WriteByte('\n')
			bw.Flush()
			mu.Unlock()
		}(i, m)
	}
	wg.Wait()
	c := map[string]int{}
	for _, m := range muts {
		c[m.Outcome]++
	}
	fmt.Fprintf(os.Stderr, "%s: %v\n", *prop, c)
}

func run(exe, prop, repo, verif, overlay, jsonOut string) *report {
	args := []string{"-property", prop, "-tier", "quick", "-repo", repo, "-verif", verif, "-no-evidence", "-json", jsonOut}
	if overlay != "" {
		args = append(args, "-overlay", overlay)
	}
	cmd := exec.Command(exe, args...)
	cmd.Env = append(os.Environ(), "VERIF_NO_CONTROLS=1")
	cmd.Run()
	raw, err := os.ReadFile(jsonOut)
	if err != nil {
		return nil
	}
	var r report
	if json.Unmarshal(raw, &r) != nil {
		return nil
	}
	return &r
}

var identRe = regexp.MustCompile(`[A-Za-z_][A-Za-z0-9_]*`)
var fileRe = regexp.MustCompile(`[A-Za-z0-9_\-/]+\.go`)

func anchorTargets(verif, repo, prop string) map[string]map[string]bool {
	out := map[string]map[string]bool{}
	f, err := os.Open(filepath.Join(verif, "properties.jsonl"))
	if err != nil {
		return out
	}
	defer f.Close()
	sc := bufio.NewScanner(f)
	sc.Buffer(make([]byte, 1<<20), 1<<24)
	for sc.Scan() {
		var p struct {
			ID      string `json:"id"`
			Anchors struct {
				Files     []string `json:"files"`
				Mechanism []struct {
					Name  string `json:"name"`
					Where string `json:"where"`
				} `json:"mechanism"`
				State []struct {
					Where string `json:"where"`
				} `json:"state"`
			} `json:"anchors"`
		}
		if json.Unmarshal(sc.Bytes(), &p) != nil || p.ID != prop {
			continue
		}
		files := map[string]bool{}
		idents := map[string]bool{}
		for _, x := range p.Anchors.Files {
			files[x] = true
		}
		for _, m := range p.Anchors.Mechanism {
			for _, x := range fileRe.FindAllString(m.Where, -1) {
				files[x] = true
			}
			for _, x := range identRe.FindAllString(m.Where+" "+m.Name, -1) {
				idents[x] = true
			}
		}
		for _, s := range p.Anchors.State {
			for _, x := range fileRe.FindAllString(s.Where, -1) {
				files[x] = true
			}
		}
		for file := range files {
			full := filepath.Join(repo, file)
			if st, err := os.Stat(full); err != nil || st.IsDir() {
				// "catalog.go" relative to a previously named directory: try the anchored directories
				found := false
				for other := range files {
					c := filepath.Join(filepath.Dir(other), filepath.Base(file))
					if _, err := os.Stat(filepath.Join(repo, c)); err == nil && c != file {
						file, full, found = c, filepath.Join(repo, c), true
						break
					}
				}
				if !found {
					continue
				}
			}
			fs := token.NewFileSet()
			af, err := parser.ParseFile(fs, full, nil, 0)
			if err != nil {
				continue
			}
			for _, d := range af.Decls {
				fd, ok := d.(*ast.FuncDecl)
				if !ok || fd.Body == nil {
					continue
				}
				if idents[fd.Name.Name] {
					if out[file] == nil {
						out[file] = map[string]bool{}
					}
					out[file][fd.Name.Name] = true
				}
			}
		}
	}
	return out
}

func enumerate(prop, file string, src []byte, funcs map[string]bool, ops map[string]bool) []*mutant {
	fs := token.NewFileSet()
	af, err := parser.ParseFile(fs, file, src, parser.ParseComments)
	if err != nil {
		fmt.Fprintln(os.Stderr, "parse", file, err)
		return nil
	}
	var out []*mutant
	off := func(p token.Pos) int { return fs.Position(p).Offset }
	add := func(fn string, n ast.Node, op string, start, end int, repl string) {
		txt := string(src[off(n.Pos()):off(n.End())])
		if i := strings.IndexByte(txt, '\n'); i >= 0 {
			txt = txt[:i] + " …"
		}
		if len(txt) > 140 {
			txt = txt[:140]
		}
		out = append(out, &mutant{Property: prop, File: file, Func: fn, Line: fs.Position(n.Pos()).Line, Op: op, Text: txt, start: start, end: end, repl: repl})
	}
	for _, d := range af.Decls {
		fd, ok := d.(*ast.FuncDecl)
		if !ok || fd.Body == nil {
			continue
		}
		if !funcs["*"] && !funcs[fd.Name.Name] {
			continue
		}
		fn := fd.Name.Name
		ast.Inspect(fd.Body, func(n ast.Node) bool {
			switch x := n.(type) {
			case *ast.IfStmt:
				if ops["neg"] {
					add(fn, x.Cond, "neg", off(x.Cond.Pos()), off(x.Cond.End()), "!("+string(src[off(x.Cond.Pos()):off(x.Cond.End())])+")")
				}
				if ops["else"] && x.Else != nil {
					add(fn, x.Else, "drop-else", off(x.Body.End()), off(x.Else.End()), "")
				}
			case *ast.BinaryExpr:
				if !ops["cmp"] {
					break
				}
				var alt string
				switch x.Op {
				case token.NEQ:
					alt = "<"
				case token.EQL:
					alt = ">="
				case token.LSS:
					alt = "<="
				case token.GTR:
					alt = ">="
				case token.LEQ:
					alt = "<"
				case token.GEQ:
					alt = ">"
				case token.LAND:
					alt = "||"
				case token.LOR:
					alt = "&&"
				}
				if alt != "" {
					add(fn, x, "cmp "+x.Op.String()+"→"+alt, off(x.OpPos), off(x.OpPos)+len(x.Op.String()), alt)
				}
			case *ast.BranchStmt:
				if !ops["brk"] {
					break
				}
				if x.Label == nil && x.Tok == token.CONTINUE {
					add(fn, x, "continue→break", off(x.Pos()), off(x.End()), "break")
				} else if x.Label == nil && x.Tok == token.BREAK {
					add(fn, x, "break→continue", off(x.Pos()), off(x.End()), "continue")
				}
			}
			return true
		})
		// statement deletion
		if ops["del"] {
			ast.Inspect(fd.Body, func(n ast.Node) bool {
				var list []ast.Stmt
				switch x := n.(type) {
				case *ast.BlockStmt:
					list = x.List
				case *ast.CaseClause:
					list = x.Body
				case *ast.CommClause:
					list = x.Body
				}
				for _, s := range list {
					switch y := s.(type) {
					case *ast.ExprStmt, *ast.IncDecStmt, *ast.DeferStmt, *ast.GoStmt, *ast.IfStmt, *ast.RangeStmt, *ast.ForStmt, *ast.SwitchStmt, *ast.TypeSwitchStmt:
						add(fn, s, "del", off(s.Pos()), off(s.End()), "")
					case *ast.AssignStmt:
						if y.Tok != token.DEFINE {
							add(fn, s, "del", off(s.Pos()), off(s.End()), "")
						}
					}
				}
				return true
			})
		}
	}
	return out
}
