#!/bin/bash
# usage: try_seed.sh <seed-dir-with-patch.diff> <property-ids comma separated>
# applies the patch to /repo, runs the checks (no evidence written), reverts.
d=$1; props=$2
cd /repo && git apply $d/patch.diff || { echo "patch does not apply to /repo"; exit 2; }
cd /verif && ./bin/verifcheck -property $props -no-evidence 2>&1 | grep -v "^   rule\|^KNOWN-FINDING" | cut -c1-400
cd /repo && git checkout -- . 
