#!/bin/bash
# Runs the root module's test suite the way /root/.vp/BASELINE.json does (root module only: every fix: commit
# is in it) and lists tests of the baseline's stable_pass set that did not pass. Run on a quiet machine.
# usage: tools/baseline_compare.sh [out.json]
out=${1:-/tmp/baseline_root.json}
export PATH=/opt/veriftools/go1.26.8/bin:$PATH GOTOOLCHAIN=local GOFLAGS=-mod=mod GOPROXY=off GOSUMDB=off
cd /repo && go test -mod=mod -json -vet=off -count=1 -timeout 25m ./... > "$out" 2>/tmp/baseline_root.err
python3 - "$out" <<'PY'
import json,sys,ast
base=json.load(open('/root/.vp/BASELINE.json'))
stable=base['stable_pass']
if isinstance(stable,str): stable=ast.literal_eval(stable)
stable=set(stable)
res={}
for line in open(sys.argv[1],errors='replace'):
    try: e=json.loads(line)
    except Exception: continue
    if e.get('Test') and e.get('Action') in ('pass','fail','skip'):
        res[e['Package']+'::'+e['Test']]=e['Action']
root=[t for t in stable if t.split('::')[0].startswith('github.com/hashicorp/consul') ]
bad=[t for t in root if res.get(t) not in ('pass',) and t in res]
missing=[t for t in root if t not in res]
print('stable_pass in baseline:',len(stable),' seen in this run:',len([t for t in root if t in res]),' not passing:',len(bad),' not seen:',len(missing))
for t in sorted(bad)[:80]: print('NOT PASSING',t,res[t])
PY
