#!/usr/bin/env python3
"""Regenerates /verif/MANIFEST.json from the table below (run after adding a property's rules)."""
import json, os
V = os.path.dirname(os.path.dirname(os.path.abspath(__file__)))
ids = [json.loads(l)['id'] for l in open(os.path.join(V, 'properties.jsonl'))]
base = json.load(open('/root/.vp/BASELINE.json'))

NOTE = ("Trusted base: the Go type checker (go1.26.8), golang.org/x/tools v0.50.0 (go/packages, go/ssa, VTA call graph), "
        "the frozen rule tables in /verif/checker/internal/rules and /verif/rules, and library semantics (go-memdb, radix, tar/gzip, Envoy). "
        "Analyses the CE build on linux/amd64 of /repo's working tree; nothing under /repo is executed.")

# id -> (technique, text of the level claim, design ref)
CLAIMED = {}
def claim(i, technique, text, ref):
    CLAIMED[i] = (technique, text, ref)

claim("C10", "SSA data-flow discovery of compare-and-set sites + result-tuple folding on the mismatch edge; must-pass-through Commit on wrapper returns; edge-cut guard of the composite CA write; call-site use of the boolean; comparison-not-optional edge-cut rule",
      "Decides, for every compare-and-set function discovered by data flow (19 today) and every write-transaction wrapper (75), the structural clauses C10.1-C10.5 of DESIGN section 3: mismatch and applied results are distinguishable, true is reported only after a successful Commit and false only without one, the boolean is consumed at every call site, the composite CA operation short-circuits, the leader turns a false reply into an error. It does not decide that the comparison uses the current index for every pre-state nor atomicity across the two transactions of the composite CA operation. C10.7: with a CAS comparison's match edges removed no write is reachable (except row-absent / expected-zero / boolean mode-flag edges). C10.8: the expected index is compared for equality, not by an ordering.",
      "DESIGN.md section 3 C10")

claim("C06", "SSA must-flow (index-bump must-pass-through with callee summaries, flag-flow and bulk-delete edge refinement) over every memdb write site; backward slice of every exported reader's index; path rules on the blocking-query loop; loop-accumulator rule on the service-exists argument of the per-service index lookup; reader/writer table-coverage agreement (may-sets of tables read vs constants reaching index keys, with verified per-entity key families)",
      "Decides C06.X (the extinction index is chosen only when an accumulator updated on every iteration over the service's instances is empty), C06.W (each of the 83 non-index memdb write sites of package state is followed on every feasible non-failing path, here or in every caller, by a bump of an index key its readers consult), C06.R2 (no exported reader derives its index only from the rows it iterates), C06.Q (blocking-query loop: meta after every run, abandon channel watched, exit only on index progress/timeout/error; reported index never 0). Does not decide per-entity precision of the bumped key nor wake-up under concurrency. Also decides C06.R (for each of 96 exported readers and each table it reads through any helper, an index key naming that table — or a per-entity key every writer of the table bumps — is consulted; found and repaired four more upstream defects, two recorded) and C06.Q.raise (the loop raises its wait threshold on not-found only after a not-found pass).",
      "DESIGN.md section 3 C06")
claim("C03", "SSA value provenance of the fields of the entry that reaches the kvs insert (CreateIndex/LockIndex/Session) under branch facts; must-not-pass-through on the equal branch; tombstone must-pass-through; prefix-index agreement",
      "Decides the mechanism clauses C03.1-C03.7 of the KV store (index funnel, no-op set writes nothing and compares the object it stores, create index inherited, lock counter and holder provenance, tombstone on delete, conditional verbs' boolean consumed, list/tree-delete use one prefix index). Equivalence with a sequential reference map over histories is not decided. One known finding (KF2). C03.8: the KV check-and-set verbs compare the caller's index for equality.",
      "DESIGN.md section 3 C03")

claim("C04", "call-chain funnel over resolved callers to an effect-defined invalidator (must-flow of the three session-indexed reads + downstream releasing writes); cascade must-flow with peer/critical edge refinement; edge-cut guards on lock acquire/release; who-may-call on the TTL code; loop-accumulator rule on the invalidator's collectors",
      "Decides C04.1 (every way to remove a sessions row passes through a function that releases/deletes held keys and removes check links and session-bound queries), C04.2 (node delete, check delete, critical check each feed linked sessions to the invalidator on every successful local path), C04.3 (acquire only below session-exists and absent/unheld/same-holder edges; release only below holder==requester), C04.4 (TTL expiry goes through raftApply). Does not decide the reachable-state invariant over histories. C04.5: the invalidator collects every row its by-session lookups yield.",
      "DESIGN.md section 3 C04")

claim("C05", "edge-cut guard of Commit by the dispatch result; who-may-call closure over the dispatch loop (no transaction lifecycle calls, receivers are parameters, no escaping effects outside tx.Defer); must-flow ordering inside txn.Commit; path-sensitive nil-flow from the not-applied edge of each conditional verb; registry agreement of accepted vs handled verbs; escape rule on containers of stored rows",
      "Decides C05.1-C05.7: commit only below the no-errors edge with deferred abort; one transaction for everything below the dispatch loop (reads included); no effects that survive an abort except through tx.Defer (lock-delay timer listed); usage/events computed before, publish after, the memdb commit under commitLock; read-only path uses a read transaction; not-applied verbs become errors; every accepted verb has a handler. Library abort semantics are trusted. C05.8: no map or slice reached from a memdb read result (through field selections or a shallow struct copy) is mutated in place anywhere in package state — found and repaired a read path that wrote into a stored node row (F20).",
      "DESIGN.md section 3 C05")

claim("C01", "registry agreement (registered handlers vs raftApply producers); VTA call-graph reachability from the registered handlers restricted to consul modules with boundary-call classification (pure / sanctioned sink / ambient) and local use check of every ambient result; provenance of WriteTxn indexes; order-sensitivity classification of every reachable map range; who-may-reach for goroutines/channel ops and the leader-local timers",
      "Decides C01.1-C01.5: dispatch is total and single-valued; no ambient source (clock, env, network, randomness) reachable from apply feeds anything but metrics/logs/leader-local timers, and the leader-local lock-delay table is never read from apply; write transactions open at the handler's log index; no reachable map range leaks iteration order into state or results (7 reviewed exceptions); no goroutine/channel operation in apply. One known finding (F7: netutil.IsDualStack reached from virtual-IP assignment). Equality of two stores over histories is not decided.",
      "DESIGN.md section 3 C01")

claim("C02", "registry agreement between persisters (record-kind byte + encoded type) and restorers (decoded type); schema-table coverage by Snapshot readers / Restore writers; stream-order analysis of persistCE against index-row writers (max-merge only after the index records); must-flow ordering in FSM.Restore; sibling agreement between the online delete path and the restore rebuild of the secret-UUID table; restore-order dependences compared with a reviewed reference table",
      "Decides C02.1-C02.6: every persisted record kind has a restorer decoding the same type (27 kinds) and vice versa; each of the 36 schema tables is persisted+restored, derived-and-rebuilt, or listed; restorers that run after the index records never lower an index row; FSM.Restore swaps only after commit, under the state lock, refreshes subscriptions and abandons the old store; restore and online registration share ensureRegistrationTxn; the secret-UUID table is rebuilt completely. Equality of restored content with persisted content needs the round trip and is not decided. C02.7: for every restorer that re-runs online logic reading a table another record kind restores, the order of the two in the snapshot stream equals the reviewed one (8 pairs).",
      "DESIGN.md section 3 C02")

claim("C07", "dominance of catalog inserts by parent lookups (edge cut); cascade must-flow + fed-consumer provenance on the node/service row deleters; must-flow of derived-table maintainers on the registration path; who-may-call for the usage writer; paired-effect must-flow in the virtual-IP allocator; provenance of the read-modify-written mesh-topology row; must-pass-through on the deregistration side",
      "Decides C07.1-C07.6: services/checks rows are inserted only below successful parent lookups; node and service deletes look up and delete their dependants and reach the derived-table cleanups; the services insert path always maintains kind-service-names and (for connect) the topology; usage is written only from txn.Commit; free-list/counter/assignment writes of the VIP allocator are paired; the topology row rewritten derives from the row read. Equality of derived views with a recomputation and VIP uniqueness over histories are not decided. C07.3.kind-cleanup: every local connect deregistration looks up remaining connect instances and removes the connect-enabled kind name when none remain.",
      "DESIGN.md section 3 C07")

claim("C08", "finite-domain abstract interpretation of the two precedence functions over their whole input domain (25 + 15 cells); alias/mutation analysis of the merge-context maps; sibling agreement of authorizer methods (access-level constant vs method name, rule tree per resource, delegation targets); data-flow of the cache keys; input-immutability rule on the identity combiners",
      "Decides C08.1 (takesPrecedenceOver and enforce equal the documented order/table on every cell of their finite domain), C08.2 (no merge-map entry that aliases an input rule is written through — the F1 defect class, also for key/node/... rules), C08.3 (35 policyAuthorizer methods ask for the level their name says, 15 resources use one rule tree each, 71 delegating methods delegate to the like-named method), C08.4 (authorizer cache key folds ID and ModifyIndex of the compiled receiver). Longest-prefix selection in the radix tree is library behaviour and is not decided. C08.5: the Deduplicate combiners never write through or sort an element of their input (the shared role objects).",
      "DESIGN.md section 3 C08")

claim("C09", "registry agreement between filter call-site subject types and the filter's type switch; per-endpoint must-contain-filter check over reply types; frozen per-element-type table of authorizer questions with provenance of the name argument; structural splice/flag rules; edge-cut dominance of identity use by the IsExpired false edge; write-back rule for filters applied to local copies",
      "Decides C09.1-C09.6: every subject handed to the ACL filter has a case (43 call sites); every RPC with a filterable reply filters it (36 methods, 3 listed up-front-authorised ones); each of 23 per-type filters asks the questions frozen for its element type on a name field of the element (F10 class); 11 in-place splices step the index back and set the removed flag; the filtered flag is never overwritten in a loop (F4 class); identities are used only below the not-expired edge; anonymous masking is in place. Does not decide that nothing readable is dropped for nested structures. C09.4.copy: a filter applied to a local copy of a slice stores the copy back.",
      "DESIGN.md section 3 C09")

claim("C13", "finite-domain abstract interpretation of both precedence computations (16 + 4 cells, with an abstract heap for the stored field) and comparison of the two tables; field-identity check of the sorter's comparisons; must-pass-through of the precedence sort before an assembled list is returned (escalated to callers); loop-exit rule in the decision; dominance rule on the precedence recomputation; loop-exit rule on source collectors",
      "Decides C13.1 (both precedence functions are strictly increasing destination-first, source-second over their whole domain and agree), C13.2 (the sorter compares precedence descending and one field per tie-break), C13.3 (7 list-assembling functions: sorted here or by every caller), C13.4 (first match decides), C13.5 (precedence recomputed unconditionally on normalisation and on legacy writes). Wildcard expansion of IntentionMatch for all pairs is not decided. C13.6: loops collecting intentions from an entry's Sources scan all of them.",
      "DESIGN.md section 3 C13")

claim("C11", "lockset analysis (must-held locks per instruction, caller-holds escalation) over the publisher, subscription table and materializer; lock-order rule; edge-cut dominance and must-pass-through rules on the event generators, the subscription reader, the subscribe endpoint and the client handlers; registry agreement between emitted topics and registered snapshot handlers; value provenance of indexes in splice and view update; immutability of shared event batches",
      "Decides the synchronisation and completeness skeleton only: C11.1 (generate before, publish after the memdb commit), C11.2 (guarded fields only under their lock; snapshot+splice+registration in one critical section; lock order), C11.3 (forced resubscription wiring from ACL/restore events to the client's reset), C11.4 (client applies snapshots atomically, resets on NewSnapshotToFollow, index only from accepted deliveries), C11.5 (every emitted topic has a snapshot handler), C11.6 (generators complete over the change kinds they distinguish: rename/destination fix-up before any early exit, deletes, mapped config entries, errors abort), C11.7 (splice at the first strictly larger index; resume only at the head; stale index gets NewSnapshotToFollow). Not decided: equality of the materialised view with the direct query under every schedule and history, the commit/publish window across transactions, the lock-free buffer. C11.8: no stream function or payload method writes into an event slice it was handed (element store or x[:0]+append).",
      "DESIGN.md section 3 C11")

claim("C12", "edge-cut dominance of parsing and signing by the CSR shape checks; per-identity-kind typestate over the authorization switch (right ACL question on the identity's own field, error returned, datacenter-equal edge) with exhaustiveness over the implementations of connect.CertURI; edge-cut guard of the provider's Sign by CanSign; value provenance of every x509 template's serial number to the replicated counter (through callers); who-may-write and guard dominance on the roots table; escape rule: no store through a pointer that a state-store reader hands out as the stored row; provenance of identity fields to the decoded URI path",
      "Decides C12.1 (one URI, no e-mail SAN, successful parse before signing), C12.2 (service/agent/gateway/server: …WriteAllowed on the identity's own name with its error returned; any other CertURI implementation is rejected; CanSign or trust-domain rewrite in the signing step), C12.3 (datacenter equality for service, gateway, server), C12.4 (serial numbers from the replicated counter; leaf template not a CA), C12.5 (roots table written only by the CAS setter below the exactly-one-active check, and by restore), C12.6 (no in-place mutation of stored rows anywhere in agent/consul, which is what keeps a failed rotation from deactivating the active root). Not decided: that the issued certificate verifies against the active root, provider template handling outside the built-in provider, and rotation atomicity beyond the single-transaction write. C12.7: no identity field derives from an always-escaped form of the URI path except through PathUnescape, and RawPath-derived fields are unescaped under the same RawPath test.",
      "DESIGN.md section 3 C12")

claim("C20", "registry agreement of archive member names between writer, reader and hash list; value-flow of each registered hash into the copy of its member; edge-cut dominance of every success return by the checksum verification; failure-only paths below mismatch / unlisted-name edges; who-may-call on raft.Restore; encode/decode type agreement",
      "Decides C20.1 (writer/reader/hash-list agree on the three members; an unexpected member is an error and never skipped), C20.2 (each hash is fed on write and read; a repeated name continues the same hash), C20.3 (read succeeds only below a successful DecodeAndVerify, which rejects mismatch, unlisted name and missing checksum), C20.4 (Read/Verify succeed only below read and gzip conclusion; raft.Restore only in snapshot.Restore below a successful Read). Byte-exact round trip and detection at every corruption offset (tar/gzip framing) are not decided. C20.5: meta.json is encoded from and decoded into raft.SnapshotMeta.",
      "DESIGN.md section 3 C20")

claim("C18", "lockset (must-flow of eventLock over read/write/commit/publish), edge-cut guards of the table write by version/UID comparisons, who-may-write on the resources table, nil-on-error contradiction rule, registry agreement of the watch topic and its snapshot handler",
      "Decides C18.1 (both CAS writers hold eventLock from the read to the publication, publish after Commit, and write only below version-equal and UID-equal edges; create only with empty version), C18.2 (only they and the restoration handle write the table), C18.3 (no nil error below an err != nil edge — four such sites were repaired), C18.4 (WatchList's topic has a registered snapshot handler that lists under a read transaction; restore refreshes the topic). Linearizability under real schedules is not decided.",
      "DESIGN.md section 3 C18")

claim("C16", "edge-cut guard of every bookkeeping effect by the accepted edges of the catalog RPC result (success, ACL refusal, unknown-service on deletes); must-push rule on entries marked Deleted; provenance of in-sync assignments in the diff; lockset at push call sites; constant-result rule on the syncer's failure edge; provenance of the entries flagged in sync",
      "Decides C16.1 (5 push functions: in-sync flags set / entries dropped only below success or ACL-refusal edges, other errors returned), C16.2 (local removal marks Deleted and keeps the entry; every Deleted entry is pushed at every sync), C16.3 (the diff only clears flags or takes them from IsSame), C16.4 (push functions run under the state lock), C16.5 (a failed full sync goes to the retry state). Convergence over fault sequences is not decided. C16.6: InSync=true only on the pushed entry or on elements of the list that was sent, never on entries selected by scanning the table.",
      "DESIGN.md section 3 C16")

claim("C19", "value provenance of every append into the deletions / upserts lists of the diff functions; loop-structure rule for the two tails; cursor-discipline edge-cut rule on the sorted merge walks; edge-cut guard of the apply steps by non-empty differences; path-sensitive nil-flow from each apply step's error to the returned index; apply-order rule",
      "Decides C19.1 (4 diff functions: deletions come from the local input, upserts from the remote), C19.3 (3 merge walks drain both tails), C19.6 (a cursor only advances past a matched, scheduled or own-empty element — the seeded misalignment class), C19.4 (6 apply steps only below a non-empty difference), C19.5 (a failed apply step never lets the remote index advance). Sort key = merge key (C19.2) is not built; equality of the resulting sets for all inputs is not decided. C19.2: within a round deletions are applied before upserts (3 replicators).",
      "DESIGN.md section 3 C19")

claim("C17", "value provenance of the PeerName field of every catalog request issued by the peer-stream handlers; edge-cut guards (consumer match on the exporting side, node-keyed membership tests before a service deregistration, not-in-new-list edge before the prune); peer-edge guard on local-only tables",
      "Decides C17.1 (5 deregistrations take PeerName from the handler's peer parameter; 3 registrations are built from the snapshot that stamps node, service and check), C17.2 (insertions into the exported sets only below a consumer match), C17.3 (unexported services are pruned from the stored list), C17.4 (a stored instance is deregistered unless the snapshot holds it on the same node — the seeded flat-map class). Exact reconciliation for all prior-state/snapshot pairs is not decided. C17.5: in peer-aware state functions, writes to coordinates/sessions/KV/prepared-queries (directly or through helpers) lie below the peer-name-empty edge.",
      "DESIGN.md section 3 C17")

claim("C14", "taint analysis from identity fields to the SPIFFE principal regex with regexp.QuoteMeta as the only sanitiser; must-flow ordering of sort / de-duplicate / convert; structural rules on the precedence-removal passes (no truncation, removal only under action == default); index-order and two-sided containment rule on the pairwise source walk",
      "Decides three necessary clauses only: C14.1 (every component of the two SPIFFE principal patterns is constant or escaped — two known findings for the unescaped trust-domain host, two reviewed exceptions for partitions), C14.2 (sort by precedence, then de-duplicate by source, then convert, then remove precedence), C14.3 (precedence removal never shortens its list and drops only default-action elements — the seeded truncation class). The semantic equivalence of the generated RBAC algebra with the intention decision for all identities and requests is NOT decided by this family. C14.4: a source is subtracted only from lower-precedence entries and both containment directions of a pair are handled — found and repaired F21 (a lower-precedence exact-source intention deciding against a higher-precedence wildcard-source one).",
      "DESIGN.md section 3 C14")

claim("C15", "must-pass-through of the graph validation before every config-entries write (escalated to callers) and inside the validator; strongly-connected-component analysis of the compiler's call graph with a memo-before-recursion must-flow rule; edge-cut dominance of the produced chain by the circular-reference check; order-sensitivity classification of every map range reachable from Compile",
      "Decides C15.1 (every config-entry write/delete is preceded by the validator, and every accepting path of the validator test-compiles the affected chains), C15.2 (both recursive compiler functions check their memo map and record the node before recursing), C15.3 (no chain is produced when the circular-reference check fails), C15.4 (no map range reachable from Compile leaks iteration order into the chain — one genuine defect, F13, was found this way and repaired). Closure of the produced graph and termination for all entry sets are not decided. C15.4 also rejects first-match selection from a map (break with several keys able to match).",
      "DESIGN.md section 3 C15")

NA_REASON = {}

checks = []
for i in ids:
    if i in CLAIMED:
        tech, text, ref = CLAIMED[i]
        checks.append({
            "property_id": i,
            "quick_cmd": f"bin/verifcheck -property {i} -tier quick",
            "thorough_cmd": f"bin/verifcheck -property {i} -tier thorough",
            "evidence_file": f"evidence/{i}.json",
            "replay_cmd_template": "cat {path}",
            "engine": "verifcheck",
            "level_claimed": {"category": "other", "text": text, "design_ref": ref},
            "level_note": NOTE,
            "technique": tech,
        })
na = [{"property_id": i, "reason": NA_REASON.get(i, "static rules for this property are designed (DESIGN.md section 3) but not built yet")} for i in ids if i not in CLAIMED]
m = {
 "version": 1,
 "setup_cmd": "./setup.sh",
 "hooks": {"guard": "verif", "enable": "none needed: static analysis reads /repo's working tree, no instrumentation is compiled in",
           "baseline_off_cmd": base['cmd'], "source_commits": [], "add_only": True},
 "engines": [{"name": "verifcheck", "path": "/verif/checker", "serves_properties": sorted(CLAIMED),
              "kind_free_text": "repository-specific static analyser (go/packages + go/ssa + VTA call graph) over /repo's working tree"}],
 "checks": checks,
 "not_applicable": na,
 "notes": "All checks are static analyses of /repo's current working tree at level 'other' (structural necessary conditions); known genuine defects are listed in known_findings.json.",
}
json.dump(m, open(os.path.join(V, 'MANIFEST.json'), 'w'), indent=1)
print("claimed:", sorted(CLAIMED), "n/a:", [x['property_id'] for x in na])
