#!/usr/bin/env python3
# Prompt for a sub-agent that produces behaviour-preserving refactors (the checks must stay silent on them).
import json,sys
pid, wt, out = sys.argv[1], sys.argv[2], sys.argv[3]
prop=[json.loads(l) for l in open('/verif/properties.jsonl') if json.loads(l)['id']==pid][0]
print(f"""You are helping to evaluate a static verification tool for the open-source project hashicorp/consul (Go). The tool must stay SILENT on code changes that preserve behaviour. Your job: produce THREE independent, behaviour-preserving refactors of the production code that implements the mechanisms the property below depends on (see anchors.mechanism and anchors.files).

Work ONLY inside the git worktree {wt} (a checkout of the repository; do not touch /repo, do not read anything under /verif). Write your results to {out}/ (create it).

The property:

{json.dumps(prop, indent=1)}

Requirements for each refactor:
- The kind of change a maintainer would merge without discussion: extract a helper function or inline one; convert an if-chain to a switch or back; invert a guard clause / introduce an early return; reorder statements that are independent; rename locals or unexported functions; change a loop form (range <-> index, collect-then-apply); move a check into a small wrapper that the same callers go through; split a long function in two; hoist a repeated expression into a local; replace `x := f(); if x != nil` forms by `if x := f(); x != nil`; turn a method into a function or back; and so on.
- 10-60 changed lines, in non-test .go files, not gated by build tags, INSIDE the functions named by the anchors (or their direct helpers) - the point is to disturb the code the tool looks at, not unrelated code.
- It must not change observable behaviour for ANY input: same results, same errors (values and order of checks where the first failing check is observable), same state written at the same indexes, same locking, same events. Be careful and conservative; if in doubt choose a different refactor. Do NOT fix bugs, do NOT change semantics "slightly".
- The tree must compile and the EXISTING tests of every touched package must pass unedited (run them; for agent/consul run a relevant -run subset because the full suite is slow).
- The three refactors must be diverse: different functions, different refactoring types. Each patch must apply alone to a clean checkout.

Environment (no network; every shell call needs this):
  export PATH=/opt/veriftools/go1.26.8/bin:$PATH GOTOOLCHAIN=local GOFLAGS=-mod=mod GOPROXY=off GOSUMDB=off
Run tests like: cd {wt} && go test -count=1 ./agent/consul/state/ . Ignore the conda warning line printed by every shell call.

Deliverables in {out}/:
- r1.diff, r2.diff, r3.diff : `git diff` of each refactor alone (produce one, save the diff, `git checkout -- .`, produce the next)
- meta.json : a list of three objects {{"patch": "r1.diff", "files": [...], "functions": [...], "kind": "...", "description": "...", "why_equivalent": "...", "tests_run": ["..."]}}

When done, leave the worktree CLEAN (git checkout -- . and remove untracked files) and reply with a 6-line summary.""")
