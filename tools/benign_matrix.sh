#!/bin/bash
# Runs every behaviour-preserving patch under /verif/benign/<id>/r*.diff against the quick check of its
# property (and C03 for C04, C05 for C11 where a rule is shared) and writes benign/results.json.
# Any reported obligation is a FALSE ALARM of the machinery. Applies to /repo's working tree and always restores it.
set -u
cd /verif
[ -n "$(git -C /repo status --porcelain --untracked-files=no)" ] && { echo "/repo has local changes; refusing"; exit 2; }
only=${1:-}
tmp=$(mktemp -d)
trap 'git -C /repo checkout -- . ; rm -rf "$tmp"' EXIT
res="$tmp/res.jsonl"; : > $res
for d in benign/C*/; do
  pid=$(basename $d)
  [ -n "$only" ] && [[ ! "$only" =~ $pid ]] && continue
  for pf in $d/r*.diff; do
    n=$(basename $pf .diff)
    if ! git -C /repo apply "$PWD/$pf" 2>"$tmp/err"; then echo "$pid $n: apply failed: $(head -1 $tmp/err)"; echo "{\"id\":\"$pid/$n\",\"outcome\":\"not-applicable\"}" >> $res; continue; fi
    props=$pid
    case $pid in C04) props=C04,C03;; C11) props=C11,C05;; C05) props=C05,C11;; C03) props=C03,C04,C10;; C07) props=C07,C06;; esac
    rm -f $tmp/o_*.json
    bad=""
    for q in ${props//,/ }; do
      ./bin/verifcheck -property $q -no-evidence -json "$tmp/o_$q.json" >/dev/null 2>&1
      k=$(python3 - "$tmp/o_$q.json" <<'PY'
import json,sys
try:
    d=json.load(open(sys.argv[1]))
    bad=[o['rule']+':'+o['construct'] for o in d['Obligations'] if o['decision']!='HOLDS' and not o.get('known_finding')]
    print(' | '.join(bad))
except Exception as e:
    print('ERROR '+str(e))
PY
)
      [ -n "$k" ] && bad="$bad $k"
    done
    git -C /repo checkout -- .
    if [ -z "$bad" ]; then echo "$pid $n: silent"; echo "{\"id\":\"$pid/$n\",\"checked_by\":\"$props\",\"outcome\":\"silent\"}" >> $res
    else echo "$pid $n: FALSE ALARM:$bad"; python3 -c "import json,sys; print(json.dumps({'id':'$pid/$n','checked_by':'$props','outcome':'false-alarm','reported':sys.argv[1]}))" "$bad" >> $res; fi
  done
done
[ -z "$only" ] && python3 -c "
import json
rows=[json.loads(l) for l in open('$res')]
json.dump(rows,open('/verif/benign/results.json','w'),indent=1)
print(sum(r['outcome']=='silent' for r in rows),'silent of',len(rows))"
