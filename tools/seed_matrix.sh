#!/bin/bash
# Runs every seeded change against the quick check of its property and writes
# /verif/seeded/detection.json {seed: [non-holding obligation keys]}.
# Applies each patch to /repo's working tree and ALWAYS restores it.
set -u
cd /verif
[ -n "$(git -C /repo status --porcelain --untracked-files=no)" ] && { echo "/repo has local changes; refusing"; exit 2; }
tmp=$(mktemp -d)
trap 'git -C /repo checkout -- . ; rm -rf "$tmp"' EXIT
echo "{" > "$tmp/det.json"
first=1
for d in seeded/*/; do
  n=$(basename "$d"); pid=${n:0:3}
  [ -f "$d/patch.diff" ] || continue
  if ! git -C /repo apply "$PWD/$d/patch.diff" 2>"$tmp/err"; then echo "apply failed: $n: $(cat $tmp/err)"; continue; fi
  # seeds that another property's check reports (the mechanism they break is anchored there)
  case "$n" in C04a) pid=C03;; esac
  ./bin/verifcheck -property "$pid" -no-evidence -json "$tmp/$n.json" >/dev/null 2>&1
  git -C /repo checkout -- .
  keys=$(python3 - "$tmp/$n.json" <<'PY'
import json,sys
try:
    d=json.load(open(sys.argv[1]))
    obs=d.get('Obligations') or d.get('obligations') or []
    bad=[ (o.get('rule') or o.get('Rule'))+':'+(o.get('construct') or o.get('Construct')) for o in obs if (o.get('decision') or o.get('Decision')) not in ('HOLDS','holds') and not (o.get('known_finding') or o.get('Known'))]
    print(json.dumps(bad))
except Exception as e:
    print('null')
PY
)
  [ $first -eq 1 ] || echo "," >> "$tmp/det.json"; first=0
  echo "\"$n\": {\"checked_by\": \"$pid\", \"reported\": $keys}" >> "$tmp/det.json"
  echo "$n: $keys"
done
echo "}" >> "$tmp/det.json"
python3 -c "import json,sys; d=json.load(open('$tmp/det.json')); json.dump(d,open('/verif/seeded/detection.json','w'),indent=1,sort_keys=True)"
