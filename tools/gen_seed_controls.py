#!/usr/bin/env python3
"""Registers every seeded change as a positive control of the property whose check reports it
(controls/<pid>/seeds.json), from seeded/detection.json."""
import json, os, collections
V='/verif'
det=json.load(open(V+'/seeded/detection.json'))
by=collections.defaultdict(list)
for name,info in sorted(det.items()):
    rep=info['reported']
    if not rep: continue
    meta=json.load(open('%s/seeded/%s/meta.json'%(V,name)))
    rule=rep[0].split(':')[0]
    by[info['checked_by']].append({"name":"seed-"+name,"kind":"positive","patch":"seeded/%s/patch.diff"%name,
        "expect":rule,"why":"independently produced breaking change (property %s): %s"%(meta.get('property',name[:3]), ' '.join(meta.get('summary','').split())[:300])})
for pid,cs in by.items():
    os.makedirs('%s/controls/%s'%(V,pid),exist_ok=True)
    json.dump(cs,open('%s/controls/%s/seeds.json'%(V,pid),'w'),indent=1)
    print(pid,len(cs))
