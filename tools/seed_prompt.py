#!/usr/bin/env python3
import json,sys
pid, wt, out = sys.argv[1], sys.argv[2], sys.argv[3]
hint = sys.argv[4] if len(sys.argv)>4 else ""
prop=[json.loads(l) for l in open('/verif/properties.jsonl') if json.loads(l)['id']==pid][0]
print(f"""You are helping to evaluate a verification tool for the open-source project hashicorp/consul (Go). Your job is to act as a realistic source of bugs: produce ONE small change to consul's non-test source code that BREAKS the property below while the code still compiles and the existing unit tests of the packages you touch (and their obvious dependants) still pass, plus a demonstration that the property is broken.

Work ONLY inside the git worktree {wt} (a checkout of the repository; do not touch /repo or /verif, do not read anything under /verif). Write your results to {out}/ (create it).

The property (this is all the context you get about what is being verified):

{json.dumps(prop, indent=1)}

Requirements for the change:
- It must be a plausible mistake or "refactor" a developer could make (1-30 lines), in non-test .go files only, not gated by build tags.
- It must need something specific to manifest: a particular multi-step sequence of operations, an unusual input, a fault/crash at a particular point, a particular interleaving, or two cooperating sites that each look fine alone. It must NOT be something ordinary use or the existing tests expose at once. {hint}
- The tree must still compile (`go build ./...` in the touched module, `go vet` not required) and the EXISTING tests of every package you touched must still pass unedited (run them; also run the tests of closely related packages, e.g. agent/consul/fsm when you touch agent/consul/state). If an existing test fails, pick a different change.
- Provide a demonstration: a NEW Go test file (package-internal test is fine) that FAILS with your change applied and PASSES on the unmodified tree. Verify both directions yourself (flip with `git diff > /tmp/seed_out/<name>/patch.diff; git checkout -- .` and `git apply`; NEVER use `git stash`: the stash is shared between all worktrees of this repository and other people are working in sibling worktrees). Do not leave the demonstration test inside the patch.

Environment (no network; every shell call needs this):
  export PATH=/opt/veriftools/go1.26.8/bin:$PATH GOTOOLCHAIN=local GOFLAGS=-mod=mod GOPROXY=off GOSUMDB=off
Run tests like: cd {wt} && go test -count=1 ./agent/consul/state/   (add -run to narrow). agent/consul's full suite is slow (many minutes); for it run a relevant -run subset. Ignore the conda warning line printed by every shell call.

Deliverables in {out}/:
- patch.diff : `git diff` of the source change only (must apply with `git apply` on a clean checkout of the same commit)
- the demonstration test file(s), named *_test.go, plus a line in meta.json saying in which package directory each belongs
- meta.json : {{"property": "{pid}", "summary": "...what was changed and why it breaks the property...", "needs_to_manifest": "...the specific sequence/input/fault...", "demo": {{"file": "...", "package_dir": "...", "run": "go test -count=1 -run TestName ./pkg/"}}, "existing_tests_run": ["...commands you ran that passed with the change..."]}}

When done, leave the worktree CLEAN (git checkout -- . and remove untracked files you added) and reply with a 5-line summary: what you changed, where, how it manifests, and the commands you ran.""")
