#!/bin/bash
# usage: verify_seed.sh <name> ; expects /tmp/seed_out/<name>/{patch.diff,meta.json,*_test.go} and worktree /tmp/wt/<name>
set -u
n=$1
wt=/tmp/wt/$n
out=/tmp/seed_out/$n
export PATH=/opt/veriftools/go1.26.8/bin:$PATH GOTOOLCHAIN=local GOFLAGS=-mod=mod GOPROXY=off GOSUMDB=off
cd $wt || exit 2
git checkout -q -- . ; git clean -qfd
pkgdir=$(python3 -c "import json;print(json.load(open('$out/meta.json'))['demo']['package_dir'])")
run=$(python3 -c "import json;print(json.load(open('$out/meta.json'))['demo']['run'])")
pkgdir=${pkgdir#$wt/}; pkgdir=${pkgdir#./}
for f in $out/*_test.go; do cp $f $wt/$pkgdir/; done
echo "== demo on clean tree (expect PASS): $run"
(cd $wt && eval "$run" 2>&1 | tail -3); c1=${PIPESTATUS[0]}
echo "== apply patch"
git apply $out/patch.diff || { echo "PATCH DOES NOT APPLY"; exit 3; }
echo "== build"
(cd $wt/$(dirname $pkgdir)/.. >/dev/null 2>&1; cd $wt && go build ./$pkgdir/... 2>&1 | tail -3)
echo "== demo with patch (expect FAIL)"
(cd $wt && eval "$run" 2>&1 | tail -6)
echo "== existing tests of the touched packages (expect PASS)"
for f in $out/*_test.go; do rm -f $wt/$pkgdir/$(basename $f); done
pk=$(git diff --name-only | xargs -n1 dirname | sort -u)
for d in $pk; do (cd $wt && go test -count=1 ./$d/ 2>&1 | tail -2); done
git checkout -q -- . ; git clean -qfd
