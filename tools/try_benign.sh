#!/bin/bash
# usage: try_benign.sh <patch.diff> <property-ids comma separated>
# Applies a behaviour-preserving patch to /repo, runs the quick checks (no evidence written), reverts.
# Any VIOLATION line is a false alarm of the machinery.
p=$1; props=$2
[ -n "$(git -C /repo status --porcelain --untracked-files=no)" ] && { echo "/repo has local changes; refusing"; exit 2; }
git -C /repo apply "$p" || { echo "patch does not apply to /repo"; exit 2; }
trap 'git -C /repo checkout -- .' EXIT
cd /verif && ./bin/verifcheck -property $props -no-evidence 2>&1 | grep -v "^   rule\|^KNOWN-FINDING" | cut -c1-500
