#!/usr/bin/env python3
"""Regenerates the generated part of DESIGN.md section 10 (between the
BEGIN/END GENERATED markers) from: evidence/*.json (rule instances, control
outcomes of the last thorough run), seeded/*/meta.json and
seeded/detection.json (written by tools/seed_matrix.sh)."""
import json, glob, os, re, collections

V = '/verif'
out = []
out.append('### 10.6 Rule instances on the current tree (from the evidence files)\n')
out.append('| property | rules (instances examined) | obligations | known findings |')
out.append('|---|---|---|---|')
for f in sorted(glob.glob(V + '/evidence/C*.json')):
    d = json.load(open(f))
    cov = d['coverage']
    c = collections.Counter()
    for o in cov.get('all_obligations') or []:
        c[o['rule']] += 1
    rules = ', '.join('%s (%d)' % (k.split('.', 1)[1] if '.' in k else k, v) for k, v in sorted(c.items()))
    kf = len(cov.get('known_findings') or [])
    out.append('| %s | %s | %d | %d |' % (d['property_id'], rules, sum(c.values()), kf))
out.append('')

out.append('### 10.7 Controls (overlay mutants; last thorough run)\n')
out.append('Positive controls are single edits that break one clause and still compile;')
out.append('negative controls are behaviour-preserving rewrites. `detected` = the named rule')
out.append('reported the mutated construct; `silent` = no new report.\n')
out.append('| property | positive: detected / total | negative: silent / total | not detected |')
out.append('|---|---|---|---|')
for f in sorted(glob.glob(V + '/evidence/C*.json')):
    d = json.load(open(f))
    ctl = d['coverage'].get('controls') or []
    pos = [c for c in ctl if c.get('kind') == 'positive']
    neg = [c for c in ctl if c.get('kind') == 'negative']
    det = [c for c in pos if c.get('outcome') == 'detected']
    sil = [c for c in neg if c.get('outcome') == 'silent']
    missed = [c['name'] + ' (' + c.get('outcome', '?') + ')' for c in ctl if c not in det and c not in sil]
    if not ctl:
        out.append('| %s | (evidence from a quick run: controls not executed) | | |' % d['property_id'])
    else:
        out.append('| %s | %d / %d | %d / %d | %s |' % (d['property_id'], len(det), len(pos), len(sil), len(neg), '; '.join(missed) or '—'))
out.append('')

out.append('### 10.8 Seeded changes (independent sub-agents) and which check catches which\n')
out.append('Each change was produced by a fresh sub-agent that saw only the property text and a scratch')
out.append('worktree, compiles, passes the existing tests of the touched packages, and comes with a')
out.append('demonstration test that fails with it and passes without (verified with tools/verify_seed.sh).')
out.append('Detection = `git -C /repo apply patch.diff`, run the property\'s quick check, `git checkout` (tools/seed_matrix.sh).')
out.append('Every seed is also registered as a patch-kind positive control (controls/<id>/seeds.json), so each thorough run')
out.append('re-establishes the table below. Three or four seeds per property: round a, round b (told to avoid the area of round a),')
out.append('round c (told to avoid both) and, for C01–C15, round d. Most seeds were NOT reported by the rules as they stood when the seed arrived: in')
out.append('round a roughly half of them led to a new rule (C02.6, C03.2, C06.X, C07.3.kind-names, C10.6, C11.6, C12.6, C13.5,')
out.append('C14.3, C16.2, C17.4, C19.6, C20.2); in round b all but C01b and C18b did; in round c 6 of 20 were already caught')
out.append('(C01c, C03c, C09c, C10c, C11c, C12c) and 14 led to a new rule (§10.2). Three of the later rules found further')
out.append('upstream defects (F20, F21 and, through the shapes they introduced, O5/O9). The lesson for this family: a rule set')
out.append('derived from the mechanisms one has read is narrower than the set of mechanisms a property depends on; independent')
out.append('breakage is what shows where — and the hit rate of existing rules on fresh seeds (about half → 2/20 → 6/20 over the')
out.append('rounds: the first authors went for the mechanism the property text names, which the design had read; later ones had to look elsewhere) is an honest measure of how far that is from done.')
out.append('Round d (fifteen seeds, properties C01–C15, told to avoid the areas of a–c): 4 of 15 were reported by the rules as they stood (C01d, C04d, C06d, C10d);')
out.append('nine more after rules written over all like sites (C05.9, C04.7, C07.8, C12.8, C13.8, C09.8, C14.6, C08.7, C11.10); C02d and C15d are **not detected** — see §10.9.\n')
det = {}
if os.path.exists(V + '/seeded/detection.json'):
    det = json.load(open(V + '/seeded/detection.json'))
out.append('| seed | what was changed | reported by |')
out.append('|---|---|---|')
for m in sorted(glob.glob(V + '/seeded/*/meta.json')):
    name = os.path.basename(os.path.dirname(m))
    meta = json.load(open(m))
    summ = meta.get('summary', '')
    summ = re.sub(r'\s+', ' ', summ)
    if len(summ) > 260:
        summ = summ[:257] + '…'
    summ = summ.replace('|', '\\|')
    rep = det.get(name)
    by = ''
    if isinstance(rep, dict):
        by = rep.get('checked_by', '')
        rep = rep.get('reported')
    if meta.get('superseded'):
        r = 'superseded: ' + meta['superseded'].replace('|', '/')
    elif rep is None:
        r = '(not run)'
    elif not rep:
        r = '**not detected**'
    else:
        r = '; '.join('`%s`' % x for x in rep[:4]) + (' …' if len(rep) > 4 else '')
        if by and by != name[:3]:
            r += ' (check of %s)' % by
    out.append('| %s | %s | %s |' % (name, summ, r))
out.append('')

txt = '\n'.join(out)
p = V + '/DESIGN.md'
s = open(p).read()
B, E = '<!-- BEGIN GENERATED -->', '<!-- END GENERATED -->'
if '<<TABLES>>' in s:
    s = s.replace('<<TABLES>>', B + '\n' + txt + '\n' + E)
else:
    i, j = s.index(B), s.index(E)
    s = s[:i] + B + '\n' + txt + '\n' + s[j:]
open(p, 'w').write(s)
print('tables written:', len(out), 'lines')
