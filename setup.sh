#!/bin/sh
# Builds /verif/bin/verifcheck offline with the pre-installed go1.26.8.
set -e
cd "$(dirname "$0")/checker"
unset GOWORK
export PATH=/opt/veriftools/go1.26.8/bin:$PATH GOTOOLCHAIN=local GOFLAGS=-mod=mod GOPROXY=off GOSUMDB=off
mkdir -p ../bin
go build -o ../bin/verifcheck ./cmd/verifcheck
